#!/venv/bin/python
"""check.py <ID> [--tier quick|thorough] [--replay file]

Exit 0: property held on everything explored; 1: VIOLATION line printed;
2: the check itself could not run (timeout, internal error) - never a verdict.
"""
import sys
import os
import json
import argparse
import importlib
import traceback
import time

sys.path.insert(0, os.path.dirname(os.path.dirname(os.path.abspath(__file__))))
from harness import core  # noqa


def main():
    ap = argparse.ArgumentParser()
    ap.add_argument('pid')
    ap.add_argument('--tier', default=os.environ.get('VERIF_TIER', 'quick'))
    ap.add_argument('--replay', default=None)
    a = ap.parse_args()
    tier = a.tier if a.tier in ('quick', 'thorough') else 'quick'
    seed = int(os.environ.get('VERIF_SEED', '0') or 0)
    os.chdir(core.VERIF)
    try:
        core.import_pydl()
        mod = importlib.import_module('harness.props.' + a.pid.lower())
    except Exception:
        traceback.print_exc()
        return 2
    ctx = core.Ctx(a.pid, tier, seed)
    # overall time limit: an implementation that does not return (an endless loop in changed code) must end in a verdict
    import signal
    limit = int(os.environ.get('VERIF_WATCHDOG', '1500' if tier == 'quick' else '14400'))

    def _watchdog(sig, frm):
        raise core.Watchdog('the check did not finish within %d s' % limit)
    try:
        signal.signal(signal.SIGALRM, _watchdog)
        signal.alarm(limit)
        core.DEADLINE[0] = time.time() + limit
    except Exception:
        pass
    reach = core.Reach(a.pid)
    if not a.replay:
        reach.start()
    try:
        if a.replay:
            rp = json.loads(open(a.replay).read())
            if rp.get('kind') == 'failing-input' and hasattr(mod, 'replay'):
                mod.replay(ctx, rp['case'])
                if not ctx.violations and not ctx.disagreements and not any(not o['ok'] for o in ctx.obligations):
                    # the recorded case passes on its own: the failure may need the history of the run that found it (state
                    # kept between calls of the implementation) - reproduce it in context, same tier and seed
                    print('replay: the case alone passes; re-running the recorded run (tier %s, seed %s)' % (rp.get('tier'), rp.get('seed')))
                    ctx.cleanup()
                    ctx = core.Ctx(a.pid, rp.get('tier', tier), int(rp.get('seed', seed)))
                    mod.run(ctx)
            else:
                # a broken obligation is replayed by re-running the check
                mod.run(ctx)
        else:
            mod.run(ctx)
        ctx.reach_report = reach.stop()
        return core.finish(ctx, mod)
    except core.DriverError as e:
        # the model side cannot run: a broken obligation, never silently green
        ctx.oblige('lean driver', False, 'build', str(e))
        return core.finish(ctx, mod)
    except core.Watchdog as e:
        traceback.print_exc()
        tb = traceback.extract_tb(e.__traceback__)
        tree = os.path.realpath(os.environ.get('PYDL_REPO', '/repo')) + os.sep
        inside = [f for f in tb if os.path.realpath(f.filename).startswith(tree)]
        if inside:
            # the time ran out INSIDE the code under test: it did not return on an input of this check
            ctx.disagree('no-return', {'stream': 'no-return', 'where': ['%s:%d %s' % (f.filename, f.lineno, f.name) for f in tb[-5:]]},
                         'still running after %d s (interrupted inside %s)' % (limit, inside[-1].name),
                         'the model answers every generated case at once; on the unchanged tree the whole check takes a fraction of that time')
            signal.alarm(0)
            return core.finish(ctx, mod)
        return 2
    except Exception as e:
        traceback.print_exc()
        # An exception that escapes from the code under test on an input every generator of this check expects it to
        # accept (on the unchanged tree none does) is an answer the model does not give: a broken correspondence, to
        # be reported, not an internal error of the check.  Anything raised by the harness itself stays exit 2.
        tb = traceback.extract_tb(e.__traceback__)
        tree = os.path.realpath(os.environ.get('PYDL_REPO', '/repo')) + os.sep
        if tb and os.path.realpath(tb[-1].filename).startswith(tree) and any('harness/props' in f.filename for f in tb):
            frames = ['%s:%d %s' % (f.filename, f.lineno, f.name) for f in tb[-4:]]
            ctx.disagree('uncaught-exception', {'stream': 'uncaught-exception', 'where': frames},
                         'raised %s: %s' % (type(e).__name__, str(e)[:300]),
                         'the model gives a value on every generated case of this stream (no exception on the unchanged tree)')
            return core.finish(ctx, mod)
        return 2
    finally:
        reach.stop()
        try:
            signal.alarm(0)
        except Exception:
            pass
        ctx.cleanup()


if __name__ == '__main__':
    sys.exit(main())

#!/venv/bin/python
"""check.py <ID> [--tier quick|thorough] [--replay file]

Exit 0: property held on everything explored; 1: VIOLATION line printed;
2: the check itself could not run (timeout, internal error) - never a verdict.
"""
import sys
import os
import json
import argparse
import importlib
import traceback

sys.path.insert(0, os.path.dirname(os.path.dirname(os.path.abspath(__file__))))
from harness import core  # noqa


def main():
    ap = argparse.ArgumentParser()
    ap.add_argument('pid')
    ap.add_argument('--tier', default=os.environ.get('VERIF_TIER', 'quick'))
    ap.add_argument('--replay', default=None)
    a = ap.parse_args()
    tier = a.tier if a.tier in ('quick', 'thorough') else 'quick'
    seed = int(os.environ.get('VERIF_SEED', '0') or 0)
    os.chdir(core.VERIF)
    try:
        core.import_pydl()
        mod = importlib.import_module('harness.props.' + a.pid.lower())
    except Exception:
        traceback.print_exc()
        return 2
    ctx = core.Ctx(a.pid, tier, seed)
    try:
        if a.replay:
            rp = json.loads(open(a.replay).read())
            if rp.get('kind') == 'failing-input' and hasattr(mod, 'replay'):
                mod.replay(ctx, rp['case'])
            else:
                # a broken obligation is replayed by re-running the check
                mod.run(ctx)
        else:
            mod.run(ctx)
        return core.finish(ctx, mod)
    except core.DriverError as e:
        # the model side cannot run: a broken obligation, never silently green
        ctx.oblige('lean driver', False, 'build', str(e))
        return core.finish(ctx, mod)
    except Exception:
        traceback.print_exc()
        return 2
    finally:
        ctx.cleanup()


if __name__ == '__main__':
    sys.exit(main())

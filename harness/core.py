"""Common machinery of the pydl verification checks.

Every property module (harness/props/cXX.py) provides
  ID, THEOREMS (fully qualified Lean names), LEAN_MODULES, run(ctx) -> fills ctx
and this file supplies: import of pydl from the tree under test, the Lean
build + axiom audit, the line-protocol driver, the verdict logic, the
evidence / replay writers and the known-findings filter.
"""
import os
import sys
import json
import math
import time
import random
import struct
import hashlib
import subprocess
import tempfile
import shutil
import re
import traceback
import warnings
from pathlib import Path

VERIF = Path(__file__).resolve().parent.parent
LEAN = VERIF / 'lean'
REPO = Path(os.environ.get('PYDL_REPO', '/repo'))
GUARD = 'PYDL_VERIF'
ALLOWED_AXIOMS = {'propext', 'Classical.choice', 'Quot.sound'}
FORBIDDEN = re.compile(r'\b(sorry|admit|native_decide|bv_decide|implemented_by|unsafe)\b|^\s*axiom\s|maxHeartbeats\s+0\b')

# float comparison policy (DESIGN §2)
REL_TOL = 1e-9


def import_pydl():
    """Import pydl from the tree under test (PYDL_REPO, default /repo)."""
    os.environ[GUARD] = '1'
    p = str(REPO)
    if p in sys.path:
        sys.path.remove(p)
    sys.path.insert(0, p)
    for k in [k for k in sys.modules if k == 'pydl' or k.startswith('pydl.')]:
        del sys.modules[k]
    warnings.filterwarnings('ignore')
    import pydl  # noqa
    assert Path(pydl.__file__).resolve().parent.parent == REPO.resolve(), pydl.__file__
    return pydl


# ---------------------------------------------------------------- floats
def f2b(x):
    """float -> 64-bit pattern (int)."""
    return struct.unpack('<Q', struct.pack('<d', float(x)))[0]


def b2f(b):
    return struct.unpack('<d', struct.pack('<Q', int(b)))[0]


def f32b(x):
    import numpy as np
    return int(np.array([x], dtype=np.float32).view(np.uint32)[0])


def close(a, b, tol=REL_TOL):
    import math
    if isinstance(a, float) and isinstance(b, float):
        if math.isnan(a) or math.isnan(b):
            return math.isnan(a) and math.isnan(b)
        if math.isinf(a) or math.isinf(b):
            return a == b
    return abs(a - b) <= tol * max(1.0, abs(a), abs(b))


def exc_kind(e):
    """Map an exception to the small enum used in canonical outputs."""
    n = type(e).__name__
    if n in ('ValueError', 'KeyError', 'IndexError', 'TypeError', 'OverflowError',
             'AttributeError', 'ZeroDivisionError'):
        return n
    for base in type(e).__mro__:
        if base.__name__ in ('PydlException',):
            return 'PydlException:' + n
    return 'Other:' + n


# ---------------------------------------------------------------- context
class Ctx:
    def __init__(self, pid, tier, seed):
        self.pid = pid
        self.tier = tier
        self.seed = seed
        self.rng = random.Random(seed * 1000003 + int(hashlib.sha1(pid.encode()).hexdigest()[:8], 16))
        self.t0 = time.time()
        self.obligations = []      # {name, kind, ok, detail}
        self.axioms = {}           # theorem -> [axioms]
        self.evaluations = 0
        self.distinct = set()
        self.samples = []
        self.coverage = {}         # free-form counters
        self.disagreements = []    # {stream, case, impl, model}
        self.violations = []       # {signature, what, case}
        self.assumptions = []
        self.rule = ''
        self.notes = []
        self.tmp = None

    # budget helper: quick vs thorough
    def n(self, quick, thorough):
        return thorough if self.tier == 'thorough' else quick

    def count(self, key, k=1):
        self.coverage[key] = self.coverage.get(key, 0) + k

    def seen(self, case, nontrivial=True):
        self.evaluations += 1
        if nontrivial:
            h = hashlib.sha1(json.dumps(case, sort_keys=True, default=str).encode()).digest()[:8]
            self.distinct.add(h)
        if len(self.samples) < 6 and (self.evaluations in (1, 2, 3) or self.rng.random() < 0.01):
            self.samples.append(_trim(case))

    def disagree(self, stream, case, impl, model):
        self.disagreements.append({'stream': stream, 'case': case, 'impl': impl, 'model': model})

    def violate(self, signature, what, case):
        self.violations.append({'signature': signature, 'what': what, 'case': case})

    def oblige(self, name, ok, kind='theorem', detail=''):
        self.obligations.append({'name': name, 'kind': kind, 'ok': bool(ok), 'detail': detail[-2000:]})

    def tmpdir(self):
        if self.tmp is None:
            self.tmp = tempfile.mkdtemp(prefix='pydlverif-%s-' % self.pid)
        return self.tmp

    def cleanup(self):
        if self.tmp:
            shutil.rmtree(self.tmp, ignore_errors=True)
            self.tmp = None


def _trim(x, depth=0):
    if isinstance(x, dict):
        return {k: _trim(v, depth + 1) for k, v in list(x.items())[:12]}
    if isinstance(x, (list, tuple)):
        return [_trim(v, depth + 1) for v in list(x)[:8]] + (['...%d more' % (len(x) - 8)] if len(x) > 8 else [])
    if isinstance(x, str) and len(x) > 300:
        return x[:300] + '...'
    return x


# ---------------------------------------------------------------- Lean side
def _run(cmd, cwd=None, timeout=3600, inp=None):
    env = dict(os.environ)
    p = subprocess.run(cmd, cwd=cwd, input=inp, capture_output=True, text=True, timeout=timeout, env=env)
    return p.returncode, p.stdout + p.stderr


_built = {}


def lake_build(targets):
    key = tuple(targets)
    if key in _built:
        return _built[key]
    rc, out = _run(['lake', 'build'] + list(targets), cwd=LEAN)
    _built[key] = (rc == 0, out)
    return _built[key]


def lean_sources(modules):
    """Source files of the given modules and of their PydlVerif imports (transitively)."""
    todo, seen = list(modules), []
    while todo:
        m = todo.pop()
        if m in seen or not m.startswith('PydlVerif'):
            continue
        f = LEAN / (m.replace('.', '/') + '.lean')
        if not f.exists():
            continue
        seen.append(m)
        for line in f.read_text().splitlines():
            mm = re.match(r'\s*(?:public\s+)?import\s+(\S+)', line)
            if mm:
                todo.append(mm.group(1))
    return [LEAN / (m.replace('.', '/') + '.lean') for m in seen]


def strip_comments(src):
    src = re.sub(r'/-.*?-/', '', src, flags=re.S)
    return re.sub(r'--.*', '', src)


def audit(ctx, modules, theorems):
    """Build the property modules, grep for forbidden constructs and check the
    axioms of every property theorem. Records one obligation per theorem."""
    ok, log = lake_build(modules)
    if not ok:
        ctx.oblige('lake build ' + ' '.join(modules), False, 'build', log)
        # which theorems are affected cannot be told apart: all are unproved on this run
        for t in theorems:
            ctx.oblige(t, False, 'theorem', 'module did not build')
        return False
    bad = []
    for f in lean_sources(modules):
        for i, line in enumerate(strip_comments(f.read_text()).splitlines(), 1):
            if FORBIDDEN.search(line):
                bad.append('%s:%d: %s' % (f.relative_to(LEAN), i, line.strip()))
    ctx.oblige('no sorry/admit/axiom/native_decide/bv_decide/implemented_by/unsafe in ' + ' '.join(modules),
               not bad, 'audit', '\n'.join(bad))
    d = LEAN / '.audit'
    d.mkdir(exist_ok=True)
    f = d / ('%s_%d.lean' % (ctx.pid, os.getpid()))
    f.write_text(''.join('import %s\n' % m for m in modules) +
                 ''.join('#print axioms %s\n' % t for t in theorems))
    try:
        rc, out = _run(['lake', 'env', 'lean', str(f)], cwd=LEAN)
    finally:
        f.unlink(missing_ok=True)
    found = {}
    for m in re.finditer(r"'([^']+)' depends on axioms: \[([^\]]*)\]", out):
        found[m.group(1)] = [a.strip() for a in m.group(2).replace('\n', ' ').split(',') if a.strip()]
    for m in re.finditer(r"'([^']+)' does not depend on any axioms", out):
        found[m.group(1)] = []
    allok = not bad
    for t in theorems:
        if t not in found:
            ctx.oblige(t, False, 'theorem', 'not found by #print axioms:\n' + out)
            allok = False
            continue
        extra = [a for a in found[t] if a not in ALLOWED_AXIOMS]
        ctx.axioms[t] = found[t]
        ctx.oblige(t, not extra, 'theorem', 'axioms: %s' % found[t])
        allok = allok and not extra
    if ctx.tier == 'thorough':
        # independent re-check of the compiled property modules by the kernel re-checker
        try:
            rc, out = _run(['lake', 'env', 'leanchecker'] + list(modules), cwd=LEAN, timeout=1800)
            ctx.oblige('leanchecker ' + ' '.join(modules), rc == 0, 'recheck', out)
            allok = allok and rc == 0
        except subprocess.TimeoutExpired:
            ctx.notes.append('leanchecker timed out (not a verdict)')
    return allok


def gen_obligations(ctx, module, path, theorems):
    """Build a regenerated module (Gen/...) and record one obligation per regenerated theorem.
    A failing `decide` is attributed to its theorem through the line number of the error."""
    _built.pop((module,), None)
    ok, log = lake_build([module])
    lines = Path(path).read_text().splitlines()
    where = {}
    for i, l in enumerate(lines, 1):
        m = re.match(r'\s*theorem\s+(\S+)', l)
        if m:
            where[i] = m.group(1)
    failed = set()
    if not ok:
        for m in re.finditer(r'error: \S*%s:(\d+):\d+' % re.escape(Path(path).name), log):
            ln = int(m.group(1))
            cands = [i for i in where if i <= ln]
            if cands:
                failed.add(where[max(cands)])
        if not failed:
            failed = set(where.values())
    for t in theorems:
        short = t.split('.')[-1]
        ctx.oblige(t, short not in failed, 'gen-decide',
                   '' if short not in failed else 'regenerated obligation fails:\n' + log[-1500:])
    return ok


_driver_ok = None


def driver(lines, timeout=1500):
    """Send JSON lines to the compiled Lean driver, return the decoded output lines."""
    global _driver_ok
    if _driver_ok is None:
        _driver_ok = lake_build(['pydl_driver'])
        if not _driver_ok[0]:
            # a concurrent lake process can make one attempt fail; try once more before giving up
            _built.pop(('pydl_driver',), None)
            time.sleep(2)
            _driver_ok = lake_build(['pydl_driver'])
    if not _driver_ok[0]:
        raise DriverError('driver does not build:\n' + _driver_ok[1][-3000:])
    exe = LEAN / '.lake' / 'build' / 'bin' / 'pydl_driver'
    inp = ''.join(json.dumps(l, separators=(',', ':')) + '\n' for l in lines)
    try:
        p = subprocess.run([str(exe)], input=inp, capture_output=True, text=True, timeout=timeout)
    except subprocess.TimeoutExpired:
        # the model side did not answer (e.g. inputs captured from a changed implementation blow the model's run time up):
        # a broken obligation to be reported, not an internal error of the check
        raise DriverError('driver did not answer %d lines within %d s' % (len(lines), timeout))
    if p.returncode != 0:
        raise DriverError('driver exit %d: %s' % (p.returncode, p.stderr[-2000:]))
    out = [json.loads(l) for l in p.stdout.splitlines() if l.strip()]
    if len(out) != len(lines):
        raise DriverError('driver answered %d lines for %d' % (len(out), len(lines)))
    return out


def driver_parallel(lines, workers=8, chunk=2000):
    """Same as driver() but splits the lines over several driver processes."""
    if len(lines) <= chunk:
        return driver(lines)
    from concurrent.futures import ThreadPoolExecutor
    parts = [lines[i:i + chunk] for i in range(0, len(lines), chunk)]
    with ThreadPoolExecutor(max_workers=workers) as ex:
        outs = list(ex.map(driver, parts))
    return [o for part in outs for o in part]


class DriverError(Exception):
    pass


class Watchdog(BaseException):
    """raised by check.py's overall time limit (BaseException: no `except Exception` of a harness swallows it)"""


class CaseTimeout(Exception):
    """the implementation did not return from one call within the per-case limit: an answer (a wrong one), like an exception"""


class time_limit:
    """with core.time_limit(30): <call of the code under test>   - SIGALRM based, nests inside check.py's watchdog"""

    def __init__(self, seconds):
        self.seconds = int(max(1, seconds))

    def __enter__(self):
        import signal

        def _raise(sig, frm):
            raise CaseTimeout('no return within %d s' % self.seconds)
        self.t0 = time.time()
        self.prev_handler = signal.signal(signal.SIGALRM, _raise)
        self.prev_left = signal.alarm(self.seconds)
        return self

    def __exit__(self, *exc):
        import signal
        signal.alarm(0)
        signal.signal(signal.SIGALRM, self.prev_handler)
        if self.prev_left:
            # re-arm the enclosing limit from its absolute deadline (no drift over thousands of nested limits)
            left = (DEADLINE[0] - time.time()) if DEADLINE[0] else (self.prev_left - (time.time() - self.t0))
            signal.alarm(max(1, int(math.ceil(left))))
        return False


DEADLINE = [None]


# ---------------------------------------------------------------- findings
def load_known():
    f = VERIF / 'known_findings.json'
    if not f.exists():
        return []
    return json.loads(f.read_text())


def known_match(pid, signature):
    for k in load_known():
        if k.get('status') == 'finding' and k.get('property') == pid:
            if re.fullmatch(k['signature'], signature):
                return k
    return None


# ---------------------------------------------------------------- verdict
def finish(ctx, mod):
    """Verdict logic of DESIGN §1: returns the exit code."""
    broken = [o for o in ctx.obligations if not o['ok']]
    lines = []
    rc = 0
    # de-duplicate violations by signature, keep the smallest case
    bysig = {}
    for v in ctx.violations:
        s = v['signature']
        if s not in bysig or len(json.dumps(v['case'], default=str)) < len(json.dumps(bysig[s]['case'], default=str)):
            bysig[s] = v
    n_new = 0
    for s, v in sorted(bysig.items()):
        k = known_match(ctx.pid, s)
        if k is not None:
            lines.append('KNOWN-FINDING: property=%s %s [%s]' % (ctx.pid, k['text'], s))
            continue
        n_new += 1
        path = write_replay(ctx, {'kind': 'failing-input', 'signature': s, 'what': v['what'], 'case': v['case']})
        lines.append('VIOLATION property=%s replay=%s' % (ctx.pid, path))
        rc = 1
    if (broken or ctx.disagreements) and n_new == 0:
        # the proof or the correspondence no longer checks and no failing input was found
        first = ctx.disagreements[0] if ctx.disagreements else None
        path = write_replay(ctx, {
            'kind': 'broken-obligation',
            'broken_obligations': broken,
            'broken_correspondence': [d['stream'] for d in ctx.disagreements[:20]],
            'first_disagreement': first,
            'n_disagreements': len(ctx.disagreements)})
        lines.append('VIOLATION property=%s replay=%s no-failing-input-found' % (ctx.pid, path))
        rc = 1
    elif (broken or ctx.disagreements) and n_new:
        ctx.notes.append('broken obligations/correspondence explained by the failing input(s) reported')
    write_evidence(ctx, mod, n_new if rc else 0)
    for l in lines:
        print(l)
    for o in broken:
        print('  broken %s: %s -- %s' % (o['kind'], o['name'], o['detail'].strip().splitlines()[-1] if o['detail'].strip() else ''))
    for d in ctx.disagreements[:5]:
        print('  disagreement[%s]: case=%s impl=%s model=%s' % (
            d['stream'], json.dumps(_trim(d['case']), default=str)[:400],
            json.dumps(_trim(d['impl']), default=str)[:300], json.dumps(_trim(d['model']), default=str)[:300]))
    print('%s %s tier=%s seed=%d: %d obligations (%d discharged), %d cases (%d distinct non-trivial), '
          '%d disagreements, %d violations, %.1fs' % (
              ctx.pid, 'FAIL' if rc else 'ok', ctx.tier, ctx.seed, len(ctx.obligations),
              len(ctx.obligations) - len(broken), ctx.evaluations, len(ctx.distinct),
              len(ctx.disagreements), len(bysig), time.time() - ctx.t0))
    return rc


def write_replay(ctx, payload):
    d = VERIF / 'replays'
    d.mkdir(exist_ok=True)
    payload = dict(payload, property=ctx.pid, seed=ctx.seed, tier=ctx.tier)
    blob = json.dumps(payload, indent=1, default=str, sort_keys=True)
    name = '%s-%d-%s.json' % (ctx.pid, ctx.seed, hashlib.sha1(blob.encode()).hexdigest()[:8])
    (d / name).write_text(blob)
    return 'replays/' + name


def write_evidence(ctx, mod, nviol):
    broken = [o for o in ctx.obligations if not o['ok']]
    axioms = sorted({a for v in ctx.axioms.values() for a in v})
    ev = {
        'property_id': ctx.pid,
        'tier': ctx.tier,
        'seed': ctx.seed,
        'level': 'proof',
        'coverage': {
            'obligations': len(ctx.obligations),
            'discharged': len(ctx.obligations) - len(broken),
            'checker_cmd': 'cd lean && lake build %s && lake env lean <#print axioms of every property theorem>'
                           % ' '.join(getattr(mod, 'LEAN_MODULES', [])),
            'trusted_base': ['Lean 4.33.0 kernel', 'Mathlib v4.33.0 (modules imported by the proof files)',
                             'axioms used: ' + (', '.join(axioms) if axioms else 'none')] +
                            list(getattr(mod, 'TRUSTED', [])),
            'obligation_list': [{'name': o['name'], 'kind': o['kind'], 'ok': o['ok']} for o in ctx.obligations],
            'evaluations': ctx.evaluations,
            'distinct_nontrivial': len(ctx.distinct),
            'rule': ctx.rule or getattr(mod, 'RULE', ''),
            'samples': ctx.samples[:6] if ctx.samples else [{'note': 'no correspondence cases were run'}],
            'disagreements_checked': len(ctx.disagreements),
            'distribution': ctx.coverage,
            'code_reach': getattr(ctx, 'reach_report', None) or {'note': 'not measured on this run'},
            'tolerance_rel': REL_TOL,
            'notes': ctx.notes,
        },
        'assumptions': list(getattr(mod, 'ASSUMPTIONS', [])) + ctx.assumptions,
        'wall_s': round(time.time() - ctx.t0, 2),
        'violations': nviol,
    }
    d = VERIF / 'evidence'
    d.mkdir(exist_ok=True)
    (d / ('%s.json' % ctx.pid)).write_text(json.dumps(ev, indent=1, default=str))


# ---------------------------------------------------------------- reach of the correspondence inside the anchored code
class Reach:
    """Which lines of the anchored source files the real-code side of the correspondence executed on THIS run.

    A measurement, never a verdict: it goes into evidence/<id>.json (coverage.code_reach) so that a reader - and the
    builder of a check - sees which branches of the code the model follows were actually driven by the generators; an
    anchored function that was never entered or lines never executed inside an entered function are the places where
    a changed implementation could differ from the model without the correspondence noticing.  sys.monitoring LINE
    events with DISABLE after the first hit of every location: the cost is one callback per distinct line.
    Only the main process is observed (worker processes of a thorough tier are not), so the numbers are lower bounds."""

    def __init__(self, pid):
        self.pid = pid
        self.hit = {}          # realpath -> set(lines)
        self.tid = None
        self.files = {}
        self.named = []
        try:
            for l in open(VERIF / 'properties.jsonl'):
                p = json.loads(l)
                if p['id'] != pid:
                    continue
                for f in p['anchors'].get('files', []):
                    fp = (REPO / f)
                    if fp.suffix == '.py' and fp.exists():
                        self.files[str(fp.resolve())] = f
                for m in p['anchors'].get('mechanism', []):
                    self.named += re.findall(r'([A-Za-z_][A-Za-z0-9_]*)\(\)', m.get('name', ''))
        except Exception:
            pass

    def start(self):
        if not self.files or os.environ.get('VERIF_REACH', '1') == '0' or not hasattr(sys, 'monitoring'):
            return
        M = sys.monitoring
        for t in (M.COVERAGE_ID, 5):
            if M.get_tool(t) is None:
                self.tid = t
                break
        if self.tid is None:
            return
        M.use_tool_id(self.tid, 'pydl-verif-reach')
        files, hit, DIS = self.files, self.hit, M.DISABLE

        def _line(code, line):
            fn = code.co_filename
            if fn in files:
                hit.setdefault(fn, set()).add(line)
            return DIS
        M.register_callback(self.tid, M.events.LINE, _line)
        M.set_events(self.tid, M.events.LINE)

    def stop(self):
        if self.tid is None:
            return None
        M = sys.monitoring
        try:
            M.set_events(self.tid, 0)
            M.register_callback(self.tid, M.events.LINE, None)
            M.free_tool_id(self.tid)
        except Exception:
            pass
        self.tid = None
        return self.report()

    @staticmethod
    def _functions(path):
        """qualified name -> (first line, set of executable lines) for every function in the file"""
        out = {}

        def walk(co, qual):
            for c in co.co_consts:
                if hasattr(c, 'co_code'):
                    q = (qual + '.' if qual else '') + c.co_name
                    if c.co_name.startswith('<') and c.co_name != '<lambda>':
                        # comprehensions / generator expressions belong to the enclosing function
                        walk(c, qual)
                        lines = {l for (_, _, l) in c.co_lines() if l}
                        if qual in out:
                            out[qual][1].update(lines)
                        continue
                    if not (c.co_flags & 0x1):      # a class body (no CO_OPTIMIZED): only a namespace for its methods
                        walk(c, q)
                        continue
                    lines = {l for (_, _, l) in c.co_lines() if l}
                    lines.discard(c.co_firstlineno)
                    out[q] = [c.co_firstlineno, lines]
                    walk(c, q)
        walk(compile(open(path).read(), path, 'exec'), '')
        return out

    def report(self):
        rep = {'note': 'lines of the anchored files executed by the implementation side of this run (main process only; lower bound)',
               'files': {}}
        entered_names = set()
        for path, rel in self.files.items():
            try:
                fns = self._functions(path)
            except Exception as e:
                rep['files'][rel] = {'error': str(e)[:200]}
                continue
            hit = self.hit.get(path, set())
            ent, tot, got, missed = [], 0, 0, {}
            for q, (first, lines) in sorted(fns.items(), key=lambda kv: kv[1][0]):
                h = lines & hit
                if not h:
                    continue
                ent.append(q)
                entered_names.add(q.split('.')[-1])
                tot += len(lines)
                got += len(h)
                if lines - h:
                    missed[q] = sorted(lines - h)[:40]
            rep['files'][rel] = {'functions_entered': ent, 'lines_in_entered_functions': tot, 'lines_executed': got,
                                 'not_executed': missed}
        never = sorted({n for n in self.named if n not in entered_names})
        rep['anchored_functions_never_entered_in_main_process'] = never
        return rep


# ---------------------------------------------------------------- shrinking
def shrink_list(xs, fails, minlen=0):
    """Delta-debugging over a list: smallest sublist on which fails(sublist) is still true."""
    xs = list(xs)
    n = 2
    while len(xs) > minlen and n <= max(2, len(xs)):
        size = max(1, len(xs) // n)
        reduced = False
        for i in range(0, len(xs), size):
            cand = xs[:i] + xs[i + size:]
            if len(cand) >= minlen and cand != xs:
                try:
                    if fails(cand):
                        xs = cand
                        n = max(n - 1, 2)
                        reduced = True
                        break
                except Exception:
                    pass
        if not reduced:
            if size == 1:
                break
            n = min(len(xs), n * 2)
    return xs

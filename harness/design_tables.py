#!/venv/bin/python
"""Print the generated tables of DESIGN.md (defects, per-property summary, seeded changes) as markdown."""
import sys, os, json, re, importlib, glob
sys.path.insert(0, os.path.dirname(os.path.dirname(os.path.abspath(__file__))))
from harness import core
V = core.VERIF
out = []
out.append('### Defects of pydl found by the checks (from known_findings.json)\n')
out.append('| property | status | commit / signature | what failed |\n|---|---|---|---|')
for k in json.load(open(V / 'known_findings.json')):
    t = k['text']
    t = re.sub(r'^fixed: property=\S+ \S+ ', '', t)
    out.append('| %s | %s | %s | %s |' % (k['property'], k['status'], k.get('commit') or '`%s`' % k.get('signature'), t.replace('|', '\\|').replace('\n', ' ')))
out.append('\n### Per-property summary (measured on the last run: evidence/*.json)\n')
out.append('| id | Lean model / lemma / proof files | theorems audited | obligations | quick cases | quick s |\n|---|---|---|---|---|---|')
for l in open(V / 'properties.jsonl'):
    pid = json.loads(l)['id']
    f = V / 'harness' / 'props' / (pid.lower() + '.py')
    if not f.exists():
        out.append('| %s | (not built) | | | | |' % pid); continue
    mod = importlib.import_module('harness.props.' + pid.lower())
    files = sorted({str(p.relative_to(core.LEAN / 'PydlVerif')) for p in core.lean_sources(mod.LEAN_MODULES)})
    ev = json.load(open(V / 'evidence' / (pid + '.json'))) if (V / 'evidence' / (pid + '.json')).exists() else None
    out.append('| %s | %s | %d | %s | %s | %s |' % (pid, ', '.join(files), len(mod.THEOREMS),
               ev['coverage']['obligations'] if ev else '', ev['coverage']['evaluations'] if ev else '', ev['wall_s'] if ev else ''))
out.append('\n### Seeded changes (seeded/<name>/) and the verdict of the check of the property they break\n')
last = {}
cur = None
for line in open(V / 'seeded' / 'RESULTS.md'):
    m = re.match(r'\| (C\d+-\d+) \| (C\d+) \| ([^|]+) \|', line)
    if m:
        last[m.group(1)] = m.group(3).strip()
out.append('| seeded change | what it needs to manifest (first lines of its note) | verdict (last run) |\n|---|---|---|')
for d in sorted(glob.glob(str(V / 'seeded' / 'C*-*'))):
    n = os.path.basename(d)
    meta = json.load(open(os.path.join(d, 'meta.json')))
    need = ' '.join(meta['needs'].split())[:260].replace('|', '\\|')
    out.append('| %s | %s | %s |' % (n, need, last.get(n, 'not run')))
out.append('\n### Harmless refactors (refactors/<name>/) and the verdict of the check of the property they are anchored in\n')
lastr = {}
try:
    for line in open(V / 'refactors' / 'RESULTS.md'):
        m = re.match(r'\| (C\d+-\d+) \| (C\d+) \| ([^|]+) \|', line)
        if m:
            lastr[m.group(1)] = m.group(3).strip()
except OSError:
    pass
out.append('| refactor | what it rewrites (first lines of its note) | verdict (last run) |\n|---|---|---|')
for d in sorted(glob.glob(str(V / 'refactors' / 'C*-*'))):
    n = os.path.basename(d)
    meta = json.load(open(os.path.join(d, 'meta.json')))
    need = ' '.join(meta['needs'].split())[:220].replace('|', '\\|')
    out.append('| %s | %s | %s |' % (n, need, lastr.get(n, 'not run')))
text = '\n'.join(out)
if '--update' in sys.argv:
    d = (V / 'DESIGN.md').read_text()
    a, b = d.index('<!-- TABLES:BEGIN -->') + len('<!-- TABLES:BEGIN -->'), d.index('<!-- TABLES:END -->')
    (V / 'DESIGN.md').write_text(d[:a] + '\n' + text + '\n' + d[b:])
    print('DESIGN.md section 8 updated')
else:
    print(text)

#!/usr/bin/env python3
"""integrate.py Cxx [BASE] : copy what the builder of Cxx changed in /tmp/w/Cxx/verif into /verif.
A file is 'changed by the builder' when it differs from its version at commit BASE (the commit the
workspace was copied from).  Conflicts (also changed in /verif since BASE) are listed, not copied."""
import sys, os, subprocess, filecmp, shutil
pid = sys.argv[1]
base = sys.argv[2] if len(sys.argv) > 2 else open('/tmp/w/%s/BASE' % pid).read().strip()
src = '/tmp/w/%s/verif' % pid
dst = '/verif'
SKIP_DIRS = {'.lake', '.audit', '__pycache__', 'evidence', 'replays', '.git', 'Gen'}
PROTECTED = {'harness/core.py', 'harness/check.py', 'lean/Main.lean', 'lean/lakefile.toml', 'MANIFEST.json', 'DESIGN.md',
             'properties.jsonl', 'known_findings.json', 'harness/manifest_gen.py', 'harness/AGENT_GUIDE.md',
             'harness/mkwork.sh', 'harness/integrate.py', 'harness/not_applicable.json', '.gitignore'}
def base_blob(rel):
    p = subprocess.run(['git', '-C', dst, 'show', '%s:%s' % (base, rel)], capture_output=True)
    return p.stdout if p.returncode == 0 else None
copied, conflicts, protected = [], [], []
for root, dirs, files in os.walk(src):
    dirs[:] = [d for d in dirs if d not in SKIP_DIRS]
    for f in files:
        if f.endswith('.pyc'):
            continue
        sp = os.path.join(root, f)
        rel = os.path.relpath(sp, src)
        data = open(sp, 'rb').read()
        b = base_blob(rel)
        if b is not None and b == data:
            continue  # untouched by the builder
        dp = os.path.join(dst, rel)
        if rel in PROTECTED:
            protected.append(rel)
            continue
        if os.path.exists(dp):
            cur = open(dp, 'rb').read()
            if cur == data:
                continue
            if b is None or cur != b:
                conflicts.append(rel)
                continue
        os.makedirs(os.path.dirname(dp), exist_ok=True)
        shutil.copy2(sp, dp)
        copied.append(rel)
print('copied:'); [print('  ' + c) for c in sorted(copied)]
print('conflicts (changed on both sides, NOT copied):'); [print('  ' + c) for c in sorted(conflicts)]
print('protected files the builder changed (NOT copied):'); [print('  ' + c) for c in sorted(protected)]

#!/bin/sh
# integrate_all.sh Cxx : copy the builder's files, cherry-pick its fix: commits into /repo, merge its known findings
set -e
ID=$1
cd /verif
python3 harness/integrate.py $ID
BR=$(git -C /tmp/w/$ID/repo rev-parse --abbrev-ref HEAD)
echo "--- fix commits on $BR:"
for c in $(git -C /repo cherry main $BR | grep '^+' | cut -d' ' -f2); do
  git -C /repo log -1 --format='%h %s' $c
  git -C /repo cherry-pick $c >/dev/null || { echo "CHERRY-PICK CONFLICT $c"; exit 1; }
  NEW=$(git -C /repo log -1 --format=%h)
  echo "   -> $NEW"
  OLD=$(git -C /repo log -1 --format=%h $c)
  for f in known_findings_$ID.json docs/$ID.md; do [ -f $f ] && sed -i "s/$OLD[0-9a-f]*/$NEW/g" $f; done
done
if [ -f known_findings_$ID.json ]; then
python3 - <<PY
import json
k=json.load(open('known_findings.json')); n=json.load(open('known_findings_$ID.json'))
have={json.dumps(x,sort_keys=True) for x in k}
for x in n:
    if json.dumps(x,sort_keys=True) not in have: k.append(x)
json.dump(k,open('known_findings.json','w'),indent=1)
print('known findings merged:',len(n))
PY
fi

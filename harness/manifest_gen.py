#!/venv/bin/python
"""Regenerate MANIFEST.json from the property modules (harness/props/cXX.py)."""
import sys, os, json, importlib
sys.path.insert(0, os.path.dirname(os.path.dirname(os.path.abspath(__file__))))
from harness import core

PY = '/venv/bin/python'
props = [json.loads(l) for l in open(core.VERIF / 'properties.jsonl')]
checks, na = [], []
pending = json.loads((core.VERIF / 'harness' / 'not_applicable.json').read_text())
for p in props:
    pid = p['id']
    f = core.VERIF / 'harness' / 'props' / (pid.lower() + '.py')
    if not f.exists() or pid in pending:
        na.append({'property_id': pid, 'reason': pending.get(pid, 'check not built yet (model and theorems planned in DESIGN.md §5/§7)')})
        continue
    mod = importlib.import_module('harness.props.' + pid.lower())
    checks.append({
        'property_id': pid,
        'quick_cmd': '%s harness/check.py %s --tier quick' % (PY, pid),
        'thorough_cmd': '%s harness/check.py %s --tier thorough' % (PY, pid),
        'evidence_file': 'evidence/%s.json' % pid,
        'replay_cmd_template': '%s harness/check.py %s --replay {path}' % (PY, pid),
        'engine': 'lean4-model-proof',
        'level_claimed': {'category': 'proof', 'text': mod.LEVEL_TEXT, 'design_ref': 'DESIGN.md §5 ' + pid},
        'level_note': mod.LEVEL_NOTE,
        'technique': getattr(mod, 'TECHNIQUE', 'Lean 4 theorems over a hand-written executable model, tied to /repo by an I/O correspondence check'),
    })
m = {
    'version': 1,
    'setup_cmd': 'cd lean && lake build',
    'hooks': {'guard': 'PYDL_VERIF', 'enable': 'checks set PYDL_VERIF=1 and import pydl from /repo in-process; no hook code exists in /repo',
              'baseline_off_cmd': 'cd /repo && env -u PYDL_VERIF /venv/bin/python -m pytest -ra -q -p no:cacheprovider --timeout=900 --continue-on-collection-errors',
              'source_commits': [], 'add_only': True},
    'engines': [{'name': 'lean4-model-proof', 'path': 'lean/',
                 'serves_properties': [c['property_id'] for c in checks],
                 'kind_free_text': 'Lean 4.33 lake project: executable models (Model/), property theorems (Props/), compiled line-protocol driver (Main.lean); Python harness (harness/) runs pydl in-process, diffs it against the model, runs independent property oracles and the failing-input search'}],
    'checks': checks,
    'not_applicable': na,
    'notes': 'See DESIGN.md. Exit codes: 0 held, 1 VIOLATION, 2 check could not run. known_findings.json lists recorded findings and fixed defects.',
}
(core.VERIF / 'MANIFEST.json').write_text(json.dumps(m, indent=1) + '\n')
print('claimed:', [c['property_id'] for c in checks])
print('not claimed:', [n['property_id'] for n in na])

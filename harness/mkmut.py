#!/usr/bin/env python3
"""mkmut.py Cxx : scratch worktree /tmp/m/Cxx of /repo + task file /tmp/m/Cxx-task.md for an independent bug-seeding agent
(it gets only the property text and the worktree, nothing from /verif)."""
import sys, json, subprocess, os
pid = sys.argv[1]
rnd = int(sys.argv[2]) if len(sys.argv) > 2 else 1
base = 3 * (rnd - 1)
p = [json.loads(l) for l in open('/verif/properties.jsonl') if json.loads(l)['id'] == pid][0]
os.makedirs('/tmp/m', exist_ok=True)
wt = '/tmp/m/%s' % pid
if not os.path.exists(wt):
    subprocess.run(['git', '-C', '/repo', 'worktree', 'add', '-q', '-B', 'mut-' + pid, wt, 'main'], check=True)
known = ''
if rnd > 1:
    import glob
    items = []
    for d in sorted(glob.glob('/verif/seeded/%s-*' % pid)):
        try:
            txt = open(d + '/note.md').read()
        except OSError:
            continue
        items.append('- ' + ' '.join(txt.split())[:420])
    known = ('\nChanges of this kind have ALREADY been produced by others - do not repeat them or close variants; pick other code sites, other '
             'clauses of the property, other mechanisms (state kept between calls, dtype/shape conventions, rarely taken branches, option '
             'combinations, boundary values, error paths, interaction of two functions' + (
             '; in this round prefer: helper functions and other modules of the package that the anchored code calls, default argument '
             'values and keyword/positional conventions, the type / dtype / shape of what is returned, exception types on refused input, '
             'in-place modification of arguments, results that depend on an earlier call, behaviour for empty / length-1 / scalar inputs, '
             'very large or very small magnitudes' if rnd in (3, 4) else '') + (
             '; in this round prefer plain logic slips inside the anchored functions themselves that matter only for particular '
             'parameter values: orders / widths / counts at their extremes (1, 2, the maximum), off-by-one at the first or last '
             'element, the wrong variable in one of several symmetric branches, sign and unit conventions, a rarely used but documented '
             'keyword option, inputs that are already sorted / reversed / all equal, exactly representable boundary values' if rnd in (5, 6) else '') + (
             '; in this round prefer changes that need a SEQUENCE or a COMBINATION to manifest: two code sites that each look fine alone '
             '(e.g. a producer that changes a convention and a consumer that is only right for the old one on some inputs), a multi-step '
             'sequence of calls on the same object or file, an error / early-return path taken at one particular step that leaves state '
             'behind, an option that is only wrong together with another option or with one input shape / dtype / ordering, a helper in '
             'another module whose rarely used branch the anchored code reaches only for special inputs, a numeric tolerance or epsilon '
             'that only matters at one scale' if rnd >= 7 else '') + '):\n' + '\n'.join(items) + '\n')
mech = '\n'.join('- %s (%s)' % (m['name'], m['where']) for m in p['anchors'].get('mechanism', []))
task = f"""You are helping to evaluate a verification tool by writing realistic BUGS. You get one semantic property of the Python
library weaverba137/pydl (Python ports of IDL astronomy routines) and a private git worktree of the library at {wt}
(a checkout of the repository; the package is the `pydl/` directory; run Python with `/venv/bin/python`, and make it import
this worktree with `PYTHONPATH={wt}`). Do not look at or use anything under /verif or /tmp/w, and do not touch /repo.
Every shell command prints a conda WARNING line first; ignore it.

The property (id {pid}, "{p['title']}"):
"{p['statement']}"
Quantified: {p['quantifier']['text']}
Relevant code:
{mech}
Files: {', '.join(p['anchors']['files'])}
{known}
Task: produce THREE different, independent changes to the library source (each a small realistic patch such as a developer
could plausibly commit: a refactor gone slightly wrong, an off-by-one, a wrong boundary or comparison in one path only, an
"optimisation", a mishandled option or calling convention, two sites that each look fine alone) such that for EACH change:
 1. the library still imports and the existing test-suite still passes completely:
    `cd {wt} && /venv/bin/python -m pytest -q -p no:cacheprovider --timeout=900 pydl` (133 passed - check it);
 2. the property above is violated;
 3. the violation needs something specific to manifest - an unusual but in-domain input, a particular combination of
    options, one calling convention, a boundary value, a multi-step sequence of operations, a failure at a particular point,
    two cooperating code sites - NOT something any ordinary call would expose at once. Make the three changes different in
    kind and in the code site they touch, and make at least one of them subtle (manifesting on well under 1 % of random
    in-domain inputs, or only for one specific configuration).
For each change write a demonstration: a small standalone Python program `demo.py` that exits 0 on the unchanged library
and exits 1 (printing what went wrong) with the change applied, when run as `PYTHONPATH=<tree> /venv/bin/python demo.py`
(the demo may create temporary files with `tempfile`; it must not need the network).

Deliver under /tmp/m/{pid}-out/{base+1}, /tmp/m/{pid}-out/{base+2}, /tmp/m/{pid}-out/{base+3} each: `patch.diff` (output of `git diff` in the
worktree, applicable with `git apply` to a clean checkout), `demo.py`, and `note.md` (what the change is, why the tests do
not notice, what is needed for it to manifest). Work on one change at a time and restore the worktree
(`git -C {wt} checkout -- .`) before starting the next and at the end. Verify for each patch yourself: clean tree -> demo
exits 0; patched tree -> full test-suite passes AND demo exits 1. In your final answer list the three changes in one line each.
"""
open('/tmp/m/%s-task.md' % pid, 'w').write(task)
print('/tmp/m/%s-task.md' % pid)

#!/usr/bin/env python3
"""mkrefactor.py Cxx : scratch worktree /tmp/r/Cxx + task file for an independent agent that writes HARMLESS refactors
(behaviour-preserving rewrites of the code a property is anchored in) - used to measure false alarms of the checks."""
import sys, json, subprocess, os
pid = sys.argv[1]
rnd = int(sys.argv[2]) if len(sys.argv) > 2 else 1
base = 3 * (rnd - 1)
p = [json.loads(l) for l in open('/verif/properties.jsonl') if json.loads(l)['id'] == pid][0]
os.makedirs('/tmp/r', exist_ok=True)
wt = '/tmp/r/%s' % pid
if not os.path.exists(wt):
    subprocess.run(['git', '-C', '/repo', 'worktree', 'add', '-q', '-B', 'ref-' + pid, wt, 'main'], check=True)
known = ''
if rnd > 1:
    import glob
    items = []
    for d in sorted(glob.glob('/verif/refactors/%s-*' % pid)):
        try:
            items.append('- ' + ' '.join(open(d + '/note.md').read().split())[:300])
        except OSError:
            pass
    known = ('Refactors of this kind ALREADY exist - do something else (other functions of the anchored code and the helpers they call, '
             'other styles: numpy idiom changes, dataclass/namedtuple for tuples, early returns, caching of pure values computed once per call, '
             'splitting a long function, replacing loops by comprehensions, pathlib/os.path, f-strings, context managers, keyword-only '
             'arguments with the same defaults, type hints, logging, defensive copies of inputs):\n' + '\n'.join(items) + '\n')
mech = '\n'.join('- %s (%s)' % (m['name'], m['where']) for m in p['anchors'].get('mechanism', []))
task = f"""You are helping to evaluate a verification tool. You get one semantic property of the Python library weaverba137/pydl
(Python ports of IDL astronomy routines) and a private git worktree of the library at {wt} (the package is the `pydl/`
directory; run Python with `/venv/bin/python`, import this worktree with `PYTHONPATH={wt}`). Do not look at or use anything
under /verif or /tmp/w, do not touch /repo, do not use `git stash`. Every shell command prints a conda WARNING line first; ignore it.

The property (id {pid}, "{p['title']}"):
"{p['statement']}"
Relevant code:
{mech}
Files: {', '.join(p['anchors']['files'])}

Task: produce THREE different, independent, HARMLESS changes to that code - realistic refactors / clean-ups / performance
rewrites / renamings / restructurings that a maintainer could commit and that do NOT change observable behaviour: for every
input (including error cases and edge cases: empty inputs, scalars vs arrays, dtypes, option combinations) the public functions
return the same values (bit for bit for floating point results; same exception types for refused inputs; same effects on
files / environment). Make them substantial enough to be interesting (e.g. rewrite a loop as vectorised numpy with the same
summation order, restructure branches, extract helper functions, replace a regular expression by an equivalent one, reorder
independent statements, rename locals, change comments/docstrings), each touching a different part of the anchored code.
For each change write `check.py`, a standalone differential test that imports the ORIGINAL implementation from a pristine copy
of the package (make one with `git -C {wt} archive HEAD | tar -x -C <tmpdir>` BEFORE you edit, and import it under another
name via importlib / sys.path manipulation, or run both in subprocesses) and the changed one, runs both on at least a few
thousand generated inputs incl. edge cases, and exits 0 iff all outputs are identical.
{known}Deliver under /tmp/r/{pid}-out/{base+1}, /{base+2}, /{base+3} each: `patch.diff` (`git diff` in the worktree, applicable with `git apply` to a clean
checkout), `check.py`, `note.md` (what the refactor is and why it is behaviour-preserving). Work on one change at a time and
restore the worktree (`git -C {wt} checkout -- .`) before the next and at the end. Verify for each: full test-suite passes
(`cd {wt} && /venv/bin/python -m pytest -q -p no:cacheprovider --timeout=900 pydl`, 133 passed) and your differential test
exits 0. In your final answer list the three changes in one line each.
"""
open('/tmp/r/%s-task.md' % pid, 'w').write(task)
print('/tmp/r/%s-task.md' % pid)

#!/bin/sh
# mkwork.sh C07 : private workspace for building one property (copy of /verif + git worktree of /repo)
set -e
ID=$1
W=/tmp/w/$ID
mkdir -p /tmp/w
rm -rf $W/verif
[ -d $W/repo ] || git -C /repo worktree add -q -b work-$ID-$(date +%s) $W/repo HEAD
mkdir -p $W
cp -r /verif $W/verif
rm -rf $W/verif/.git
git -C /verif rev-parse HEAD > $W/BASE
echo $W

"""C01 - yanny: tables and header pairs written to a file read back unchanged (DESIGN §5 C01).

Streams
  doc-a   (property oracle) real write_ndarray_to_yanny / Table.write, then the returned object
          and a fresh yanny(file) / Table.read are compared with the document, cell by cell,
          floats by bit pattern in the declared width;
  doc-b   the Lean model's parseFile on the text pydl wrote = the document; symbols too;
  doc-c   real yanny() on the text the Lean model rendered = the document;
  doc-m   theorem instance: parseFile(renderFile d) = canon d inside the model when docOK d;
  tok     get_token / protect / trailing_comment / double-brace substitution / strip against the
          model on generated strings incl. malformed ones;
  ints    str(np.int64) / int() against fmtInt / parseInt;
  struct  dtype_to_struct against the model incl. unsupported scalar types (refused, no file);
  h1h2    the float hypotheses of the theorems, sampled (special values, random bit patterns,
          directed float32 double-rounding search);
  ood     excluded text classes, recorded, not judged;
  d4      the known rewriting classes ({{}}-like pattern, typedef text), judged -> known finding.
"""
import os
import re
import json
import math
import struct
import itertools
from fractions import Fraction
import numpy as np
from harness import core

ID = 'C01'
LEAN_MODULES = ['PydlVerif.Props.C01']
P = 'PydlVerif.C01.'
THEOREMS = [P + t for t in (
    'int_roundtrip', 'getToken_protect', 'getToken_protect_last', 'trailingComment_row',
    'doubleBraces_row', 'parseRow_fmtRow', 'getToken_rowLine', 'unsupported_refused',
    'unsupported_not_rendered', 'lineStep_row', 'lineStep_pair', 'parse_render_partial',
    'front_render', 'typing_render', 'loop_render', 'finish_render', 'parse_render', 'parse_render_bind',
    'docOK_select')]
RULE = ('documents: 0-4 tables x 0-6 rows x 1-8 columns of i2/i4/i8/f4/f8/S<n>/U<n>, 1-D arrays of those, enum '
        'columns; cells biased to empty/blank/tab/#/;/brace/backslash/control characters, extreme integers, '
        'special and random-bit floats; header dictionaries; comment modes; record-array and astropy-Table entry '
        'points. A case is non-trivial when it has at least one table or header pair; distinct = distinct payloads. '
        'Token stream: strings over a 24-character alphabet incl. quotes, braces, blanks, newlines.')
TRUSTED = ['hand-written model lean/PydlVerif/Model/Yanny{Tok,Row,File,Dom}.lean tied to the code by the correspondence of this run',
           'numpy str(float32/float64), Python float()/int(), the f64->f32 cast (hypotheses h1, h2; sampled by stream h1h2)',
           'astropy Table <-> record array conversion, the io registry, file-system text encoding',
           'Python re: the scanners of the model are hand-written equivalents of the regular expressions']
ASSUMPTIONS = [
    'struct, column and enum-type names are ASCII identifiers; table names are distinct ignoring case (they may contain one '
    'another and equal column, enum-type or C type names: the D16/D17 patterns are generated since the fix be380b6)',
    'header values are compared in their text form after str.strip(); a header line, like a data line, must not end in a backslash '
    '(the format\'s continuation mark)',
    'cells are ASCII without NUL, newline and carriage return (open(...) reads with universal newlines)',
    'enum cells are labels of the declared enum; an enum column reads back as S<longest label>; a U<n> column as S<4n>',
    'NaN is compared as NaN (payload and sign of a NaN are not carried by the text "nan")',
    'known finding (D4): a line containing a {ws{ws}ws} pattern or a text matching the typedef regular expression is rewritten by the reader',
]
LEVEL_TEXT = ('Lean 4 theorems over an executable model of the yanny writer and reader: the whole-file round trip parse_render '
              '(docOK d -> parseFile (renderFile d) = canon d: several tables, zero-row tables, header pairs, enums, comment block; '
              'floats by hypothesis h1/h2) with its four pieces front_render (continuation joining, typedef extraction, symbol table), '
              'typing_render (type/basetype/isarray/array_length/char_length/isenum on the written typedef text), loop_render (the line '
              'loop over the whole rest text) and finish_render (record arrays); below it the integer and token round trips, stability of '
              'a written row under trailing-comment stripping and the double-brace substitution, the row round trip, the line-loop steps '
              '(lineStep_row, lineStep_pair, parse_render_partial from any state) and the refusal of unsupported scalar types. The model is '
              'tied to the code on every run by semantic correspondence in both directions (pydl text -> model reader, model text -> pydl '
              'reader), token-level differential testing and an independent cell-by-cell oracle.')
LEVEL_NOTE = ('The file theorem is about the model (hand-written scanners for the regular expressions, tied by correspondence) and holds on '
              'the decidable domain docOK; its conjunct selectOK is proved redundant (docOK_select), its conjuncts dbFree / noTypedef per line '
              'are the D4 exclusion (known finding: line-wide {{}} rewriting, typedef text in cells). Floats by hypothesis (h1, h2), sampled. '
              'The astropy-Table entry points are compared, not modelled.')

SUPPORTED = ['i2', 'i4', 'i8', 'f4', 'f8']
UNSUPPORTED = ['u2', 'u4', 'u8', 'i1', 'u1', 'b1', 'f2', 'c8', 'c16']
IRANGE = {'i2': 15, 'i4': 31, 'i8': 63}
DB_RE = re.compile(r'\{\s*\{\s*\}\s*\}')
TD_RE = re.compile(r'typedef\s+(struct|enum)\s*\{[^}]+\}\s*\w+\s*;')
KEYWORDS = ['typedef', 'struct', 'enum', 'char', 'short', 'int', 'long', 'float', 'double']


# ---------------------------------------------------------------- known findings of this property
_orig_load_known = core.load_known


def _load_known():
    out = list(_orig_load_known())
    f = core.VERIF / 'known_findings_C01.json'
    if f.exists():
        for k in json.loads(f.read_text()):
            if k not in out:
                out.append(k)
    return out


core.load_known = _load_known


def dec(x):
    """strings with non-ASCII characters come back from the driver as {"u": [code points]}"""
    if isinstance(x, dict):
        if len(x) == 1 and 'u' in x and isinstance(x['u'], list):
            return ''.join(chr(c) for c in x['u'])
        return {k: dec(v) for k, v in x.items()}
    if isinstance(x, list):
        return [dec(v) for v in x]
    return x


def drv(lines, parallel=False, **kw):
    return dec(core.driver_parallel(lines, **kw) if parallel else core.driver(lines))


# ---------------------------------------------------------------- floats
def f32bits(x):
    return int(np.array([x], dtype=np.float32).view(np.uint32)[0])


def f64bits(x):
    return int(np.array([x], dtype=np.float64).view(np.uint64)[0])


def ftext(v):
    """the text the writer prints for a float datum (parameter fmtF of the model): the real protect()"""
    from pydl.pydlutils.yanny import yanny
    return yanny.protect(v)


def fcell(w, x):
    """float cell: width, text the writer prints, bit pattern ('nan' for any NaN)"""
    if w == 4:
        v = np.float32(x)
        return {'w': 4, 't': ftext(v), 'b': 'nan' if np.isnan(v) else f32bits(v)}
    v = np.float64(x)
    return {'w': 8, 't': ftext(v), 'b': 'nan' if np.isnan(v) else f64bits(v)}


def fval(c):
    if c['b'] == 'nan':
        return np.float32('nan') if c['w'] == 4 else np.float64('nan')
    if c['w'] == 4:
        return np.array([c['b']], dtype=np.uint32).view(np.float32)[0]
    return np.array([c['b']], dtype=np.uint64).view(np.float64)[0]


_HAZ = None


def hazard_f32():
    """float32 values whose shortest decimal text does NOT survive float() (binary64) followed by the cast to float32
    (double rounding at a float32 midpoint); found by the continued-fraction search, cached per process"""
    global _HAZ
    if _HAZ is None:
        out = {}
        for q in range(-54, 31):
            for e in _exps_for(q):
                alpha = Fraction(10) ** q / Fraction(2) ** (e - 1)
                for p, k in _convergents(alpha, 10**9):
                    for mult in range(1, 4):
                        mm, pp = k * mult, p * mult
                        if not (10**7 <= mm < 10**9) or pp % 2 == 0 or not (2**24 < pp < 2**25):
                            continue
                        for x in _f32_neighbours(Fraction(pp) * Fraction(2) ** (e - 1)):
                            if np.isfinite(x) and f32bits(np.float32(float(str(x)))) != f32bits(x):
                                out[f32bits(x)] = x
        _HAZ = [out[b] for b in sorted(out)] or [np.array([0x15ae43fd], dtype=np.uint32).view(np.float32)[0]]
    return _HAZ


def gen_float(rng, w):
    k = rng.randrange(10)
    if w == 4 and k == 9 and rng.random() < 0.5:
        x = rng.choice(hazard_f32())
        return x if rng.random() < 0.5 else -x
    if w == 4:
        if k == 0:
            return rng.choice([0.0, -0.0, np.inf, -np.inf, np.nan, 1e-45, -1e-45, 3.4028235e38, -3.4028235e38,
                               1.17549435e-38, 1.1754942e-38, 1.0, -1.0, 0.1, 16777216.0, 1e10, 1e-10])
        if k <= 6:
            return np.array([rng.getrandbits(32)], dtype=np.uint32).view(np.float32)[0]
        if k == 7:
            return np.array([rng.getrandbits(23) | (rng.getrandbits(1) << 31)], dtype=np.uint32).view(np.float32)[0]
        return np.float32(rng.choice([rng.randrange(-10**6, 10**6), rng.uniform(-1e3, 1e3), rng.randrange(-999, 999) / 100.0]))
    if k == 0:
        return rng.choice([0.0, -0.0, np.inf, -np.inf, np.nan, 5e-324, -5e-324, 1.7976931348623157e308,
                           -1.7976931348623157e308, 2.2250738585072014e-308, 2.225073858507201e-308, 1.0, 0.1, 1e22, 1e23, 1e16, 123456789012345678.0])
    if k <= 6:
        return np.array([rng.getrandbits(64)], dtype=np.uint64).view(np.float64)[0]
    if k == 7:
        return np.array([rng.getrandbits(52) | (rng.getrandbits(1) << 63)], dtype=np.uint64).view(np.float64)[0]
    return np.float64(rng.choice([rng.randrange(-10**9, 10**9), rng.uniform(-1e3, 1e3), rng.randrange(-99999, 99999) / 1000.0]))


def gen_int(rng, t):
    b = IRANGE[t]
    k = rng.randrange(8)
    if k == 0:
        return rng.choice([-2**b, 2**b - 1, -2**b + 1, 2**b - 2, 0, -1, 1])
    if k <= 3:
        return rng.randrange(-2**b, 2**b)
    if k == 4:
        return rng.choice([1, -1]) * 10**rng.randrange(0, len(str(2**b)) - 1)
    return rng.randrange(-1000, 1000)


# ---------------------------------------------------------------- strings
SPECIAL = [' ', ' ', '\t', '#', ';', '{', '}', '\\', "'", ',', '-', '.', '\x0b', '\x0c', '\x1c', '\x7f', '\x01', '[', ']', '<', '>', '$', '=']
PLAIN = 'abcxyzABCXYZ0189_'


def gen_chars(rng, n, allow, lead_brace=False, flavour=None):
    flavour = flavour if flavour is not None else rng.randrange(5)
    out = []
    for i in range(n):
        if flavour == 0:
            c = rng.choice(PLAIN)
        elif flavour == 1:
            c = rng.choice(SPECIAL)
        elif flavour == 2:
            c = rng.choice(PLAIN + ' ')
        elif flavour == 3:
            c = rng.choice(SPECIAL + list(PLAIN))
        else:
            c = chr(rng.randrange(1, 128))
        if not allow(c) or (i == 0 and c == '{' and not lead_brace):
            c = rng.choice(PLAIN)
        out.append(c)
    return ''.join(out)


def cell_char_ok(c):
    return ord(c) < 128 and c not in '\n\r\x00"'


def gen_str(rng, n, arr):
    """in-domain string cell of at most n characters"""
    k = rng.randrange(12)
    ln = 0 if k == 0 else (n if k == 1 else rng.randrange(0, n + 1))
    if k == 2:
        s = (' ' * n)[:rng.randrange(1, n + 1)]
    elif k == 3:
        s = rng.choice(['#', ' #', '# ', '\t', ' \t', ';', 'a b', 'a{b}', '}', '}}', 'a{', "'", '\\', 'a\\', '{'[:0] + 'x{y', '-1', '1e5', 'nan'])[:n]
    else:
        s = gen_chars(rng, ln, lambda c: cell_char_ok(c) and not (arr and c == '}'))
    if arr:
        s = s.replace('}', 'j')
    if s.startswith('{'):
        s = 'q' + s[1:]
    return s


def gen_ident(rng, used, maxlen=6, pool=None, ok=None):
    for _ in range(2000):
        k = rng.randrange(10)
        if pool and k < 3:
            s = rng.choice(pool)
        elif k < 5:
            s = rng.choice('abcdeABCDE_') + ''.join(rng.choice('abAB01_') for _ in range(rng.randrange(0, 3)))
        else:
            s = rng.choice('abcdefghijklmnopqrstuvwxyzABCDEFGHIJKLMNOPQRSTUVWXYZ_') + \
                ''.join(rng.choice('abcdefghijklmnopqrstuvwxyzABCDEFGHIJKLMNOPQRSTUVWXYZ0123456789_') for _ in range(rng.randrange(0, maxlen)))
        if s not in used and (ok is None or ok(s)):
            return s
    raise RuntimeError('identifier pool exhausted')


# ---------------------------------------------------------------- documents
def gen_doc(rng, ntab=None, table_entry=False, zero_array=True):
    ntab = ntab if ntab is not None else rng.choice([0, 1, 1, 1, 2, 2, 3, 4])
    if table_entry:
        ntab = 1
    # enums first: column name -> (type name, labels)
    enums = []
    if not table_entry and rng.random() < 0.5:
        used_c, used_t = set(), set()
        for _ in range(rng.randrange(1, 4)):
            col = gen_ident(rng, used_c, pool=['flag', 'state', 'e'])
            used_c.add(col)
            # (type names that contain the name of a C type in lower case are ordinary identifiers: charge, sub_chart, interval)
            ty = gen_ident(rng, {t for t in used_t}, pool=['BOOLEAN', 'status', 'Mode', 'charge', 'sub_chart', 'interval', 'shortlist'])
            if ty.upper() in {t.upper() for t in used_t}:
                continue
            used_t.add(ty)
            labs = []
            for _ in range(rng.randrange(1, 5)):
                labs.append(gen_ident(rng, set(labs), maxlen=7, pool=['TRUE', 'FALSE', 'ON', 'OFF', 'x', '0', '12']) if rng.random() < 0.9
                            else rng.choice(['0', '1', '007', '_']))
            labs = list(dict.fromkeys(labs))
            enums.append([col, ty, labs])
    enum_cols = {e[0]: e for e in enums}
    tables = []
    tnames = []
    for ti in range(ntab):
        # table names are distinct ignoring case - nothing else: they may contain one another, equal a column name, an enum
        # type name or a C type word (the D16/D17 clash patterns; type() selects by the trailing '} NAME;' since be380b6)
        def tn_ok(tn):
            return tn.upper() not in {o.upper() for o in tnames}
        clash = []
        for o in tnames:
            clash += [o + 'x', 'a' + o, o + o, o[:max(1, len(o) - 1)], o[1:] or 'b']
        clash += [c[0] for t in tables for c in t['cols']] + [e[1] for e in enums] + [e[0] for e in enums] + ['int', 'char', 'struct']
        clash = [c for c in clash if re.fullmatch(r'[A-Za-z_][A-Za-z0-9_]*', c)]
        tn = gen_ident(rng, set(), maxlen=8, pool=['mystruct', 'T0', 'Tab', 'OBS'] + clash + clash, ok=tn_ok)
        if rng.random() < 0.15:
            dg = rng.choice('0123456789')
            if tn_ok(dg + tn):
                tn = dg + tn
        ncol = rng.choice([1, 1, 2, 3, 4, 5, 6, 7, 8])
        cols, used = [], set()
        for ci in range(ncol):
            pool = ['a', 'aa', 'ba', 'A', 'x', 'int', 'char', 'v', 'name'] + list(enum_cols)
            pool += [w for w in [tn, tn.lower(), tn.upper(), tn + 'a', 'x' + tn] + tnames + [o.lower() for o in tnames]
                     if re.fullmatch(r'[A-Za-z_][A-Za-z0-9_]*', w)]
            name = gen_ident(rng, used, pool=pool)
            used.add(name)
            k = rng.randrange(10)
            if name in enum_cols or k < 3:
                ty = rng.choice(['S', 'S', 'S', 'U']) + str(rng.choice([1, 1, 2, 3, 5, 8, 20]))
                if name in enum_cols and rng.random() < 0.85:
                    ty = 'S' + str(max(len(l) for l in enum_cols[name][2]) + rng.randrange(0, 3))
                elif name in enum_cols:
                    ty = rng.choice(SUPPORTED)
            else:
                ty = rng.choice(SUPPORTED)
            alen = rng.choice([0, 0, 0, 1, 2, 3, 5]) if rng.random() < 0.45 else 0
            cols.append([name, ty, alen])
        nrow = rng.choice([0, 0, 1, 1, 2, 3, 4, 5, 6])
        if not zero_array and nrow == 0 and any(c[2] for c in cols):
            nrow = 1
        rows = []
        for _ in range(nrow):
            row = []
            for ci, (name, ty, alen) in enumerate(cols):
                def one(arr):
                    if ty in IRANGE:
                        return gen_int(rng, ty)
                    if ty in ('f4', 'f8'):
                        return fcell(int(ty[1]), gen_float(rng, int(ty[1])))
                    n = int(ty[1:])
                    if name in enum_cols:
                        labs = [l for l in enum_cols[name][2] if len(l) <= n]
                        return rng.choice(labs) if labs else gen_str(rng, 0, arr)
                    return gen_str(rng, n, arr)
                if alen:
                    row.append([one(True) for _ in range(alen)])
                else:
                    v = one(False)
                    if ci == len(cols) - 1 and isinstance(v, str) and v.endswith('\\') and not _needs_quote(v):
                        v = v[:-1] + '/'
                    row.append(v)
            rows.append(row)
        tnames.append(tn)
        tables.append({'name': tn, 'cols': cols, 'rows': rows})
    # header
    hdr = []
    hdrwrap = {}
    if rng.random() < 0.6:
        usedk = set()
        for _ in range(rng.randrange(1, 5)):
            k = rng.randrange(4)
            if k == 0:
                key = gen_ident(rng, usedk, pool=['mjd', 'name', 'keyword1', 'comments', 'comment', 'symbols_of', 'filename', 'enum', 'struct', 'typedef_', 'char'])
            else:
                key = gen_chars(rng, rng.randrange(1, 8), lambda c: 33 <= ord(c) <= 126 and c != '#', flavour=rng.choice([0, 3, 4]))
                if key[0] in '"{':
                    key = 'k' + key[1:]
                if key.endswith('\\'):
                    key = key[:-1] + 'k'
            if key in usedk or key.upper() in {t.upper() for t in tnames}:
                continue
            usedk.add(key)
            k = rng.randrange(8)
            if k == 0:
                val = rng.randrange(-10**6, 10**6)
            elif k == 1:
                val = rng.choice([1.5, -2.25e-7, 1e300, float(rng.randrange(100))])
            elif k == 2:
                val = rng.choice(['', ' ', '  lead', 'trail  ', ' both ', 'say "hi" there', 'a  b', '{x} {y}', 'semi;colon', "it's", 'True', 'False'])
            else:
                val = gen_chars(rng, rng.randrange(0, 16), lambda c: ord(c) < 128 and c not in '\n\r\x00#', lead_brace=True)
            if isinstance(val, str) and val.rstrip().endswith('\\'):
                val = val.rstrip()[:-1] + '/'
            hdr.append([key, val])
            # the same value handed over in another container with the same text form (a number taken out of a numpy
            # array, a numpy string, a bool): "every header value equal to the text form of what was supplied"
            if rng.random() < 0.35:
                w = hdr_wrap_choice(rng, val)
                if w:
                    hdrwrap[key] = w
    # comments: mode and the block as it will appear in the file
    mode = rng.choice(['none', 'str', 'str#', 'list']) if not table_entry else 'table'
    if mode == 'none':
        carg, block = None, '#\n# file.par\n#\n# Created by pydl.pydlutils.yanny.yanny\n#\n# 2026-01-01 00:00:00 UTC\n#\n'
    elif mode == 'table':
        carg, block = 'Table', '# Table\n'
    elif mode == 'list':
        carg = [gen_chars(rng, rng.randrange(0, 12), lambda c: 32 <= ord(c) <= 126 and c != '\\', lead_brace=True) for _ in range(rng.randrange(0, 3))]
        block = '\n'.join('# ' + c for c in carg) + '\n'
    else:
        s = gen_chars(rng, rng.randrange(0, 12), lambda c: 32 <= ord(c) <= 126 and c != '\\', lead_brace=True)
        carg = ('#' + s) if mode == 'str#' else s
        block = carg if carg.startswith('#') else '# ' + carg
        block += '\n'
    return {'comments': block, 'carg': carg, 'hdr': hdr, 'hdrwrap': hdrwrap, 'enums': enums, 'tables': tables,
            'entry': 'table' if table_entry else 'ndarray'}


def hdr_wrap_choice(rng, val):
    """a container type for a header value whose '{0}'.format text is the text of the plain value"""
    if isinstance(val, bool):
        return None
    if isinstance(val, int):
        c = [t for t in ('int64', 'int32', 'int16') if np.iinfo(t).min <= val <= np.iinfo(t).max]
        return rng.choice(c) if c else None
    if isinstance(val, float):
        c = ['float64']
        if float(np.float32(val)) == val and '{0}'.format(np.float32(val)) == '{0}'.format(val):
            c.append('float32')
        return rng.choice(c)
    if isinstance(val, str):
        if val == 'True' or val == 'False':
            return rng.choice(['bool', 'bool_'])
        return 'str_'
    return None


def hdr_values(doc):
    """the header dictionary as handed to the writer: plain Python values, or the tagged container of the same text"""
    out = {}
    for k, v in doc['hdr']:
        w = doc.get('hdrwrap', {}).get(k)
        if w in ('int64', 'int32', 'int16', 'float64', 'float32', 'str_'):
            v2 = getattr(np, w)(v)
        elif w == 'bool':
            v2 = (v == 'True')
        elif w == 'bool_':
            v2 = np.bool_(v == 'True')
        else:
            v2 = v
        if w and '{0}'.format(v2) != '{0}'.format(v):      # never change what the document says
            v2 = v
        out[k] = v2
    return out


def _needs_quote(s):
    return len(s) == 0 or '#' in s or re.search(r'\s', s) is not None


def hdr_text(v):
    return '{0}'.format(v)


def doc_lines(doc):
    """the header and data lines the writer will produce (for domain classification)"""
    out = [k + ' ' + hdr_text(v) for k, v in doc['hdr']]
    for t in doc['tables']:
        for r in t['rows']:
            cells = []
            for c in r:
                if isinstance(c, list):
                    cells.append('{' + ' '.join(_protect(x) for x in c) + '}')
                else:
                    cells.append(_protect(c))
            out.append(' '.join([t['name'].upper()] + cells))
    return out


def _protect(c):
    s = c['t'] if isinstance(c, dict) else str(c)
    return '"' + s + '"' if _needs_quote(s) else s


def classify(doc):
    """which rewriting class (finding D4) the document falls into, or None"""
    lines = doc_lines(doc) + doc['comments'].split('\n')
    if any(DB_RE.search(l) for l in lines):
        return 'double-brace'
    if TD_RE.search('\n'.join(lines)):
        return 'typedef-text'
    return None


def in_domain(doc):
    lines = doc_lines(doc) + doc['comments'].split('\n')
    return not any(DB_RE.search(l) or 'typedef' in l for l in lines)


def lean_doc(doc):
    return {'comments': doc['comments'], 'hdr': [[k, hdr_text(v)] for k, v in doc['hdr']],
            'enums': doc['enums'], 'tables': doc['tables']}


# ---------------------------------------------------------------- expectation (independent of pydl and of the model)
def col_type(doc, col):
    name, ty, alen = col
    enum = {e[0]: e for e in doc['enums']}
    if ty[0] in 'SU' and name in enum and doc.get('entry') != 'table':
        ty = 'S%d' % max(len(l) for l in enum[name][2])
    elif ty[0] == 'U':
        ty = 'S%d' % (4 * int(ty[1:]))
    return [name, ty, alen if alen else None]


def expect(doc, text=False):
    def cv(c):
        if isinstance(c, list):
            return [cv(x) for x in c]
        if isinstance(c, dict):
            return {'w': c['w'], 't': c['t']} if text else {'w': c['w'], 'b': c['b']}
        return c
    return {'pairs': [[k, hdr_text(v).strip()] for k, v in doc['hdr']],
            'tables': [{'name': t['name'].upper(), 'cols': [col_type(doc, c) for c in t['cols']],
                        'rows': [[cv(c) for c in r] for r in t['rows']]} for t in doc['tables']]}


def observe_table(rec, name, columns):
    cols = []
    dt = rec.dtype
    for c in columns:
        f = dt[c]
        if f.subdtype is not None:
            base, shape = f.subdtype
            alen = shape[0] if len(shape) == 1 else list(shape)
        else:
            base, alen = f, None
        cols.append([c, base.str[1:], alen])
    rows = []
    for k in range(len(rec)):
        row = []
        for c, (_, ty, alen) in zip(columns, cols):
            v = rec[c][k]

            def one(x):
                if ty[0] == 'S':
                    return bytes(x).decode('latin-1')
                if ty[0] == 'U':
                    return str(x)
                if ty in ('f4', 'f8'):
                    if np.isnan(x):
                        return {'w': int(ty[1]), 'b': 'nan'}
                    return {'w': int(ty[1]), 'b': f32bits(x) if ty == 'f4' else f64bits(x)}
                return int(x)
            row.append([one(x) for x in v] if alen is not None else one(v))
        rows.append(row)
    return {'name': name, 'cols': cols, 'rows': rows}


def observe(par):
    return {'pairs': [[k, par[k]] for k in par.pairs()],
            'tables': [observe_table(par[t], t, par.columns(t)) for t in par.tables()]}


def make_arrays(doc):
    arrs = []
    for t in doc['tables']:
        dt = [(c[0], c[1]) if not c[2] else (c[0], c[1], (c[2],)) for c in t['cols']]
        a = np.zeros(len(t['rows']), dtype=dt)
        for k, r in enumerate(t['rows']):
            for c, v in zip(t['cols'], r):
                def py(x):
                    if isinstance(x, dict):
                        return fval(x)
                    if isinstance(x, str):
                        return x.encode('ascii') if c[1][0] == 'S' else x
                    return x
                a[c[0]][k] = [py(x) for x in v] if isinstance(v, list) else py(v)
        arrs.append(a)
    return arrs


_counter = itertools.count()


def real_roundtrip(ctx, doc):
    """write with the real code, read back twice; returns dict(ret=, reread=, text=) or dict(err=, text=)"""
    from pydl.pydlutils.yanny import yanny, write_ndarray_to_yanny
    fn = os.path.join(ctx.tmpdir(), 'f%d.par' % next(_counter))
    out = {}
    try:
        arrs = make_arrays(doc)
        if doc.get('entry') == 'table':
            from astropy.table import Table
            _register()
            t = doc['tables'][0]
            tab = Table(arrs[0])
            if doc['hdr']:
                tab.meta = hdr_values(doc)
            tab.write(fn, format='yanny', tablename=t['name'])
            out['text'] = open(fn).read()
            back = Table.read(fn, format='yanny', tablename=t['name'])
            out['ret'] = {'pairs': [[k, back.meta[k]] for k in back.meta],
                          'tables': [observe_table(back.as_array(), t['name'].upper(), list(back.colnames))]}
            out['reread'] = observe(yanny(fn))
            out['symbols'] = _symbols(yanny(fn))
        else:
            enums = {e[0]: (e[1], e[2]) for e in doc['enums']} if doc['enums'] else None
            hdr = hdr_values(doc) if doc['hdr'] else None
            if len(arrs) == 1 and bare_single(doc):
                par = write_ndarray_to_yanny(fn, arrs[0], structnames=doc['tables'][0]['name'],
                                             enums=enums, hdr=hdr, comments=doc['carg'])
            else:
                par = write_ndarray_to_yanny(fn, arrs, structnames=[t['name'] for t in doc['tables']],
                                             enums=enums, hdr=hdr, comments=doc['carg'])
            out['text'] = par._contents
            out['ret'] = observe(par)
            out['symbols'] = _symbols(par)
            if open(fn).read() != par._contents:
                out['err'] = 'file-differs-from-contents'
            out['reread'] = observe(yanny(fn))
    except Exception as e:
        out['err'] = core.exc_kind(e)
        out['msg'] = str(e)[:200]
        if 'text' not in out and os.path.exists(fn):
            out['text'] = open(fn).read()
    finally:
        if os.path.exists(fn):
            os.remove(fn)
    return out


def bare_single(doc):
    """a single table is handed over as the bare array and a str name (True) or as one-element lists (False)"""
    return len(doc['tables'][0]['name']) % 2 == 0


def _symbols(par):
    return {'structs': list(par._symbols['struct']), 'enums': list(par._symbols['enum']),
            'symbols': [[t, list(par.columns(t))] for t in par.tables()]}


_registered = False


def _register():
    global _registered
    if _registered:
        return
    from astropy.table import Table
    from astropy.io.registry import register_identifier, register_reader, register_writer
    from pydl.pydlutils.yanny import is_yanny, read_table_yanny, write_table_yanny
    register_identifier('yanny', Table, is_yanny, force=True)
    register_reader('yanny', Table, read_table_yanny, force=True)
    register_writer('yanny', Table, write_table_yanny, force=True)
    _registered = True


def real_read(ctx, text):
    from pydl.pydlutils.yanny import yanny
    fn = os.path.join(ctx.tmpdir(), 'm%d.par' % next(_counter))
    try:
        with open(fn, 'w') as f:
            f.write(text)
        return {'ok': observe(yanny(fn))}
    except Exception as e:
        return {'err': core.exc_kind(e), 'msg': str(e)[:200]}
    finally:
        if os.path.exists(fn):
            os.remove(fn)


def first_diff(a, b, path=''):
    if type(a) != type(b):
        return '%s: %r vs %r' % (path, a, b)
    if isinstance(a, dict):
        for k in sorted(set(a) | set(b)):
            if k not in a or k not in b:
                return '%s.%s missing' % (path, k)
            d = first_diff(a[k], b[k], path + '.' + k)
            if d:
                return d
        return None
    if isinstance(a, list):
        if len(a) != len(b):
            return '%s: length %d vs %d' % (path, len(a), len(b))
        for i, (x, y) in enumerate(zip(a, b)):
            d = first_diff(x, y, '%s[%d]' % (path, i))
            if d:
                return d
        return None
    return None if a == b else '%s: %r vs %r' % (path, a, b)


def judge(doc, res):
    """property oracle on one real round trip: None if the property holds, else (signature, what)"""
    want = expect(doc)
    if 'err' in res:
        zero_arr = any(not t['rows'] and any(c[2] for c in t['cols']) for t in doc['tables'])
        cls = classify(doc)
        if cls:
            return ('D4:' + cls + ':exception', 'reader failed with %s on a %s text: %s' % (res['err'], cls, res.get('msg')))
        if zero_arr and res['err'] == 'ValueError' and 'broadcast' in res.get('msg', ''):
            return ('roundtrip:zero-row-array-column:ValueError', 'zero-row table with an array column: %s' % res.get('msg'))
        return ('roundtrip:exception:' + res['err'], 'write/read raised %s: %s' % (res['err'], res.get('msg')))
    for which in ('ret', 'reread'):
        d = first_diff(want, res[which])
        if d:
            cls = classify(doc)
            if cls:
                return ('D4:' + cls, '%s text rewritten by the reader (%s): %s' % (cls, which, d))
            part = 'pairs' if d.startswith('.pairs') else ('cols' if '.cols' in d else ('rows' if '.rows' in d else 'tables'))
            return ('roundtrip:mismatch:' + part, 'read back differs from what was written (%s): %s' % (which, d))
    return None


# ---------------------------------------------------------------- shrinking
def shrink_doc(ctx, doc, sig):
    def fails(d):
        r = judge(d, real_roundtrip(ctx, d))
        return r is not None and r[0] == sig

    def with_tables(ts):
        return dict(doc, tables=ts)
    try:
        doc = dict(doc, tables=core.shrink_list(doc['tables'], lambda ts: fails(dict(doc, tables=ts))))
        doc = dict(doc, hdr=core.shrink_list(doc['hdr'], lambda h: fails(dict(doc, hdr=h))))
        doc = dict(doc, enums=core.shrink_list(doc['enums'], lambda e: fails(dict(doc, enums=e))))
        for ti in range(len(doc['tables'])):
            t = doc['tables'][ti]

            def put(nt):
                return dict(doc, tables=doc['tables'][:ti] + [nt] + doc['tables'][ti + 1:])
            rows = core.shrink_list(t['rows'], lambda rs: fails(put(dict(t, rows=rs))))
            t = dict(t, rows=rows)
            doc = put(t)
            idx = core.shrink_list(list(range(len(t['cols']))),
                                   lambda ix: fails(put(dict(t, cols=[t['cols'][i] for i in ix],
                                                             rows=[[r[i] for i in ix] for r in t['rows']]))), minlen=1)
            t = dict(t, cols=[t['cols'][i] for i in idx], rows=[[r[i] for i in idx] for r in t['rows']])
            doc = put(t)
            # characters of string cells
            for ri, r in enumerate(t['rows']):
                for ci, c in enumerate(r):
                    if isinstance(c, str) and len(c) > 1:
                        def putc(chars):
                            nr = list(r)
                            nr[ci] = ''.join(chars)
                            return put(dict(t, rows=t['rows'][:ri] + [nr] + t['rows'][ri + 1:]))
                        chars = core.shrink_list(list(c), lambda ch: fails(putc(ch)))
                        doc = putc(chars)
                        t = doc['tables'][ti]
                        r = t['rows'][ri]
    except Exception:
        pass
    return doc


# ---------------------------------------------------------------- streams
def _docs(ctx, docs, stream='doc'):
    """streams doc-a, doc-b, doc-c, doc-m on a list of documents"""
    real = [real_roundtrip(ctx, d) for d in docs]
    lines = []
    for d, r in zip(docs, real):
        lines.append({'p': 'C01', 'op': 'doc', 'doc': lean_doc(d)})
        lines.append({'p': 'C01', 'op': 'parse', 'text': r.get('text', '')})
    out = drv(lines, parallel=True, chunk=400)
    for i, (d, r) in enumerate(zip(docs, real)):
        m, mp = out[2 * i], out[2 * i + 1]
        case = {'stream': stream, 'doc': {k: d[k] for k in ('comments', 'carg', 'hdr', 'hdrwrap', 'enums', 'tables', 'entry') if k in d}}
        ntr = bool(d['tables'] or d['hdr'])
        ctx.seen(case, ntr)
        ctx.count('%s:entry:%s' % (stream, d['entry']))
        ctx.count('%s:tables:%d' % (stream, len(d['tables'])))
        for w in d.get('hdrwrap', {}).values():
            ctx.count('%s:hdr-container:%s' % (stream, w))
        for t in d['tables']:
            ctx.count('%s:rows:%d' % (stream, len(t['rows'])))
            for c in t['cols']:
                kind = (c[1] if c[1][0] not in 'SU' else c[1][0]) + ('[]' if c[2] else '')
                if c[1][0] in 'SU' and c[0] in {e[0] for e in d['enums']}:
                    kind = 'enum' + ('[]' if c[2] else '')
                ctx.count('%s:col:%s' % (stream, kind))
        # (a) property oracle
        v = judge(d, r)
        if v is not None:
            ctx.count('%s:a:%s' % (stream, v[0]))
            small = shrink_doc(ctx, d, v[0]) if stream != 'd4' or len(json.dumps(d['tables'])) > 400 else d
            ctx.violate(v[0], v[1], dict(case, doc={k: small[k] for k in ('comments', 'carg', 'hdr', 'hdrwrap', 'enums', 'tables', 'entry') if k in small}))
        else:
            ctx.count('%s:a:ok' % stream)
        if 'driver_error' in m or 'driver_error' in mp:
            ctx.disagree(stream + '-driver', case, None, [m, mp])
            continue
        want_t = expect(d, text=True)
        # canon of the model = the statement-level expectation
        if m['canon'] != want_t:
            ctx.disagree(stream + '-canon', case, want_t, m['canon'])
        dom = in_domain(d)
        if dom and not m['ok']:
            ctx.disagree(stream + '-docOK', case, 'generator: in domain', 'model: docOK = false')
        if m['ok']:
            ctx.count('%s:docOK' % stream)
            # (m) theorem instance inside the model
            if m['parsed'] != {'ok': m['canon']}:
                ctx.disagree(stream + '-m', case, m['canon'], m['parsed'])
        if v is not None:
            continue   # the real code already broke the property on this document; reported above
        # (b) model reader on pydl's text
        if 'text' in r:
            if mp['parsed'] != {'ok': want_t}:
                ctx.disagree(stream + '-b', case, want_t, mp['parsed'])
            sym = r.get('symbols')
            if sym and (mp['structs'] != sym['structs'] or mp['enums'] != sym['enums'] or mp['symbols'] != sym['symbols']):
                ctx.disagree(stream + '-b-symbols', case, sym, {k: mp[k] for k in ('structs', 'enums', 'symbols')})
        # (c) real reader on the model's text
        if 'ok' in m['text']:
            rc = real_read(ctx, m['text']['ok'])
            if rc != {'ok': expect(d)}:
                ctx.disagree(stream + '-c', case, rc, expect(d))
            # the model's text and pydl's text differ at most in the comment block
            if d['carg'] is not None and m['text']['ok'] != r.get('text'):
                ctx.disagree(stream + '-c-text', case, r.get('text'), m['text']['ok'])
        elif 'err' in m['text']:
            ctx.disagree(stream + '-c-render', case, 'written', m['text'])


TOK_ALPHA = ['"', '"', '{', '}', ' ', ' ', '\t', '#', '\n', 'a', 'b', '1', ';', '\\', '\r', '\x0b', '\x1c', '\x1f', '\x85', '\xa0', '-', ',', 'x', '']


def _tok(ctx, strings=None):
    from pydl.pydlutils.yanny import yanny
    rng = ctx.rng
    if strings is None:
        strings = []
        n = ctx.n(20000, 100000)
        for _ in range(n):
            k = rng.randrange(6)
            ln = rng.randrange(0, 14)
            if k == 0:
                s = ''.join(rng.choice(TOK_ALPHA) for _ in range(ln))
            elif k == 1:
                # well-formed token sequences
                parts = []
                for _ in range(rng.randrange(1, 5)):
                    w = gen_chars(rng, rng.randrange(0, 5), lambda c: c not in '"}\n')
                    parts.append(rng.choice(['"%s"' % w, '{%s}' % w, '{ %s }' % w, w.replace(' ', '') or 'w']))
                s = rng.choice([' ', '  ', '\t', ' \t '])[:].join(parts) + rng.choice(['', ' ', ' # c', ' # "c"', ' # "c', '#'])
            elif k == 2:
                s = gen_chars(rng, ln, lambda c: True, lead_brace=True, flavour=1)
            elif k == 3:
                s = ''.join(rng.choice(['{', '}', ' ', '{', '}', '\t', 'a', '"']) for _ in range(ln))
            elif k == 4:
                s = ''.join(rng.choice(['#', '"', ' ', 'a', '#', '"']) for _ in range(ln))
            else:
                s = gen_chars(rng, ln, lambda c: True, lead_brace=True)
            strings.append(s)
        if ctx.tier == 'thorough':
            alpha = ['"', '{', '}', ' ', '#', 'a', '\n', '\t', ';']
            for ln in range(0, 5):
                for tup in itertools.product(alpha, repeat=ln):
                    strings.append(''.join(tup))
        strings += ['', ' ', '"', '""', '"a', '{', '{}', '{ }', '{a', '{{}}', '{ { } }', 'a', 'a ', ' a', '"a" b', '{a b } c', 'a\nb', '"a"\n b\nc',
                    'mystruct 1234 "#hashtag" # a comment.', 'mystruct 1234 "#hashtag" # a "comment".', '# # # #', 'x {{}} y {  {\t}  }']
    dbre = re.compile(r'\{\s*\{\s*\}\s*\}')
    outs = []
    for i in range(0, len(strings), 500):
        outs += drv([{'p': 'C01', 'op': 'tok', 's': strings[i:i + 500]}])[0]
    for s, m in zip(strings, outs):
        case = {'stream': 'tok', 's': s}
        ctx.seen(case, len(s) > 0)
        try:
            w, r = yanny.get_token(s)
            tok = {'ok': [w, r]}
        except Exception as e:
            tok = {'err': core.exc_kind(e)}
        p = yanny.protect(s)
        try:
            w, r = yanny.get_token(p)
            tokp = {'ok': [w, r]}
        except Exception as e:
            tokp = {'err': core.exc_kind(e)}
        impl = {'protect': p, 'token': tok, 'tc': yanny.trailing_comment(s), 'db': dbre.sub('""', s), 'strip': s.strip(), 'tokp': tokp}
        ctx.count('tok:' + ('err:' + tok['err'] if 'err' in tok else ('quoted' if s[:1] == '"' else 'braced' if s[:1] == '{' else 'bare')))
        if impl != m:
            ctx.disagree('tok', case, impl, m)


def _ints(ctx):
    rng = ctx.rng
    ns = [0, 1, -1, 9, 10, -10, 99, 100, 2**15 - 1, -2**15, 2**31 - 1, -2**31, 2**63 - 1, -2**63]
    ns += [rng.randrange(-2**63, 2**63) for _ in range(ctx.n(2000, 50000))]
    ns += [rng.choice([1, -1]) * 10**k + d for k in range(19) for d in (-1, 0, 1) if -2**63 <= 10**k + d < 2**63]
    m = drv([{'p': 'C01', 'op': 'ints', 'n': ns}])[0]
    for n, (t, back) in zip(ns, m):
        ctx.seen({'stream': 'ints', 'n': n})
        if t != str(np.int64(n)) or back != int(t):
            ctx.disagree('ints', {'stream': 'ints', 'n': n}, [str(np.int64(n)), int(str(np.int64(n)))], [t, back])
    ctx.count('ints', len(ns))
    # int() on arbitrary small texts: the model may only be stricter
    texts = ['', '-', '+', '+5', '-0', '007', '1 ', ' 1', '1_0', '1.0', 'a', '--1', '12a', '٣'] + \
            [''.join(rng.choice('0123456789-+ a') for _ in range(rng.randrange(0, 6))) for _ in range(ctx.n(500, 5000))]
    m = drv([{'p': 'C01', 'op': 'parseint', 's': texts}])[0]
    for t, got in zip(texts, m):
        try:
            want = int(t)
        except ValueError:
            want = None
        ctx.count('parseint:' + ('ok' if got is not None else ('refused-by-both' if want is None else 'model-stricter')))
        if got is not None and got != want:
            ctx.disagree('parseint', {'stream': 'parseint', 's': t}, want, got)


def _struct(ctx):
    from pydl.pydlutils.yanny import yanny, write_ndarray_to_yanny
    rng = ctx.rng
    cases = []
    for u in UNSUPPORTED:
        cases.append(([['x', u, 0]], 'bad', []))
        cases.append(([['a', 'i4', 0], ['x', u, 3], ['b', 'S3', 0]], 'bad2', []))
    for _ in range(ctx.n(150, 3000)):
        d = gen_doc(rng, ntab=1)
        t = d['tables'][0]
        cols = [list(c) for c in t['cols']]
        if rng.random() < 0.3:
            cols[rng.randrange(len(cols))][1] = rng.choice(UNSUPPORTED)
        cases.append((cols, t['name'], d['enums']))
    lines = [{'p': 'C01', 'op': 'struct', 'cols': c, 'name': n, 'enums': e} for c, n, e in cases]
    out = drv(lines, parallel=True)
    for (cols, name, enums), m in zip(cases, out):
        case = {'stream': 'struct', 'cols': cols, 'name': name, 'enums': enums}
        ctx.seen(case)
        dt = np.dtype([(c[0], c[1]) if not c[2] else (c[0], c[1], (c[2],)) for c in cols])
        en = {e[0]: (e[1], e[2]) for e in enums} if enums else None
        try:
            r = yanny.dtype_to_struct(dt, structname=name, enums=en)
            impl = {'struct': {'ok': r['struct'][0]}, 'enum': r['enum']}
        except Exception as e:
            impl = {'struct': {'err': core.exc_kind(e)}, 'enum': m.get('enum')}
        ctx.count('struct:' + ('refused' if 'err' in impl['struct'] else 'ok'))
        if impl != m:
            ctx.disagree('struct', case, impl, m)
        bad = [c for c in cols if c[1] in UNSUPPORTED]
        if bad:
            # property oracle: refused with an exception, nothing written
            fn = os.path.join(ctx.tmpdir(), 'u%d.par' % next(_counter))
            try:
                write_ndarray_to_yanny(fn, np.zeros(2, dtype=dt), structnames=name, enums=en)
                ctx.violate('unsupported:not-refused:' + bad[0][1], 'unsupported column type %s was written' % bad[0][1], case)
            except Exception:
                if os.path.exists(fn):
                    ctx.violate('unsupported:file-written:' + bad[0][1], 'unsupported column type %s: exception but a file was written' % bad[0][1], case)
            finally:
                if os.path.exists(fn):
                    os.remove(fn)


FORBIDDEN_F = set(' \t#"{};\n\r')


def _check_float_text(ctx, w, x):
    """h1 and h2 for one value; x is a numpy scalar of the width"""
    t = ftext(x)
    ok2 = len(t) > 0 and not (set(t) & FORBIDDEN_F) and not any(c.isspace() for c in t)
    a = np.zeros(1, dtype='f4' if w == 4 else 'f8')
    try:
        a[0] = float(t)
    except ValueError:
        return 'h1:float-refuses', t
    if np.isnan(x):
        ok1 = bool(np.isnan(a[0]))
    else:
        ok1 = (f32bits(a[0]) == f32bits(x)) if w == 4 else (f64bits(a[0]) == f64bits(x))
    if not ok2:
        return 'h2', t
    if not ok1:
        return 'h1', t
    return None, t


def _h1h2(ctx):
    rng = ctx.rng
    n = ctx.n(40000, 1000000)
    bad = []
    for w in (4, 8):
        if w == 4:
            bits = np.array([rng.getrandbits(32) for _ in range(n)], dtype=np.uint32)
            extra = np.array([0, 1, 2, 0x7f7fffff, 0x7f800000, 0xff800000, 0x7fc00000, 0x00800000, 0x007fffff, 0x80000000, 0x3f800000], dtype=np.uint32)
            vals = np.concatenate([bits, extra]).view(np.float32)
        else:
            bits = np.array([rng.getrandbits(64) for _ in range(n)], dtype=np.uint64)
            extra = np.array([0, 1, 2, 0x7fefffffffffffff, 0x7ff0000000000000, 0xfff0000000000000, 0x7ff8000000000000,
                              0x0010000000000000, 0x000fffffffffffff, 0x8000000000000000], dtype=np.uint64)
            vals = np.concatenate([bits, extra]).view(np.float64)
        for x in vals:
            r, t = _check_float_text(ctx, w, x)
            if r:
                bad.append((w, x, r, t))
        ctx.count('h1h2:f%d' % w, len(vals))
    # directed float32 double-rounding search: decimals of <= 9 digits very close to a float32 midpoint
    cand = 0
    hazards = 0
    for q in range(-54, 31, 1 if ctx.tier == 'thorough' else 3):
        # decimal m * 10^q with 10^8 <= m < 10^9; midpoint (2n+1) * 2^(e-1) with 2^23 <= n < 2^24
        for e in _exps_for(q):
            alpha = Fraction(10) ** q / Fraction(2) ** (e - 1)      # (2n+1)/m ~ alpha
            for p, k in _convergents(alpha, 10**9):
                for mult in range(1, 4):
                    mm, pp = k * mult, p * mult
                    if not (10**7 <= mm < 10**9) or pp % 2 == 0 or not (2**24 < pp < 2**25):
                        continue
                    cand += 1
                    mid = Fraction(pp) * Fraction(2) ** (e - 1)
                    for x in _f32_neighbours(mid):
                        r, t = _check_float_text(ctx, 4, x)
                        if r:
                            bad.append((4, x, r, t))
                    # is the decimal itself mis-rounded by float() + cast ?  (hazard census, informational)
                    dec = Fraction(mm) * Fraction(10) ** q
                    txt = '%de%d' % (mm, q)
                    got = np.float32(float(txt))
                    want = _round_f32(dec)
                    if want is not None and f32bits(got) != f32bits(want):
                        hazards += 1
                        if _short(ftext(want)) is not None and f32bits(_short(ftext(want))) != f32bits(want):
                            bad.append((4, want, 'h1', txt))
    ctx.count('h1h2:double-rounding-candidates', cand)
    ctx.count('h1h2:double-rounding-hazard-decimals', hazards)
    for w, x, r, t in bad[:5]:
        bits = f32bits(x) if w == 4 else f64bits(x)
        # exhibit it at the level of the statement: one table, one cell, real write and read
        d = {'comments': '# f\n', 'carg': 'f', 'hdr': [], 'enums': [], 'entry': 'ndarray',
             'tables': [{'name': 'F', 'cols': [['v', 'f%d' % w, 0]], 'rows': [[fcell(w, x)]]}]}
        v = judge(d, real_roundtrip(ctx, d))
        what = 'float%d value with bit pattern %#x is written as %r and does not read back (%s)' % (w * 8, bits, t, r)
        if v is not None:
            ctx.violate('roundtrip:float-text:%s:f%d' % (r, w), what + ': ' + v[1], {'stream': 'doc', 'doc': d})
        else:
            ctx.violate('float-text:%s:f%d' % (r, w), what, {'stream': 'h1h2', 'w': w, 'bits': bits, 'text': t})
    ctx.seen({'stream': 'h1h2', 'n': n})


def _short(txt):
    try:
        return np.float32(float(txt))
    except Exception:
        return None


def _exps_for(q):
    # binary exponent e with (2n+1)*2^(e-1) ~ m*10^q, m ~ 10^8..10^9, 2n+1 ~ 2^24..2^25
    lo = math.floor((8 + q) * math.log2(10) - 25) + 1
    hi = math.ceil((9 + q) * math.log2(10) - 24) + 1
    return [e for e in range(lo, hi + 1) if -149 <= e - 1 and e + 24 <= 129]


def _convergents(alpha, kmax):
    a = alpha
    p0, q0, p1, q1 = 0, 1, 1, 0
    out = []
    for _ in range(60):
        fl = a.numerator // a.denominator
        p0, q0, p1, q1 = p1, q1, fl * p1 + p0, fl * q1 + q0
        if q1 > kmax:
            break
        out.append((p1, q1))
        frac = a - fl
        if frac == 0:
            break
        a = 1 / frac
    return out


def _round_f32(fr):
    """correct rounding (half to even) of a positive rational to float32, or None outside the normal range"""
    if fr <= 0:
        return None
    e = math.floor(math.log2(fr)) if fr.numerator.bit_length() - fr.denominator.bit_length() < 1000 else None
    e = fr.numerator.bit_length() - fr.denominator.bit_length()
    while Fraction(2) ** e > fr:
        e -= 1
    while Fraction(2) ** (e + 1) <= fr:
        e += 1
    if e < -126 or e > 127:
        return None
    scaled = fr / Fraction(2) ** (e - 23)
    n = scaled.numerator // scaled.denominator
    rem = scaled - n
    if rem > Fraction(1, 2) or (rem == Fraction(1, 2) and n % 2 == 1):
        n += 1
    return np.float32(math.ldexp(n, e - 23))


def _f32_neighbours(mid):
    try:
        x = np.float32(float(mid))
    except OverflowError:
        return []
    if not np.isfinite(x):
        return []
    return [x, np.nextafter(x, np.float32(np.inf)), np.nextafter(x, np.float32(-np.inf))]


OOD_CLASSES = ['quote', 'lead-brace', 'rbrace-in-array', 'backslash-last', 'non-ascii', 'hdr-hash', 'hdr-newline', 'cell-newline']


def _ood(ctx):
    """excluded text classes: recorded, never judged"""
    rng = ctx.rng
    for cls in OOD_CLASSES:
        for _ in range(ctx.n(6, 60)):
            d = gen_doc(rng, ntab=rng.choice([1, 2]), zero_array=False)
            d['tables'][0]['cols'] = [['s', 'S8', 0], ['n', 'i4', 0], ['arr', 'S8', 2], ['last', 'S8', 0]]
            d['tables'][0]['rows'] = [['ab', 1, ['p', 'q'], 'z'], ['cd', 2, ['r', 's'], 'y']]
            r0 = d['tables'][0]['rows'][0]
            if cls == 'quote':
                r0[0] = rng.choice(['a"b', '"', 'a "b'])
            elif cls == 'lead-brace':
                r0[0] = rng.choice(['{', '{a', '{a}'])
            elif cls == 'rbrace-in-array':
                r0[2] = ['a}', 'q']
            elif cls == 'backslash-last':
                r0[3] = 'a\\'
            elif cls == 'non-ascii':
                r0[0] = 'caf\xe9'
            elif cls == 'cell-newline':
                r0[0] = 'a\nb'
            elif cls == 'hdr-hash':
                d['hdr'] = [['k', 'a # b']]
            elif cls == 'hdr-newline':
                d['hdr'] = [['k', 'a\nb']]
            try:
                res = real_roundtrip(ctx, d)
                v = judge(d, res)
                outcome = 'lossless' if v is None else ('exception:' + res['err'] if 'err' in res else 'altered')
            except Exception as e:
                outcome = 'harness:' + type(e).__name__
            ctx.count('ood:%s:%s' % (cls, outcome))


def _d4(ctx):
    """the known rewriting classes, judged by the oracle (reported as known finding)"""
    rng = ctx.rng
    docs = []
    for pat in ['{{}}', 'x{{}}y', '{ {}}', 'a { { } } b', '{\t{ }}']:
        d = gen_doc(rng, ntab=1, zero_array=False)
        d['enums'] = []
        d['tables'][0]['cols'] = [['n', 'i4', 0], ['s', 'S12', 0]]
        d['tables'][0]['rows'] = [[1, 'q' + pat if pat[0] == '{' else pat], [2, 'plain']]
        docs.append(d)
    d = gen_doc(rng, ntab=1, zero_array=False)
    d['enums'] = []
    d['tables'][0]['cols'] = [['a', 'S4', 0], ['b', 'S4', 0]]
    d['tables'][0]['rows'] = [['a{{', '}}']]
    docs.append(d)
    d = gen_doc(rng, ntab=1, zero_array=False)
    d['hdr'] = [['key', 'v {{}} w']]
    docs.append(d)
    d = gen_doc(rng, ntab=1, zero_array=False)
    d['enums'] = []
    d['tables'][0]['cols'] = [['n', 'i4', 0], ['s', 'S30', 0]]
    d['tables'][0]['rows'] = [[1, 'typedef struct {int q;} zz;'], [2, 'plain']]
    docs.append(d)
    _docs(ctx, docs, stream='d4')


def _ensure_driver():
    """lake occasionally fails to link the driver right after a model change ('no such file'); one retry"""
    ok, _ = core.lake_build(['pydl_driver'])
    if not ok:
        core._built.pop(('pydl_driver',), None)
        core.lake_build(['pydl_driver'])


def _name_clash(d):
    """the D16/D17 patterns: a table name inside another table's name, or equal to a column / enum-type / C type name"""
    tn = [t['name'].lower() for t in d['tables']]
    if any(a != b and a in b for a in tn for b in tn):
        return 'D16-table-in-table'
    words = {c[0].lower() for t in d['tables'] for c in t['cols']} | {e[1].lower() for e in d['enums']} | set(KEYWORDS)
    if any(a in words for a in tn):
        return 'D17-table-is-word'
    if any(a in w for a in tn for w in words):
        return 'table-in-word'
    return None


def run(ctx):
    core.audit(ctx, LEAN_MODULES, THEOREMS)
    _ensure_driver()
    rng = ctx.rng
    docs = []
    n = ctx.n(2500, 40000)
    while len(docs) < n:
        d = gen_doc(rng, table_entry=(rng.random() < 0.15))
        if in_domain(d):
            docs.append(d)
            kind = _name_clash(d)
            if kind:
                ctx.count('doc:name-clash:' + kind)
        else:
            ctx.count('doc:generated-outside-domain')
    # directed: zero-row tables with array columns (D3), every column kind once
    for ty in SUPPORTED + ['S4']:
        docs.append({'comments': '# d\n', 'carg': 'd', 'hdr': [], 'enums': [], 'entry': 'ndarray',
                     'tables': [{'name': 'Z' + ty, 'cols': [['v', ty, 3]], 'rows': []}]})
    for i in range(0, len(docs), 2000):
        _docs(ctx, docs[i:i + 2000])
    _tok(ctx)
    _ints(ctx)
    _struct(ctx)
    _h1h2(ctx)
    _ood(ctx)
    _d4(ctx)
    if ctx.tier == 'thorough':
        _exhaustive_cells(ctx)


def _exhaustive_cells(ctx):
    """all strings of length <= 3 over a 9-character alphabet in a scalar, an array and the last position"""
    alpha = [' ', '\t', '#', ';', '{', '}', '\\', 'a', "'"]
    strs = [''.join(t) for ln in range(0, 4) for t in itertools.product(alpha, repeat=ln)]
    docs = []
    for i in range(0, len(strs), 6):
        blk = strs[i:i + 6]
        rows = []
        for s in blk:
            sc = s if not s.startswith('{') else 'q' + s[1:]
            ar = sc.replace('}', 'j')
            last = sc if not (sc.endswith('\\') and not _needs_quote(sc)) else sc[:-1] + '/'
            rows.append([sc, [ar, 'z'], 7, last])
        d = {'comments': '# x\n', 'carg': 'x', 'hdr': [], 'enums': [], 'entry': 'ndarray',
             'tables': [{'name': 'EX', 'cols': [['s', 'S4', 0], ['arr', 'S4', 2], ['n', 'i2', 0], ['last', 'S4', 0]], 'rows': rows}]}
        if in_domain(d):
            docs.append(d)
        else:
            for r in rows:
                d1 = dict(d, tables=[dict(d['tables'][0], rows=[r])])
                if in_domain(d1):
                    docs.append(d1)
    _docs(ctx, docs, stream='exh')


def replay(ctx, case):
    core.audit(ctx, LEAN_MODULES, THEOREMS)
    _ensure_driver()
    s = case.get('stream')
    if s in ('doc', 'd4', 'exh'):
        d = dict(case['doc'])

        def refresh(c):
            # the float text is what the writer of the tree under test prints for the recorded bit pattern
            if isinstance(c, list):
                return [refresh(x) for x in c]
            return fcell(c['w'], fval(c)) if isinstance(c, dict) else c
        d['tables'] = [dict(t, rows=[[refresh(c) for c in r] for r in t['rows']]) for t in d['tables']]
        _docs(ctx, [d], stream=s)
    elif s == 'tok':
        _tok(ctx, [case['s']])
    elif s == 'h1h2':
        w = case['w']
        x = (np.array([case['bits']], dtype=np.uint32).view(np.float32) if w == 4 else np.array([case['bits']], dtype=np.uint64).view(np.float64))[0]
        r, t = _check_float_text(ctx, w, x)
        ctx.seen(case)
        if r:
            ctx.violate('float-text:' + r + ':f%d' % w, 'float text does not read back: %r' % t, case)
    else:
        run(ctx)

"""C02 - yanny: the meaning of a file does not depend on its surface syntax (DESIGN §5 C02).

A case is a pair (logical document d, layout lay).  The Lean model renders it
(`renders d lay`, Model/YannyLayout.lean), the real `yanny` reads the text three ways (file name,
text file object, binary file object) and once in raw mode.

Streams
  lay      (property oracle) every access mode returns exactly the document: pairs in order, tables,
           column types, row order, cells (floats by bit pattern in the declared width);
           raw mode returns the same values as plain lists;
  lay-m    the model's reader (`parseFile2`, on the bytes and on the universal-newline text) agrees
           with the real reader field by field, also on the symbol tables; when `docOK2 d &&
           layoutOKW d lay` it returns `canon d` on the bytes (instance of the PROVED `parseFile_layout_w`),
           when `layoutOKU d lay` also on the universal-newline text (`parseFile_layout_univNl`), and that
           text equals `renders d lay.univ` (`renders_univNl`) - all executed on every case;
  outside  directed cases OUTSIDE the domain (two declarations written with brackets on one line of a
           struct definition): model = real code, field by field (same exception, same mis-typed columns);
  names    directed documents whose struct names contain one another / equal a column name, an
           enum type or a C type word elsewhere (D16, D17), through the same differential;
  exh      (thorough) one 2-table, 2-row document x all 2^10 on/off combinations of the ten
           layout features;
  qtok     get_token on a token written bare / "quoted" / {braced} followed by any separator:
           real code vs model, and = (token, rest) whenever the style is legal for the token;
  tc       trailing_comment(l + ws + '#' + c) = rstrip(l + ws) for c without '#' and with an even
           number of '"'; the documented failure for an odd number is counted, not judged.
"""
import os
import re
import json
import random
import itertools
import numpy as np
from harness import core
from harness.props import c01

ID = 'C02'
LEAN_MODULES = ['PydlVerif.Props.C02']
P = 'PydlVerif.C02.'
THEOREMS = [P + t for t in (
    'getToken_quote', 'getToken_quote_last', 'trailingComment_strip', 'trailingComment_odd_counterexample',
    'parseRow_layout', 'tdNameOf_typedef', 'struct_name_lookup', 'struct_name_lookup_typing', 'old_lookup_counterexample',
    'raw_same_values', 'parseFileS_selectDef',
    # file level (extension round)
    'joinCont_layout', 'typedef_block_layout', 'typeSearch_layout', 'columnsOf_layout', 'typing_layout', 'char_unsized_layout',
    'front_layout', 'lineStep_layout_row', 'lineStep_layout_pair', 'loop_layout', 'finishTables_layout', 'parseFile2_eq',
    'parseFile_layout',
    # second extension round: wider domain, text mode (universal newlines), raw mode at file level
    'layoutOK2_sub', 'typeSearch_layout_w', 'typing_layout_w', 'parseFile_layout_w', 'renders_univNl', 'univLayout_ok',
    'parseFile_layout_univNl', 'tokCrOK_of_float', 'parseFile_layout_univNl_float', 'parseRaw_layout', 'parseRaw_layout_univNl',
    'enums_layout')]
FEATS = ['lead', 'seps', 'quote', 'legacy', 'case', 'tcomment', 'filler', 'crlf', 'cont', 'interleave']
RULE = ('pairs (document, layout): documents of 0-3 tables x 0-5 rows x 1-6 columns (short/int/long/float/double/char[n]/char[], '
        '1-D arrays, enum columns), 0-4 keyword pairs, struct names biased to clashes (substrings of each other, equal to a column, '
        'enum type or C type word elsewhere); layouts toggle ten features independently (leading blanks, blank/tab separator runs, '
        'quoting style bare/"quoted"/{braced} per token, <n> vs [n], letter case of the struct name, trailing comments, comment and '
        'blank lines, CRLF, backslash continuation at any separator, interleaving of pairs / definitions / rows) plus typedef inner '
        'layout, several declarations on one line of a struct (at most one with brackets per line), lone CR / LF CR inside the white '
        'space of definitions, char[] sizing, final newline; every text is read by file name, text file object, binary file object and '
        'in raw mode; a directed stream places two bracketed declarations on one line (outside the domain: differential only). '
        'Non-trivial: at least one table or pair and at least one feature on; distinct = distinct (document, layout) payloads.')
TRUSTED = ['hand-written model lean/PydlVerif/Model/YannyLayout.lean (renderer, layout domain, post-fix typedef selection) and C01\'s reader '
           'model Model/Yanny{Tok,Row,File,Dom}.lean, tied to the code by the differential of this run',
           'numpy/Python float and int text conversion (floats cross as the text numpy prints; C01 hypotheses h1/h2)',
           'Python re: the scanners of the model are hand-written equivalents of the regular expressions',
           'Python open(): universal newlines in text mode (modelled by univNl), ASCII decoding of binary objects']
ASSUMPTIONS = [
    'file objects are those returned by open() in text or binary mode (io.StringIO/BytesIO have no .mode and are rejected before parsing)',
    'strings are ASCII without NUL, CR, LF and without a double quote; a scalar string does not start with "{"; array elements contain no "}" '
    '(C01 domain); no line contains a {ws{ws}ws} pattern and no cell/comment contains the word typedef (C01 known finding D4: regenerated, not reported)',
    'a trailing comment contains no further "#", an even number of double quotes (odd: documented failure of trailing_comment, kept as a '
    'counter-example lemma) and no backslash; comments inside a typedef additionally contain none of ; { } "',
    'inside a struct definition every column declaration is preceded by white space; a declaration written with brackets ([n], <n>, []) '
    'is the last such declaration of its line (type() matches "[...]" greedily up to the last "];" of the line: "int a[2]; char t[8];" '
    'on one line is outside the domain - the model is compared with the code there, stream outside); declarations without brackets '
    'share lines freely; enum labels are followed directly by their comma',
    'text mode (universal newlines): no comment inside a struct definition contains a lone CR (a lone CR is a line end in text mode and '
    'would end the comment), no cell as printed contains a CR (strings: C01 domain; numbers: numpy never prints one)',
    'a bare token does not end its line with a backslash (the continuation mark); keyword values are compared after str.strip()',
    'struct names are identifiers, distinct ignoring case (otherwise arbitrary: substrings of each other, equal to column / enum / type names)',
    'char name[] is admissible when the table has a row; the column then has the width of its longest value',
]
LEVEL_TEXT = ('Lean 4 theorems over an executable model of the yanny reader and of a layout relation Renders(document, layout), at the FILE '
              'level, for BOTH ways a file is opened: parseFile_layout_w - every document of the domain (several tables, enum and struct '
              'definitions, keyword pairs, struct names arbitrary distinct identifiers) written in ANY admissible layout (comment lines, trailing '
              'comments, blank lines, leading blanks, blank/tab runs, LF or CRLF per line, backslash continuation inside any separator, '
              'bare/"quoted"/{braced} tokens, [n]/<n>/[] brackets, any letter case of the struct name, white space - LF, CR, CRLF - and comments '
              'inside definitions, several declarations on one line, definitions anywhere in the file, rows of different tables interleaved) reads '
              'back from the bytes (binary file object) as the canonical document: tables, column types, row order per table, cells, pairs in order; '
              'parseFile_layout_univNl - the same for the text after Python\'s universal-newline translation (text-mode open(), file name), via '
              'renders_univNl (the translated text of a rendering IS the rendering of the layout lay.univ) and univLayout_ok (that layout is in the '
              'domain); parseRaw_layout / parseRaw_layout_univNl - raw mode returns the pairs and, per table, the document\'s rows as plain lists. '
              'parseFile_layout (first extension round, narrower domain layoutOK2) is a corollary (layoutOK2_sub). Pieces stated separately: '
              'joinCont_layout (continuation joining), typedef_block_layout / front_layout (typedef extraction on laid-out blocks, symbol table, '
              'residual text), typeSearch_layout(_w) / columnsOf_layout / typing_layout(_w) / char_unsized_layout (column typing from a laid-out struct '
              'text, char name[] sized by the longest value), lineStep_layout_row / lineStep_layout_pair (the line step on a whole laid-out line, on '
              'top of getToken_quote, trailingComment_strip, parseRow_layout), loop_layout (rows of each table arrive in that table\'s order under '
              'any interleaving), finishTables_layout (record arrays). Also: the typedef of a table is selected by its own name whatever other names '
              'and texts contain (struct_name_lookup*, pre-fix rule refuted by old_lookup_counterexample); raw_same_values. The model is tied to the '
              'code on every run by a differential over generated (document, layout) pairs read through three access modes and raw mode, with an '
              'independent cell-by-cell oracle, incl. the bounded-exhaustive family of all 2^10 feature combinations on one document (thorough) and a '
              'directed stream outside the domain; the instances of the theorems are executed on every case (model reader on the bytes = canon d '
              'whenever docOK2 && layoutOKW, on the universal-newline text whenever layoutOKU, univNl(text) = renders d lay.univ).')
LEVEL_NOTE = ('Domain layoutOKW = layoutOK + "inside a struct definition a declaration written with brackets is the last such declaration of its '
              'line" (type() matches [...] greedily up to the last ]; of the line; two bracketed declarations on one line are mis-typed or raise - '
              'in the code and in the model alike, compared by the stream outside; the code happens to read some of them correctly, e.g. two '
              'non-char arrays, which the theorem does not cover). Text-mode domain layoutOKU = layoutOKW + no lone CR inside a comment of a struct '
              'definition (it would end the comment: a different file) + no CR in a printed cell (tokCrOK_of_float: follows from docOK2 for any float '
              'printer that emits no CR). What open() does to line ends is modelled by univNl (trusted, compared with str.replace on every case). The '
              'regex scanners of the model are hand-written equivalents of the re expressions (trusted, compared on every run). Floats by C01\'s '
              'hypothesis h1.')

DB_RE = c01.DB_RE
WS = ' \t\n\r\x0b\x0c\x1c\x1d\x1e\x1f\x85\xa0'


def _ensure_known():
    """also read known_findings_C02.json (to be merged into known_findings.json by the integrator)"""
    prev = core.load_known

    def load():
        out = list(prev())
        f = core.VERIF / 'known_findings_C02.json'
        if f.exists():
            for k in json.loads(f.read_text()):
                if k not in out:
                    out.append(k)
        return out
    if getattr(core.load_known, '_c02', False):
        return
    load._c02 = True
    core.load_known = load


_ensure_known()


# ---------------------------------------------------------------- documents
CWORDS = ['int', 'char', 'struct', 'enum', 'float', 'long']


def gen_names(rng, ntab, colpool):
    """struct names, biased to the clash patterns of D16/D17"""
    names = []
    tries = 0
    while len(names) < ntab and tries < 200:
        tries += 1
        k = rng.randrange(8)
        if names and k < 3:
            base = rng.choice(names)
            s = rng.choice([base + rng.choice(['BAR', 'x', '_1', '2']), rng.choice(['X', 'my', '_']) + base,
                            base[:max(1, len(base) - 1)]])
        elif k == 3 and colpool:
            s = rng.choice(colpool)
        elif k == 4:
            s = rng.choice(CWORDS + ['BOOLEAN', 'FOO', 'FOOBAR', 'A', 'AB'])
        else:
            s = c01.gen_ident(rng, set(), maxlen=7, pool=['mystruct', 'T0', 'Tab', 'OBS', 'foo', 'Foo'])
        if not re.fullmatch(r'\w+', s) or s.lower() == 'typedef' or 'typedef' in s.lower():
            continue
        if s.upper() in {n.upper() for n in names}:
            continue
        names.append(s)
    return names


def gen_doc(rng, ntab=None, clash=False):
    ntab = ntab if ntab is not None else rng.choice([0, 1, 1, 2, 2, 2, 3])
    enums = []
    if rng.random() < 0.45:
        used_c, used_t = set(), set()
        for _ in range(rng.randrange(1, 3)):
            col = c01.gen_ident(rng, used_c, pool=['flag', 'state', 'e'])
            ty = c01.gen_ident(rng, set(), pool=['BOOLEAN', 'status', 'Mode'])
            if ty.upper() in used_t or ty.lower() == 'typedef':
                continue
            used_c.add(col)
            used_t.add(ty.upper())
            labs = []
            for _ in range(rng.randrange(1, 5)):
                labs.append(c01.gen_ident(rng, set(labs), maxlen=7, pool=['TRUE', 'FALSE', 'ON', 'OFF', 'x', 'SUCCESS']))
            enums.append([col, ty, list(dict.fromkeys(labs))])
    enum_cols = {e[0]: e for e in enums}
    colpool = ['a', 'foo', 'ra', 'mag', 'FOO', 'bar'] + list(enum_cols)
    names = gen_names(rng, ntab, colpool + [e[1] for e in enums])
    tables = []
    for tn in names:
        ncol = rng.choice([1, 2, 2, 3, 4, 5, 6])
        cols, used = [], set()
        for ci in range(ncol):
            pool = colpool + ['x', 'int', 'v', 'name'] + [n.lower() for n in names] + [n for n in names]
            name = c01.gen_ident(rng, used, pool=pool, ok=lambda w: w.lower() != 'typedef')
            used.add(name)
            k = rng.randrange(10)
            if name in enum_cols:
                ty = 'S%d' % (max(len(l) for l in enum_cols[name][2]) + rng.randrange(0, 3))
            elif k < 4:
                ty = 'S%d' % rng.choice([1, 2, 3, 5, 8, 20])
            else:
                ty = rng.choice(c01.SUPPORTED)
            alen = rng.choice([1, 2, 3, 5]) if rng.random() < 0.35 else 0
            cols.append([name, ty, alen])
        nrow = rng.choice([0, 1, 1, 2, 2, 3, 4, 5])
        rows = []
        for _ in range(nrow):
            row = []
            for (name, ty, alen) in cols:
                def one(arr):
                    if ty in c01.IRANGE:
                        return c01.gen_int(rng, ty)
                    if ty in ('f4', 'f8'):
                        return c01.fcell(int(ty[1]), c01.gen_float(rng, int(ty[1])))
                    n = int(ty[1:])
                    if name in enum_cols:
                        return rng.choice(enum_cols[name][2])
                    return c01.gen_str(rng, n, arr)
                row.append([one(True) for _ in range(alen)] if alen else one(False))
            rows.append(row)
        # char name[]: the declared width becomes the longest value
        unsized = []
        for ci, (name, ty, alen) in enumerate(cols):
            if ty[0] == 'S' and name not in enum_cols and rows and rng.random() < 0.35:
                m = max(max(len(x) for x in (r[ci] if alen else [r[ci]])) for r in rows)
                if m >= 1:
                    cols[ci][1] = 'S%d' % m
                    unsized.append(ci)
        tables.append({'name': tn, 'cols': cols, 'rows': rows, 'unsized': unsized})
    hdr = []
    if rng.random() < 0.6:
        usedk = set()
        for _ in range(rng.randrange(1, 5)):
            k = rng.randrange(4)
            if k == 0:
                key = c01.gen_ident(rng, usedk, pool=['mjd', 'name', 'keyword1'])
            else:
                key = c01.gen_chars(rng, rng.randrange(1, 8), lambda c: 33 <= ord(c) <= 126 and c != '#', flavour=rng.choice([0, 3, 4]))
                if key[0] in '"{':
                    key = 'k' + key[1:]
                if key.endswith('\\'):
                    key = key[:-1] + 'k'
            if key in usedk or key.upper() in {t.upper() for t in names} or 'typedef' in key:
                continue
            usedk.add(key)
            k = rng.randrange(8)
            if k == 0:
                val = str(rng.randrange(-10**6, 10**6))
            elif k == 1:
                val = rng.choice(['1.5', '-2.25e-07', '1e+300'])
            elif k == 2:
                val = rng.choice(['', 'lead', 'say "hi" there', 'a  b', '{x} {y}', 'semi;colon', "it's", 'beta gamma delta', 'one "odd quote'])
            else:
                val = c01.gen_chars(rng, rng.randrange(0, 16), lambda c: ord(c) < 128 and c not in '\n\r\x00#', lead_brace=True).strip()
            if val.endswith('\\'):
                val = val[:-1] + '/'
            if 'typedef' in val:
                continue
            hdr.append([key, val])
    return {'comments': '', 'hdr': hdr, 'enums': enums, 'tables': tables, 'entry': 'ndarray'}


def in_domain(doc):
    """cells without the C01 finding patterns (checked again on the rendered lines)"""
    for t in doc['tables']:
        for r in t['rows']:
            for c in r:
                for x in (c if isinstance(c, list) else [c]):
                    if isinstance(x, str) and (DB_RE.search(x) or 'typedef' in x):
                        return False
    return not any(DB_RE.search(k + ' ' + v) for k, v in doc['hdr'])


def lean_doc(doc):
    return {'comments': '', 'hdr': doc['hdr'], 'enums': doc['enums'],
            'tables': [{'name': t['name'], 'cols': t['cols'], 'rows': t['rows']} for t in doc['tables']]}


# ---------------------------------------------------------------- layouts
def tok_text(c):
    return c['t'] if isinstance(c, dict) else str(c)


def bare_legal(s):
    return len(s) > 0 and not any(ch in WS for ch in s) and '#' not in s and '"' not in s and s[0] != '{'


def braced_legal(s):
    return '}' not in s and '#' not in s and '"' not in s and (s == '' or s[0] not in WS)


COMMENT_ALPHA = "abcxyzABC019 ,.:;-_'()[]<>{}=+*/!?"
TDCOMMENT_ALPHA = "abcxyzABC019 ,.:-_'()[]<>=+*/!?"


class LayGen:
    def __init__(self, rng, mask, p=0.6):
        self.rng = rng
        self.mask = dict(mask)
        self.p = p

    def on(self, f):
        return bool(self.mask.get(f)) and (self.p >= 1 or self.rng.random() < self.p)

    def blanks(self, lo=1, hi=4):
        return ''.join(self.rng.choice(' \t ') for _ in range(self.rng.randrange(lo, hi + 1)))

    def lead(self):
        return self.blanks(1, 3) if self.on('lead') else ''

    def trail(self):
        return self.blanks(1, 2) if self.on('seps') else ''

    def crlf(self):
        return self.on('crlf')

    def sep(self, crlf, cont_ok=True):
        a = self.blanks(1, 4) if self.on('seps') else ' '
        if cont_ok and self.on('cont'):
            rng = self.rng
            a = rng.choice(['', a])
            b = rng.choice(['', '', ' ', '\t '])
            c = rng.choice(['', ' ', '    ', '\t'])
            return [a, [b, crlf, c]]
        return [a, None]

    def comment(self, alpha=COMMENT_ALPHA, force=False):
        if not (force or self.on('tcomment')):
            return None
        rng = self.rng
        s = ''.join(rng.choice(alpha) for _ in range(rng.randrange(0, 14)))
        if alpha is COMMENT_ALPHA and rng.random() < 0.25:
            k = rng.randrange(0, len(s) + 1)
            s = s[:k] + '"' + ''.join(rng.choice('ab #'.replace('#', 'c')) for _ in range(rng.randrange(0, 4))) + '"' + s[k:]
        return s

    def qstyle(self, s, elem=False):
        canon = 0 if bare_legal(s) and not (elem and '}' in s) else 1
        if not self.on('quote'):
            return canon
        opts = [1]
        if bare_legal(s):
            opts.append(0)
        if not elem and braced_legal(s):
            opts.append([self.rng.choice(['', '', ' ', ' \t'])])
        return self.rng.choice(opts)

    def casing(self, name, typedef=False):
        if not self.on('case'):
            return name.upper() if not typedef else name
        k = self.rng.randrange(4)
        if k == 0:
            return name.lower()
        if k == 1:
            return name.upper()
        return ''.join(ch.upper() if self.rng.random() < 0.5 else ch.lower() for ch in name)

    def row(self, t, r):
        crlf = self.crlf()
        comment = self.comment()
        cells = []
        for ci, c in enumerate(r):
            sep = self.sep(crlf)
            if isinstance(c, list):
                rest = [[self.sep(crlf), self.qstyle(tok_text(x), True)] for x in c[1:]]
                lay = {'op': self.blanks(1, 2) if self.on('seps') else '', 'q': self.qstyle(tok_text(c[0]), True),
                       'rest': rest, 'cl': self.blanks(1, 2) if self.on('seps') else ''}
            else:
                s = tok_text(c)
                q = self.qstyle(s)
                if ci == len(r) - 1 and q == 0 and s.endswith('\\') and comment is None:
                    q = 1
                lay = {'q': q}
            cells.append([sep, lay])
        return {'k': 'row', 'lead': self.lead(), 'name': self.casing(t['name']), 'cells': cells,
                'trail': self.trail(), 'comment': comment, 'crlf': crlf}

    def pair(self, kv):
        crlf = self.crlf()
        comment = self.comment()
        if comment is None and (kv[0] + kv[1]).endswith('\\'):
            comment = 'c'
        # a continuation must be followed by a token on the continued line: not before an empty value
        return {'k': 'pair', 'lead': self.lead(), 'sep': self.sep(crlf, cont_ok=bool(kv[1])), 'trail': self.trail(),
                'comment': comment, 'crlf': crlf}

    def nl(self, s, crlf):
        return s.replace('\n', '\r\n') if crlf else s

    def tdws(self, first, last=False):
        """white space (and comments) before a column declaration / the closing brace"""
        rng = self.rng
        if not self.mask.get('tdlay') or rng.random() < 0.4:
            return '\n' if last else '\n    '
        opts = ['\n', '\n\t', '\n  ', '\n\n   ', ' \n ']
        if self.mask.get('tcomment'):
            c = self.comment(TDCOMMENT_ALPHA, force=True)
            opts += ['\n  #' + c + '\n   ', ' #' + c + '\n ', '#' + c + '\n\t']
        if first:
            opts += [' ', '  ']
        if last:
            opts += [' ', '', '  ']
        return rng.choice(opts)

    def has_br(self, c):
        """the declaration of column c is written with brackets"""
        return c[2] > 0 or (c[1][0] in 'SU' and c[0] not in getattr(self, 'enum_cols', ()))

    def cr(self, s):
        """second extension round: lone CRs in the white space of a definition (never inside / after a comment)"""
        if not self.mask.get('lonecr') or '#' in s or self.rng.random() < 0.5:
            return s
        k = self.rng.randrange(3)
        if k == 0:
            return s.replace('\r\n', '\r').replace('\n', '\r')
        if k == 1:
            return s.replace('\n', '\n\r')
        return s + '\r'

    def sdef(self, t):
        crlf = self.crlf()
        rng = self.rng
        td = bool(self.mask.get('tdlay'))
        cols = []
        line_br = False          # a declaration with brackets already stands on the current line
        for ci, c in enumerate(t['cols']):
            pre = self.cr(self.nl(self.tdws(ci == 0), crlf))
            br = self.has_br(c)
            if ci > 0 and self.mask.get('sameline') and rng.random() < 0.6:
                # several declarations on one line: legal unless two of them use brackets
                pre = rng.choice([' ', '  ', '\t', ' \r'] if self.mask.get('lonecr') else [' ', '  ', '\t'])
            if '\n' not in pre and br and line_br:
                pre = self.nl('\n    ', crlf)
            if '\n' in pre:
                line_br = False
            line_br = line_br or br
            cols.append({'pre': pre, 'gap': rng.choice([' ', '  ', '\t']) if td else ' ',
                         'l1': self.on('legacy'), 'l2': self.on('legacy'), 'unsized': ci in t.get('unsized', [])})
        return {'k': 'sdef', 'lead': self.lead(),
                'g1': self.cr(self.nl(rng.choice([' ', '  ', '\t', '\n', ' \n ']) if td else ' ', crlf)),
                'g2': self.cr(self.nl(rng.choice(['', ' ', '\n', '  ']) if td else ' ', crlf)),
                'cols': cols, 'closePre': self.cr(self.nl(self.tdws(False, last=True), crlf)),
                'g3': self.cr(self.nl(rng.choice(['', ' ', '\n', '  ']) if td else ' ', crlf)),
                'name': self.casing(t['name'].upper() if not self.mask.get('case') else t['name'], typedef=True),
                'g4': self.cr(self.nl(rng.choice(['', ' ', '\n']) if td else '', crlf)),
                'trail': self.trail(), 'comment': self.comment(TDCOMMENT_ALPHA), 'crlf': crlf}

    def edef(self, e):
        crlf = self.crlf()
        rng = self.rng
        td = bool(self.mask.get('tdlay'))
        ws = (lambda: rng.choice(['\n    ', ' ', '', '\n', '  \n\t'])) if td else (lambda: '\n    ')
        return {'k': 'edef', 'lead': self.lead(),
                'g1': self.cr(self.nl(rng.choice([' ', '  ', '\t', '\n']) if td else ' ', crlf)),
                'g2': self.cr(self.nl(rng.choice(['', ' ', '\n']) if td else ' ', crlf)),
                'op': self.cr(self.nl(ws(), crlf)), 'afterComma': [self.cr(self.nl(ws(), crlf)) for _ in e[2][1:]],
                'cl': self.cr(self.nl(rng.choice(['\n', ' ', '']) if td else '\n', crlf)),
                'g3': self.cr(self.nl(rng.choice(['', ' ', '\n']) if td else ' ', crlf)),
                'g4': self.cr(self.nl(rng.choice(['', ' ']) if td else '', crlf)),
                'trail': self.trail(), 'comment': self.comment(TDCOMMENT_ALPHA), 'crlf': crlf}

    def fillers(self):
        out = []
        if not self.on('filler'):
            return out
        rng = self.rng
        for _ in range(rng.randrange(1, 3)):
            k = rng.randrange(4)
            if k == 0:
                text = ''
            elif k == 1:
                text = self.blanks(1, 3)
            else:
                text = rng.choice(['', ' ', '\t']) + '#' + ''.join(rng.choice(COMMENT_ALPHA + '"##') for _ in range(rng.randrange(0, 16)))
            out.append({'k': 'filler', 'text': text, 'crlf': self.crlf()})
        return out

    def layout(self, doc):
        rng = self.rng
        self.enum_cols = {e[0] for e in doc['enums']}
        pairs = [self.pair(kv) for kv in doc['hdr']]
        edefs = [self.edef(e) for e in doc['enums']]
        sdefs = [self.sdef(t) for t in doc['tables']]
        rowq = [[dict(self.row(t, r), t=ti) for r in t['rows']] for ti, t in enumerate(doc['tables'])]
        queues = [pairs, edefs, sdefs] + rowq
        order = []
        if self.mask.get('interleave') and (self.p >= 1 or rng.random() < 0.9):
            live = [q for q in queues if q]
            pos = {id(q): 0 for q in live}
            while live:
                q = rng.choice(live)
                order.append(q[pos[id(q)]])
                pos[id(q)] += 1
                if pos[id(q)] == len(q):
                    live.remove(q)
        else:
            for q in queues:
                order += q
        slots = []
        if rng.random() < 0.7:
            slots.append({'k': 'filler', 'text': '#%yanny', 'crlf': self.crlf()})
        for s in order:
            slots += self.fillers()
            slots.append(s)
        slots += self.fillers()
        return {'slots': slots, 'finalEol': rng.random() < 0.8 or not slots}


def gen_layout(doc, mask, lseed, p=0.6):
    return LayGen(random.Random(lseed), mask, p).layout(doc)


def gen_mask(rng):
    k = rng.randrange(10)
    if k == 0:
        m = {f: False for f in FEATS}
    elif k == 1:
        m = {f: True for f in FEATS}
    elif k == 2:
        m = {f: False for f in FEATS}
        m[rng.choice(FEATS)] = True
    else:
        m = {f: rng.random() < 0.5 for f in FEATS}
    m['tdlay'] = rng.random() < 0.4
    # second extension round: several declarations on one line of a struct, lone CRs in the white space of definitions
    m['sameline'] = rng.random() < 0.35
    m['lonecr'] = rng.random() < 0.25
    return m


# ---------------------------------------------------------------- real code
_counter = itertools.count()


def observe_raw(par):
    out = {'pairs': [[k, par[k]] for k in par.pairs()], 'tables': []}
    for t in par.tables():
        cols = []
        for c in par.columns(t):
            def one(x):
                if isinstance(x, float):
                    return {'f': 'nan' if x != x else c01.f64bits(x)}
                return x
            cols.append([c, [[one(x) for x in v] if isinstance(v, list) else one(v) for v in par[t][c]]])
        out['tables'].append({'name': t, 'cols': cols})
    return out


def real_read(ctx, text, modes=('name', 'text', 'binary', 'raw')):
    from pydl.pydlutils.yanny import yanny
    k = next(_counter)
    fn = os.path.join(ctx.tmpdir(), 'l%d.par' % k)
    with open(fn, 'wb') as f:
        f.write(text.encode('ascii'))
    res = {}
    try:
        for mode in modes:
            try:
                if mode == 'name':
                    par = yanny(fn)
                elif mode == 'text':
                    # every way open() hands out a text / binary object: read-only, update, a temporary file
                    with open(fn, ('r', 'rt', 'r+')[k % 3]) as f:
                        par = yanny(f)
                elif mode == 'binary':
                    if k % 4 == 3:
                        import tempfile
                        with tempfile.TemporaryFile() as f:
                            f.write(text.encode('ascii'))
                            f.seek(0)
                            par = yanny(f)
                    else:
                        with open(fn, ('rb', 'rb+', 'r+b')[k % 4]) as f:
                            par = yanny(f)
                else:
                    par = yanny(fn, raw=True)
                res[mode] = {'ok': observe_raw(par) if mode == 'raw' else c01.observe(par), 'sym': c01._symbols(par)}
            except Exception as e:
                res[mode] = {'err': core.exc_kind(e), 'msg': str(e)[:200]}
    finally:
        os.remove(fn)
    return res


# ---------------------------------------------------------------- expectations (independent of pydl and of the model)
def expect_raw(doc):
    def cv(c):
        if isinstance(c, list):
            return [cv(x) for x in c]
        if isinstance(c, dict):
            v = float(c['t'])
            return {'f': 'nan' if v != v else c01.f64bits(v)}
        return c
    return {'pairs': [[k, v.strip()] for k, v in doc['hdr']],
            'tables': [{'name': t['name'].upper(),
                        'cols': [[c[0], [cv(r[ci]) for r in t['rows']]] for ci, c in enumerate(t['cols'])]} for t in doc['tables']]}


def model_bits(parsed):
    """model output (floats as text) -> floats as bit patterns in the declared width, as c01.observe prints them"""
    def cv(c):
        if isinstance(c, list):
            return [cv(x) for x in c]
        if isinstance(c, dict) and 't' in c:
            v = float(c['t'])
            if v != v:
                return {'w': c['w'], 'b': 'nan'}
            return {'w': c['w'], 'b': c01.f32bits(np.float32(v)) if c['w'] == 4 else c01.f64bits(v)}
        return c
    if 'ok' not in parsed:
        return parsed
    p = parsed['ok']
    return {'ok': {'pairs': p['pairs'], 'tables': [dict(t, rows=[[cv(c) for c in r] for r in t['rows']]) for t in p['tables']]}}


def model_raw(raw):
    def cv(c):
        if isinstance(c, list):
            return [cv(x) for x in c]
        if isinstance(c, dict) and 't' in c:
            v = float(c['t'])
            return {'f': 'nan' if v != v else c01.f64bits(v)}
        return c
    if 'ok' not in raw:
        return raw
    p = raw['ok']
    return {'ok': {'pairs': p['pairs'],
                   'tables': [{'name': t['name'], 'cols': [[c[0], [cv(x) for x in c[1]]] for c in t['cols']]} for t in p['tables']]}}


def judge(doc, res):
    """property oracle: every access mode returns the document.  None or (signature, what)"""
    want = c01.expect(doc)
    for mode in ('name', 'text', 'binary'):
        if mode not in res:
            continue
        r = res[mode]
        if 'err' in r:
            return ('read:exception:' + r['err'], 'yanny(%s) raised %s: %s' % (mode, r['err'], r.get('msg')))
        d = c01.first_diff(want, r['ok'])
        if d:
            part = 'pairs' if d.startswith('.pairs') else ('cols' if '.cols' in d else ('rows' if '.rows' in d else 'tables'))
            return ('read:mismatch:' + part, 'yanny(%s) differs from the document: %s' % (mode, d))
    if 'raw' in res:
        r = res['raw']
        if 'err' in r:
            return ('raw:exception:' + r['err'], 'yanny(raw=True) raised %s: %s' % (r['err'], r.get('msg')))
        d = c01.first_diff(expect_raw(doc), r['ok'])
        if d:
            return ('raw:mismatch', 'raw mode differs from the document: %s' % d)
    return None


def feature_scan(text):
    """layout features as they can be seen in the text itself (independent of the layout record)"""
    f = set()
    if '\r\n' in text:
        f.add('crlf')
    if re.search(r'\\[ \t]*\r?\n', text):
        f.add('cont')
    if re.search(r'\w<\d*>', text):
        f.add('legacy')
    lines = re.sub(r'\\[ \t]*\r?\n', ' ', text).split('\n')
    if any(re.match(r'[ \t]+[^\s#]', l) for l in lines):
        f.add('lead')
    if any(re.match(r'[ \t]*(#.*)?\r?$', l) for l in lines[1:-1]):
        f.add('filler')
    if any(re.match(r'[ \t]*[^\s#].*#', l) for l in lines):
        f.add('hash-after-content')
    if any(re.search(r'\S([ \t]{2,}|\t)\S', l) for l in lines):
        f.add('seps')
    if re.search(r'(^|\s)\{[^{}\n]*\}', text) and re.search(r'"[^"\n]*"', text):
        f.add('braces+quotes')
    for blk in re.findall(r'typedef\s+struct\s*\{[^}]*\}', text):
        if any(re.sub(r'#.*', '', l).count(';') >= 2 for l in blk.split('\n')):
            f.add('decls-sharing-a-line')
    return f


# ---------------------------------------------------------------- one batch of cases
def run_cases(ctx, cases, stream='lay', shrink=True, outside=False):
    """cases: list of dict(doc=, lay=, mask=, lseed=, p=).  outside=True: directed cases OUTSIDE the domain
    (two bracketed declarations on one line of a struct): only the model-vs-real differential applies."""
    lines = [{'p': 'C02', 'op': 'lay', 'doc': lean_doc(c['doc']), 'lay': c['lay']} for c in cases]
    out = c01.drv(lines, parallel=True, chunk=300)
    for c, m in zip(cases, out):
        doc, mask = c['doc'], c.get('mask') or {}
        case = {'stream': stream, 'doc': doc, 'lay': c['lay'], 'mask': mask, 'lseed': c.get('lseed'), 'p': c.get('p', 0.6)}
        if 'driver_error' in m:
            ctx.disagree(stream + '-driver', case, None, m)
            continue
        if m.get('text') is None:
            ctx.disagree(stream + '-render', case, 'layout generated for this document', 'model: layout does not fit the document')
            continue
        text = m['text']
        case['text'] = text
        okw, oku = bool(m.get('okw')), bool(m.get('oku'))
        if outside:
            if okw or not m['ok']:
                ctx.disagree(stream + '-domain', case, 'generator: layoutOK, outside layoutOKW', 'model: layoutOK = %s, layoutOKW = %s' % (m['ok'], okw))
                continue
        elif not (okw and oku):
            logical = m.get('logical') or text
            if any(DB_RE.search(l) for l in logical.split('\n')) or not in_domain(doc):
                ctx.count(stream + ':regenerated:D4-pattern')
                continue
            ctx.disagree(stream + '-domain', case, 'generator: in domain',
                         'model: docOK2 && layoutOKW = %s, && layoutOKU = %s (layoutOK = %s, layoutOK2 = %s)' % (okw, oku, m['ok'], m.get('ok2')))
            continue
        non = sum(1 for f in FEATS if mask.get(f))
        ctx.seen({'doc': lean_doc(doc), 'lay': c['lay']}, bool(doc['tables'] or doc['hdr']) and (non > 0 or outside))
        res = real_read(ctx, text)
        if not outside:
            _count(ctx, stream, doc, mask, text)
            ctx.count('%s:domain:%s' % (stream, 'layoutOK2' if m.get('ok2') else 'layoutOKW-only'))
            # ---- property oracle
            v = judge(doc, res)
            if v is not None:
                ctx.count('%s:oracle:%s' % (stream, v[0]))
                nsig = ctx.coverage.get('%s:oracle:%s' % (stream, v[0]), 0)
                small = shrink_case(ctx, case, v[0]) if shrink and nsig <= 2 else case
                ctx.violate(v[0], v[1], small)
            else:
                ctx.count(stream + ':oracle:ok')
            # ---- model vs statement: parseFile_layout_w on the bytes, parseFile_layout_univNl on the text-mode text
            want_t = c01.expect(doc, text=True)
            if m['canon'] != want_t:
                ctx.disagree(stream + '-canon', case, want_t, m['canon'])
            for which in ('bin', 'txt'):
                mm = m[which]
                if mm is None:
                    continue
                if mm['parsed'] != {'ok': m['canon']}:
                    ctx.disagree(stream + '-m-' + which, case, m['canon'], mm['parsed'])
            # renders_univNl: the universal-newline text is the rendering of lay.univ
            if m.get('univLay') != m['univ']:
                ctx.disagree(stream + '-univlay', case, m['univ'], m.get('univLay'))
            if m['txt'] is not None:
                ctx.count(stream + ':text-mode-differs')
                if re.search(r'\r(?!\n)', text):
                    ctx.count(stream + ':seen-in-text:lone-cr')
        else:
            kinds = sorted({(res[k].get('err') or 'ok') for k in ('name', 'binary')})
            ctx.count('%s:real:%s' % (stream, '+'.join(kinds)))
            if all('ok' in res[k] for k in ('name', 'binary')) and judge(doc, res) is None:
                # the real reader is right although the model's domain excludes the case: worth knowing
                ctx.count(stream + ':real-reads-the-document')
        for which in ('bin', 'txt'):
            mm = m[which]
            if mm is not None and mm['parsedOld'] != mm['parsedOldS']:
                ctx.disagree(stream + '-sel-generic', case, mm['parsedOld'], mm['parsedOldS'])
        if m['univ'] != text.replace('\r\n', '\n').replace('\r', '\n'):
            ctx.disagree(stream + '-univnl', case, text.replace('\r\n', '\n').replace('\r', '\n'), m['univ'])
        # ---- model vs real, field by field
        for mode, which in (('name', 'txt'), ('text', 'txt'), ('binary', 'bin')):
            mm = m[which] if m[which] is not None else m['bin']
            r = res[mode]
            impl = {'err': r['err']} if 'err' in r else {'ok': r['ok']}
            mod = model_bits(mm['parsed'])
            if outside:
                # outside the domain neither the theorems nor the statement speak: the comparison is information, not a verdict
                # (a false alarm on the unchanged tree, quick seed 36: a column called `char` next to a second bracketed declaration)
                ctx.count('%s:model-vs-real:%s' % (stream, 'same' if impl == mod else 'differs'))
                continue
            if impl != mod:
                ctx.disagree('%s-real-%s' % (stream, mode), case, impl, mod)
            elif 'sym' in r:
                sym = r['sym']
                if mm['structs'] != sym['structs'] or mm['enums'] != sym['enums'] or mm['symbols'] != sym['symbols']:
                    ctx.disagree('%s-symbols-%s' % (stream, mode), case, sym, {k: mm[k] for k in ('structs', 'enums', 'symbols')})
        mm = m['txt'] if m['txt'] is not None else m['bin']
        r = res['raw']
        impl = {'err': r['err']} if 'err' in r else {'ok': r['ok']}
        if outside:
            ctx.count('%s:model-vs-real-raw:%s' % (stream, 'same' if impl == model_raw(mm['raw']) else 'differs'))
        elif impl != model_raw(mm['raw']):
            ctx.disagree(stream + '-real-raw', case, impl, model_raw(mm['raw']))


def _count(ctx, stream, doc, mask, text):
    on = [f for f in FEATS if mask.get(f)]
    ctx.count('%s:nfeat:%d' % (stream, len(on)))
    for f in on:
        ctx.count('%s:feat:%s' % (stream, f))
    for a, b in itertools.combinations(on, 2):
        ctx.count('%s:feat2:%s+%s' % (stream, a, b))
    for g in ('tdlay', 'sameline', 'lonecr'):
        if mask.get(g):
            ctx.count('%s:feat:%s' % (stream, g))
    for f in sorted(feature_scan(text)):
        ctx.count('%s:seen-in-text:%s' % (stream, f))
    ctx.count('%s:tables:%d' % (stream, len(doc['tables'])))
    for t in doc['tables']:
        ctx.count('%s:rows:%d' % (stream, len(t['rows'])))
        if t.get('unsized'):
            ctx.count(stream + ':char[]-columns', len(t['unsized']))
    ctx.count('%s:pairs:%d' % (stream, len(doc['hdr'])))
    names = [t['name'].lower() for t in doc['tables']]
    if any(a != b and a in b for a in names for b in names):
        ctx.count(stream + ':clash:name-in-name')
    words = {c[0].lower() for t in doc['tables'] for c in t['cols']} | {e[1].lower() for e in doc['enums']} | set(CWORDS)
    if any(n in words for n in names):
        ctx.count(stream + ':clash:name-is-column-or-type')


# ---------------------------------------------------------------- shrinking
def _fails(ctx, doc, lay, sig):
    m = c01.drv([{'p': 'C02', 'op': 'lay', 'doc': lean_doc(doc), 'lay': lay}])[0]
    if 'driver_error' in m or m.get('text') is None or not (m.get('okw') and m.get('oku')):
        return None
    v = judge(doc, real_read(ctx, m['text']))
    return m['text'] if (v is not None and v[0] == sig) else None


def shrink_case(ctx, case, sig):
    """layout features one at a time, then the document"""
    doc, mask, lseed, p = case['doc'], dict(case.get('mask') or {}), case.get('lseed'), case.get('p', 0.6)
    if lseed is None:
        return case
    best = dict(case)
    try:
        def attempt(d, mk):
            lay = gen_layout(d, mk, lseed, p)
            t = _fails(ctx, d, lay, sig)
            if t is not None:
                best.update(doc=d, mask=dict(mk), lay=lay, text=t)
                return True
            return False
        if not attempt(doc, mask):
            return case          # the regenerated layout must reproduce the failure
        for f in FEATS + ['tdlay', 'sameline', 'lonecr']:
            if mask.get(f):
                mk = dict(mask)
                mk[f] = False
                if attempt(doc, mk):
                    mask = mk
        doc = best['doc']
        tabs = core.shrink_list(doc['tables'], lambda ts: attempt(dict(doc, tables=ts), mask))
        doc = dict(doc, tables=tabs)
        doc = dict(doc, hdr=core.shrink_list(doc['hdr'], lambda h: attempt(dict(doc, hdr=h), mask)))
        doc = dict(doc, enums=core.shrink_list(doc['enums'], lambda e: attempt(dict(doc, enums=e), mask)))
        for ti in range(len(doc['tables'])):
            t = doc['tables'][ti]

            def put(nt):
                return dict(doc, tables=doc['tables'][:ti] + [nt] + doc['tables'][ti + 1:])
            rows = core.shrink_list(t['rows'], lambda rs: not (t.get('unsized') and not rs) and attempt(put(dict(t, rows=rs)), mask))
            t = dict(t, rows=rows)
            doc = put(t)
            if not t.get('unsized'):
                idx = core.shrink_list(list(range(len(t['cols']))),
                                       lambda ix: attempt(put(dict(t, cols=[t['cols'][i] for i in ix],
                                                                   rows=[[r[i] for i in ix] for r in t['rows']])), mask), minlen=1)
                t = dict(t, cols=[t['cols'][i] for i in idx], rows=[[r[i] for i in idx] for r in t['rows']])
                doc = put(t)
        attempt(doc, mask)
    except Exception:
        pass
    return best


# ---------------------------------------------------------------- streams
def _random_pairs(ctx, n):
    rng = ctx.rng
    cases = []
    while len(cases) < n:
        doc = gen_doc(rng)
        if not in_domain(doc):
            ctx.count('lay:regenerated:D4-pattern')
            continue
        for _ in range(rng.choice([1, 1, 2])):
            mask = gen_mask(rng)
            lseed = rng.getrandbits(48)
            p = rng.choice([0.6, 0.6, 0.9, 1.0])
            cases.append({'doc': doc, 'mask': mask, 'lseed': lseed, 'p': p, 'lay': gen_layout(doc, mask, lseed, p)})
    for i in range(0, len(cases), 600):
        run_cases(ctx, cases[i:i + 600], 'lay')


def clash_docs():
    i4 = lambda n, cols, rows: {'name': n, 'cols': cols, 'rows': rows, 'unsized': []}
    f = lambda x: c01.fcell(8, x)
    docs = []
    # D16: names that contain one another
    docs.append({'hdr': [], 'enums': [], 'tables': [i4('FOO', [['a', 'i4', 0]], [[1], [2]]), i4('FOOBAR', [['b', 'f8', 0]], [[f(2.5)]])]})
    docs.append({'hdr': [['mjd', '54579']], 'enums': [], 'tables': [i4('A', [['x', 'i2', 0]], [[7]]), i4('AB', [['y', 'S3', 0]], [['abc']]),
                                                                  i4('XABC', [['z', 'i8', 2]], [[[1, 2]]])]})
    # D17: a struct named like a column elsewhere
    docs.append({'hdr': [], 'enums': [], 'tables': [i4('FOO', [['a', 'i4', 0]], [[1]]), i4('BAR', [['foo', 'f8', 0]], [[f(2.5)]])]})
    docs.append({'hdr': [], 'enums': [], 'tables': [i4('BAR', [['foo', 'f8', 0], ['a', 'S4', 0]], [[f(2.5), 'zz']]), i4('FOO', [['a', 'i4', 0]], [[1]])]})
    # a struct named like an enum type / a C type word / its own column
    docs.append({'hdr': [], 'enums': [['state', 'STATUS', ['ON', 'OFF']]],
                 'tables': [i4('STATUS', [['state', 'S3', 0], ['n', 'i4', 0]], [['OFF', 3]]), i4('T', [['state', 'S3', 2]], [[['ON', 'OFF']]])]})
    docs.append({'hdr': [], 'enums': [], 'tables': [i4('int', [['int', 'i4', 0]], [[5]]), i4('char', [['s', 'S2', 0], ['char', 'i4', 0]], [['ab', 6]])]})
    docs.append({'hdr': [], 'enums': [], 'tables': [i4('struct', [['a', 'i4', 0]], [[5]]), i4('enum', [['b', 'f4', 0]], [[c01.fcell(4, 1.5)]])]})
    # mixed-case typedef name (only `foo` and `FOO` were found by the old search)
    docs.append({'hdr': [], 'enums': [], 'tables': [i4('Foo', [['a', 'i4', 0]], [[1], [2], [3]])]})
    for d in docs:
        d['comments'] = ''
        d['entry'] = 'ndarray'
    return docs


def _names(ctx):
    rng = ctx.rng
    cases = []
    for doc in clash_docs():
        masks = [{f: False for f in FEATS}, {f: True for f in FEATS}]
        masks[1]['tdlay'] = masks[1]['sameline'] = masks[1]['lonecr'] = True
        for _ in range(ctx.n(2, 12)):
            masks.append(gen_mask(rng))
        for mask in masks:
            if doc['tables'][0]['name'] == 'Foo':
                mask = dict(mask, case=True)
            lseed = rng.getrandbits(48)
            cases.append({'doc': doc, 'mask': mask, 'lseed': lseed, 'p': 0.6, 'lay': gen_layout(doc, mask, lseed, 0.6)})
    run_cases(ctx, cases, 'names')


def exh_doc():
    f = lambda w, x: c01.fcell(w, x)
    return {'comments': '', 'entry': 'ndarray',
            'hdr': [['mjd', '54579'], ['alpha', 'beta gamma "delta"']],
            'enums': [['state', 'STATUS', ['FAILURE', 'INCOMPLETE', 'SUCCESS']]],
            'tables': [
                {'name': 'OBS', 'cols': [['mag', 'f4', 3], ['b', 'S5', 2], ['foo', 'S25', 0], ['c', 'f8', 0], ['flags', 'i4', 2], ['state', 'S10', 0]],
                 'rows': [[[f(4, 17.5), f(4, 17.546), f(4, 16.0)], ['the', 'a b'], 'My dog has no nose.', f(8, 1.24345567), [123123, -1], 'SUCCESS'],
                          [[f(4, 19.3), f(4, 18.2), f(4, 15.9)], ['', '#hash'], '#hashtag', f(8, 2.71828), [321321, 0], 'FAILURE']],
                 'unsized': []},
                {'name': 'OBSLOG', 'cols': [['obs', 'i8', 0], ['timestamp', 'S19', 0]],
                 'rows': [[9007199254740993, '2008-06-21T00:27:33'], [-5, 'x;y']], 'unsized': [1]}]}


def _exhaustive(ctx):
    doc = exh_doc()
    rng = ctx.rng
    cases = []
    for bits in itertools.product([False, True], repeat=len(FEATS)):
        mask = dict(zip(FEATS, bits))
        mask['tdlay'] = rng.random() < 0.5
        mask['sameline'] = rng.random() < 0.4
        mask['lonecr'] = rng.random() < 0.3
        for p in (1.0, 0.6):
            lseed = rng.getrandbits(48)
            cases.append({'doc': doc, 'mask': mask, 'lseed': lseed, 'p': p, 'lay': gen_layout(doc, mask, lseed, p)})
    ctx.count('exh:masks', 2 ** len(FEATS))
    for i in range(0, len(cases), 512):
        run_cases(ctx, cases[i:i + 512], 'exh')


def _qtok(ctx, items=None):
    from pydl.pydlutils.yanny import yanny
    rng = ctx.rng
    if items is None:
        items = []
        for _ in range(ctx.n(6000, 60000)):
            k = rng.randrange(6)
            if k == 0:
                s = c01.gen_str(rng, 8, False)
            elif k == 1:
                s = ''.join(rng.choice(c01.TOK_ALPHA) for _ in range(rng.randrange(0, 8)))
            elif k == 2:
                s = rng.choice(['', 'a', 'a b', '#', 'a#', ' a', 'a ', '{', 'a}', '}', 'x{y', '1e5', '-12', '""', 'it\'s'])
            else:
                s = c01.gen_chars(rng, rng.randrange(0, 8), lambda c: ord(c) < 128 and c != '\x00', lead_brace=True)
            q = rng.choice([0, 1, [''], [' '], [' \t']])
            sep = ''.join(rng.choice(' \t') for _ in range(rng.randrange(0, 4)))
            rest = rng.choice(['', 'x', 'next one', '"q" r', '{a b} c', '5 # c', c01.gen_chars(rng, rng.randrange(0, 6), lambda c: c not in '\n\x00')])
            items.append({'q': q, 's': s, 'tail': sep + rest, 'sep': sep, 'rest': rest})
    outs = []
    for i in range(0, len(items), 1000):
        outs += c01.drv([{'p': 'C02', 'op': 'qtok', 'items': [{k: it[k] for k in ('q', 's', 'tail')} for it in items[i:i + 1000]]}])[0]
    for it, m in zip(items, outs):
        case = dict(it, stream='qtok')
        ctx.seen(case, True)
        q, s = it['q'], it['s']
        text = s if q == 0 else ('"' + s + '"' if q == 1 else '{' + q[0] + s + '}')
        if m['text'] != text + it['tail']:
            ctx.disagree('qtok-text', case, text + it['tail'], m['text'])
            continue
        try:
            w, r = yanny.get_token(text + it['tail'])
            impl = {'ok': [w, r]}
        except Exception as e:
            impl = {'err': core.exc_kind(e)}
        if impl != m['token']:
            ctx.disagree('qtok', case, impl, m['token'])
        legal = (bare_legal(s) if q == 0 else ('"' not in s and '\n' not in s) if q == 1 else (braced_legal(s) and '\n' not in s))
        if legal != m['legal']:
            ctx.disagree('qtok-legal', case, legal, m['legal'])
        style = 'bare' if q == 0 else 'quoted' if q == 1 else 'braced'
        rest_ok = '\n' not in it['rest'] and (it['rest'] == '' or (it['rest'][0] not in WS and len(it['sep']) > 0))
        if legal and rest_ok:
            ctx.count('qtok:legal:' + style)
            # statement: the token and exactly the rest of the line
            if impl != {'ok': [s, it['rest']]}:
                ctx.violate('token:' + style, 'get_token(%r) = %r, expected (%r, %r)' % (text + it['tail'], impl, s, it['rest']), case)
        else:
            ctx.count('qtok:other:' + style)


def _tc(ctx):
    from pydl.pydlutils.yanny import yanny
    rng = ctx.rng
    cases = []
    for _ in range(ctx.n(3000, 30000)):
        l = rng.choice(['mystruct 1234 "#hashtag"', 'a "b # c" d', 'x', '', '"#" "#"', 'k v "odd', '{a b} "c#"']) if rng.random() < 0.4 else \
            ''.join(rng.choice(['a', 'b', ' ', '"', '#', '{', '}', '1', '\t']) for _ in range(rng.randrange(0, 12)))
        ws = ''.join(rng.choice(' \t') for _ in range(rng.randrange(0, 3)))
        c = ''.join(rng.choice(['a', ' ', '"', 'c', ';', '{', '}', '"']) for _ in range(rng.randrange(0, 8)))
        cases.append((l, ws, c))
    outs = []
    lines = [l + ws + '#' + c for l, ws, c in cases]
    for i in range(0, len(lines), 1000):
        outs += c01.drv([{'p': 'C02', 'op': 'tc', 's': lines[i:i + 1000]}])[0]
    for (l, ws, c), line, m in zip(cases, lines, outs):
        case = {'stream': 'tc', 'l': l, 'ws': ws, 'c': c}
        ctx.seen(case, True)
        got = yanny.trailing_comment(line)
        if got != m:
            ctx.disagree('tc', case, got, m)
        if c.count('"') % 2 == 0:
            ctx.count('tc:even-quotes')
            if got != (l + ws).rstrip():
                ctx.violate('trailing-comment:not-stripped', 'trailing_comment(%r) = %r' % (line, got), case)
        else:
            # documented failure ("a real trailing comment contains a single double-quote"): counted, not judged
            ctx.count('tc:odd-quotes:' + ('kept' if got == line else 'stripped'))


def _outside(ctx):
    """directed cases OUTSIDE the domain: two declarations written with brackets on one line of a struct definition
    (`type()` matches `[...]` greedily up to the last `];` of the line).  The property does not speak about them; the
    model must still do what the code does (same exception / same mis-typed columns): differential only."""
    rng = ctx.rng
    cases = []
    tries = 0
    while len(cases) < ctx.n(150, 1500) and tries < 20000:
        tries += 1
        doc = gen_doc(rng, ntab=rng.choice([1, 1, 2]))
        if not in_domain(doc):
            continue
        # no `char name[]` here: when the greedy match ends in `[]`, char_length sizes an array column by its longest value,
        # possibly 0, and numpy refuses ('x', 'S0', (n,)) - a dtype the C01 model accepts (unreachable inside the domain)
        for t in doc['tables']:
            t['unsized'] = []
        mask = gen_mask(rng)
        mask['tdlay'] = True
        lseed = rng.getrandbits(48)
        lay = gen_layout(doc, mask, lseed, 0.6)
        # put two bracketed declarations of one struct on one line
        gen = LayGen(random.Random(lseed), mask, 0.6)
        gen.enum_cols = {e[0] for e in doc['enums']}
        hit = False
        sdefs = [sl for sl in lay['slots'] if sl['k'] == 'sdef']
        for t, sl in zip(doc['tables'], sdefs):
            br = [i for i, c in enumerate(t['cols']) if gen.has_br(c)]
            if len(br) >= 2 and not hit:
                i, j = br[0], br[1]
                for k in range(i + 1, j + 1):
                    sl['cols'][k]['pre'] = rng.choice([' ', '  ', '\t'])
                hit = True
        if hit:
            # a mis-typed array column is read with int()/float() on the text between the braces; Python accepts blanks
            # around a number, C01's model of the conversions refuses them (documented simplification of
            # Model/YannyFile.lean, malformed input only): no padding inside array braces here
            for sl in lay['slots']:
                if sl['k'] == 'row':
                    for _, cl in sl['cells']:
                        if 'op' in cl:
                            cl['op'] = cl['cl'] = ''
            cases.append({'doc': doc, 'mask': mask, 'lseed': None, 'p': 0.6, 'lay': lay})
    for i in range(0, len(cases), 500):
        run_cases(ctx, cases[i:i + 500], 'outside', shrink=False, outside=True)


def enum_as_written(text, enums):
    """the same file with every enum TYPE name in the letter case the document gives it (the model's renderer, like pydl's
    own writer, upper-cases them; the format does not require that): only inside typedef blocks - the name after the closing
    brace of the enum definition and the type word of member declarations"""
    names = {e[1].upper(): e[1] for e in enums if e[1] != e[1].upper()}
    if not names:
        return text

    def sub_words(part):
        return re.sub(r'\b(%s)\b' % '|'.join(re.escape(u) for u in names), lambda m: names[m.group(1)], part)

    def block(m):
        kind, body, tail = m.group(1), m.group(2), m.group(3)
        if kind == 'enum':
            return 'typedef' + m.group('g1') + kind + m.group('g2') + '{' + body + '}' + sub_words(tail)
        return 'typedef' + m.group('g1') + kind + m.group('g2') + '{' + sub_words(body) + '}' + tail
    return re.sub(r'typedef(?P<g1>\s+)(enum|struct)(?P<g2>\s*)\{([^}]*)\}(\s*\w+\s*;)',
                  lambda m: block(_Regroup(m)), text)


class _Regroup:
    """group numbers of the pattern above without the two named blanks"""
    def __init__(self, m):
        self.m = m

    def group(self, k):
        if isinstance(k, str):
            return self.m.group(k)
        return self.m.group({1: 2, 2: 4, 3: 5}[k])


def _enumcase(ctx, cases=None):
    """enum type names written in lower / mixed case (the statement: enum columns read as their label text; names are
    arbitrary identifiers).  The model's renderer upper-cases enum type names as pydl's writer does, so these texts are
    outside the rendering relation of the theorems; the model READER is still compared with the code on them, and the
    statement oracle judges the real reader.  (seeded change C02-21: cache keyed by the upper-cased type name)"""
    rng = ctx.rng
    given = cases is not None
    cases, tries = cases or [], 0
    while not given and len(cases) < ctx.n(120, 1500) and tries < 40000:
        tries += 1
        doc = gen_doc(rng, ntab=rng.choice([1, 1, 2, 3]))
        if not in_domain(doc):
            continue
        used = [e for e in doc['enums'] if e[1] != e[1].upper() and any(c[0] == e[0] for t in doc['tables'] for c in t['cols'])]
        if not used:
            continue
        # a table or column called like the enum type in another letter case would make the substitution ambiguous
        low = {e[1].upper() for e in doc['enums']}
        if any(t['name'].upper() in low or any(c[0].upper() in low for c in t['cols']) for t in doc['tables']):
            continue
        mask = gen_mask(rng)
        lseed = rng.getrandbits(48)
        cases.append({'doc': doc, 'mask': mask, 'lseed': lseed, 'p': 0.6, 'lay': gen_layout(doc, mask, lseed, 0.6)})
    out = c01.drv([{'p': 'C02', 'op': 'lay', 'doc': lean_doc(c['doc']), 'lay': c['lay']} for c in cases], parallel=True, chunk=300)
    todo = []
    for c, m in zip(cases, out):
        if 'driver_error' in m or m.get('text') is None or not (m.get('okw') and m.get('oku')):
            ctx.count('enumcase:regenerated')
            continue
        text = enum_as_written(m['text'], c['doc']['enums'])
        if text == m['text']:
            ctx.count('enumcase:regenerated')
            continue
        todo.append((c, text))
    parsed = c01.drv([{'p': 'C02', 'op': 'parse', 'text': t} for _, t in todo], parallel=True, chunk=300)
    for (c, text), mm in zip(todo, parsed):
        doc = c['doc']
        case = {'stream': 'enumcase', 'doc': doc, 'lay': c['lay'], 'mask': c['mask'], 'lseed': c['lseed'], 'p': 0.6, 'text': text}
        ctx.seen({'doc': lean_doc(doc), 'text': text})
        res = real_read(ctx, text)
        v = judge(doc, res)
        ctx.count('enumcase:oracle:%s' % (v[0] if v else 'ok'))
        if v is not None:
            ctx.violate('enumcase:' + v[0], 'enum type names as written (%s): %s' % (
                ', '.join(e[1] for e in doc['enums']), v[1]), case)
        if 'driver_error' in mm:
            ctx.disagree('enumcase-driver', case, None, mm)
            continue
        for mode in ('name', 'binary'):
            r = res[mode]
            impl = {'err': r['err']} if 'err' in r else {'ok': r['ok']}
            if impl != model_bits(mm['parsed']):
                ctx.disagree('enumcase-real-' + mode, case, impl, model_bits(mm['parsed']))
        r = res['raw']
        impl = {'err': r['err']} if 'err' in r else {'ok': r['ok']}
        if impl != model_raw(mm['raw']):
            ctx.disagree('enumcase-real-raw', case, impl, model_raw(mm['raw']))


def _ensure_driver():
    ok, _ = core.lake_build(['pydl_driver'])
    if not ok:
        core._built.pop(('pydl_driver',), None)
        core.lake_build(['pydl_driver'])


def run(ctx):
    core.audit(ctx, LEAN_MODULES, THEOREMS)
    _ensure_driver()
    _names(ctx)
    _random_pairs(ctx, int(os.environ.get('C02_N', 0)) or ctx.n(3000, 24000))
    _outside(ctx)
    _qtok(ctx)
    _tc(ctx)
    if ctx.tier == 'thorough':
        _exhaustive(ctx)
    else:
        # a slice of the bounded-exhaustive family: the single-feature and all-but-one masks
        doc = exh_doc()
        cases = []
        for f in FEATS:
            for val in (True, False):
                mask = {g: (g == f) == val for g in FEATS}
                mask['tdlay'] = val
                mask['sameline'] = mask['lonecr'] = val
                lseed = ctx.rng.getrandbits(48)
                cases.append({'doc': doc, 'mask': mask, 'lseed': lseed, 'p': 1.0, 'lay': gen_layout(doc, mask, lseed, 1.0)})
        run_cases(ctx, cases, 'exh')
    _enumcase(ctx)


def replay(ctx, case):
    core.audit(ctx, LEAN_MODULES, THEOREMS)
    _ensure_driver()
    s = case.get('stream')
    if s in ('lay', 'names', 'exh', 'outside'):
        def refresh(c):
            if isinstance(c, list):
                return [refresh(x) for x in c]
            return c01.fcell(c['w'], c01.fval(c)) if isinstance(c, dict) else c
        doc = dict(case['doc'])
        doc['tables'] = [dict(t, rows=[[refresh(c) for c in r] for r in t['rows']]) for t in doc['tables']]
        run_cases(ctx, [{'doc': doc, 'lay': case['lay'], 'mask': case.get('mask'), 'lseed': case.get('lseed'), 'p': case.get('p', 0.6)}],
                  s, shrink=False, outside=(s == 'outside'))
    elif s == 'qtok':
        _qtok(ctx, [{k: case[k] for k in ('q', 's', 'tail', 'sep', 'rest')}])
    elif s == 'enumcase':
        _enumcase(ctx, [{'doc': case['doc'], 'lay': case['lay'], 'mask': case.get('mask'), 'lseed': case.get('lseed'), 'p': 0.6}])
    else:
        run(ctx)

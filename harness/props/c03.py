"""C03 - yanny: object and file never diverge over write/append histories (DESIGN §5 C03).

Streams
  hist      op sequences (length 1-12; normal and raw mode; rows given as dict of lists or record
            array, under the lower- or upper-case table key; several tables; header pairs of several
            kinds; write-copy, write-over, append-to-missing, append-nothing, re-read; the two
            environment actions "file removed" and `obj.filename = p`) executed by the REAL yanny
            object on real files in ctx.tmpdir().  After the initial read and after every op the
            object (filename, _contents, _symbols, pairs, tables), the raw bytes of every file of
            the case and the exception / warning kind are compared with the Lean model's `step`.
  hist-or   (property oracle, independent of the model) keeps its own expected document = original
            content followed by every appended row and pair, and the set of existing files, and
            judges after every op: object == expected, fresh yanny(filename) == expected, earlier
            bytes of every file are a prefix of its present bytes, refusals raise and change
            nothing, an empty append only warns and changes nothing, nothing is created by append,
            nothing existing is replaced by write.
  hyp       the two named hypotheses of the `_partial` theorem, evaluated by the driver on every
            accepted step: `front` (an append leaves typedef extraction / continuation joining
            undisturbed) and `render` (after a write the re-parse returns the view that was written).
            (Since the extension round both are THEOREMS on C01's domain: `front_stable`, `render_loop`.)
  dom       the hypotheses of the full theorem `history_content` evaluated on every generated history
            (start document docOK, rawOK, start file = renderFile of the document, histOK) - counts how
            many histories lie inside its domain - and, inside, its conclusion (the view after the
            last op is viewOfDoc of the expected document) on the model run that was just compared
            with pydl.
Failing op sequences are shrunk with core.shrink_list (ops, then appended entries).
"""
import os
import re
import json
import types
import shutil
import warnings
import itertools
import datetime as _real_datetime
import numpy as np
from harness import core
from harness.props import c01

ID = 'C03'
LEAN_MODULES = ['PydlVerif.Props.C03']
P = 'PydlVerif.C03.'
THEOREMS = [P + t for t in (
    'write_existing_refused', 'append_missing_refused', 'append_nothing_warns', 'append_empty_dict_warns',
    'warn_or_refusal_noop', 'write_never_replaces', 'append_never_creates',
    'prefix_preserved', 'prefix_preserved_run',
    'view_always', 'inv_load', 'reread_same', 'inv_step', 'inv_run', 'write_restores_inv',
    'splitNl_append', 'lineLoop_append', 'parse_append', 'chunk_loop',
    'append_content', 'history_content_partial',
    # extension round: the two named hypotheses discharged on C01's document domain, the full theorem
    'front_stable', 'front_appended', 'render_loop', 'track_run', 'history_content', 'history_content_file')]
# FrontStable / RestNl / RenderLoop: hypotheses of history_content_partial, still evaluated by the driver (stream hyp);
# on C01's domain they are proved (front_stable, render_loop) and history_content has no named hypothesis left
RULE = ('op sequences of length 1-12 over documents of 1-3 tables (c01 generator: every column kind, arrays, enums, header pairs), '
        'normal and raw mode, starting from the object returned by write_ndarray_to_yanny or from a fresh read; '
        'a case is non-trivial when at least one op is accepted and changes a file; distinct = distinct case payloads')
TRUSTED = ['hand-written model lean/PydlVerif/Model/YannyHist.lean (on top of C01\'s Yanny{Tok,Row,File}.lean) tied to the code by the correspondence of this run',
           'os.access / open(...,"w"|"a") / f.read(): the file system is a map path -> text; OS-level atomicity of append is not covered',
           'datetime.utcnow() is replaced by a stub inside pydl.pydlutils.yanny for the duration of a case (the time stamp is an input of the model)',
           'float <-> text conversion: a float cell is the text protect() prints (C01 h1/h2, sampled there)']
ASSUMPTIONS = ['cells, header values and names are in C01\'s domain (ASCII, no double quote, no {{}}-like pattern, no typedef text, no line ending in a backslash, strings fit their column, integers fit their type, enum cells are labels)',
               'header values are compared after str.strip; an appended pair whose key already exists replaces the value in place (dictionary semantics)',
               'the key "symbols" and a mixed-case spelling of a table name are ignored by append() by design (docstring: "not necessary to reproduce the symbols dictionary"); the oracle counts them as appending nothing',
               'list-valued rows carry values of the column type (np.float32 for float columns), so that the text written is the canonical text of the value',
               'files end with a newline (every file pydl writes does); the object is not used after its own _parse raised',
               'the file is only touched through the object, except for the two explicit environment actions of the model (unlink, rebind)']
LEVEL_TEXT = ('Lean 4 theorems over an executable state machine (file system + one yanny object) that follows write()/append()/_parse(): '
              'refusals and the empty append change nothing, write never replaces and append never creates a file, every file only grows by '
              'suffixes under the object\'s own operations, the coherence invariant (file = _contents, object = _parse(_contents)) is preserved by '
              'every operation and over every history (induction), an accepted append extends the parsed document by exactly the appended pairs '
              'and rows (built on C01\'s line theorems); and the full statement history_content: for every history of the object\'s operations that '
              'starts from the file written for a C01-domain document (docOK) and stays in that domain (histOK, decidable: every accepted append '
              'adds docOK rows/pairs, every accepted write renders a docOK document), the object\'s text reads as the initial document followed by '
              'every accepted appended pair and row in order, object and file agree, and the object\'s view is exactly that document - in normal '
              'mode the record arrays with canonical column types and unchanged cells (C01 finish_render), in raw mode the lists. '
              'Plus correspondence of real op sequences on real files with the model and an independent statement-level oracle.')
LEVEL_NOTE = ('history_content_partial (kept) had two named hypotheses; both are now proved on C01\'s document domain: FrontStable by front_stable / '
              'front_appended (the lines append() builds contain no typedef, no newline, no continuation mark, so front(text ++ chunk) = front(text) '
              'with the lines appended to the rest), RenderLoop by render_loop (renderView of the view of a document = C01 textOf of that document, '
              'then C01 front_render/typing_render/loop_render); history_content assembles them by induction (track_run) and has no named hypothesis. '
              'Its side conditions are decidable and evaluated by the driver on every generated history (stream dom: about half of the generated '
              'histories are inside; the others contain an environment op - unlink/rebind - or are raw mode with a float32 column). '
              'Still outside: raw mode with a float32 column (the datum reads back as binary64; correspondence and oracle only); the per-line D4 '
              'exclusions (double-brace pattern, typedef text, trailing backslash) that docOK carries; floats by C01 H1/H2 (hypotheses of the theorems, '
              'sampled by C01). An accepted write is required to render a docOK document (re-checked per write, not derived from the appended cells).')


PEXC = 'PydlException:PydlutilsException'
_counter = itertools.count()


# ---------------------------------------------------------------- generation
def gen_stamp(rng):
    return [rng.randrange(1990, 2100), rng.randrange(1, 13), rng.randrange(1, 29), rng.randrange(24), rng.randrange(60), rng.randrange(60)]


def stamp_text(s):
    return '%04d-%02d-%02d %02d:%02d:%02d UTC' % tuple(s)


def gen_cell(rng, doc, col, last):
    name, ty, alen = col
    enum_cols = {e[0]: e for e in doc['enums']}

    def one(arr):
        if ty in c01.IRANGE:
            return c01.gen_int(rng, ty)
        if ty in ('f4', 'f8'):
            return c01.fcell(int(ty[1]), c01.gen_float(rng, int(ty[1])))
        n = int(ty[1:])
        if name in enum_cols:
            labs = [l for l in enum_cols[name][2] if len(l) <= n]
            return rng.choice(labs) if labs else c01.gen_str(rng, 0, arr)
        return c01.gen_str(rng, n, arr)
    if alen:
        return [one(True) for _ in range(alen)]
    v = one(False)
    if last and isinstance(v, str) and v.endswith('\\') and not c01._needs_quote(v):
        v = v[:-1] + '/'
    return v


def gen_rows(rng, doc, t, n):
    return [[gen_cell(rng, doc, c, ci == len(t['cols']) - 1) for ci, c in enumerate(t['cols'])] for _ in range(n)]


def gen_pair(rng, used, tnames):
    for _ in range(200):
        k = rng.randrange(4)
        if k == 0:
            key = c01.gen_ident(rng, used, pool=['mjd', 'name', 'keyword1', 'run', 'note'])
        else:
            key = c01.gen_chars(rng, rng.randrange(1, 8), lambda c: 33 <= ord(c) <= 126 and c != '#', flavour=rng.choice([0, 3, 4]))
            if key[0] in '"{':
                key = 'k' + key[1:]
            if key.endswith('\\'):
                key = key[:-1] + 'k'
        if key in used or key.upper() in {t.upper() for t in tnames} or key == 'symbols':
            continue
        k = rng.randrange(8)
        if k == 0:
            val = rng.randrange(-10**6, 10**6)
        elif k == 1:
            val = rng.choice([1.5, -2.25e-7, 1e300, float(rng.randrange(100))])
        elif k == 2:
            val = rng.choice(['', ' ', '  lead', 'trail  ', ' both ', 'say "hi" there', 'a  b', '{x} {y}', 'semi;colon', "it's"])
        else:
            val = c01.gen_chars(rng, rng.randrange(0, 16), lambda c: ord(c) < 128 and c not in '\n\r\x00#', lead_brace=True)
        if isinstance(val, str) and val.rstrip().endswith('\\'):
            val = val.rstrip()[:-1] + '/'
        return key, val
    raise RuntimeError('no key')


def entry_lines(e):
    """the lines an append entry will produce (domain classification only)"""
    if 'pair' in e:
        return [e['key'] + ' ' + '{0}'.format(e['pair'])]
    out = []
    for r in e['rows']:
        cells = []
        for c in r:
            cells.append('{' + ' '.join(c01._protect(x) for x in c) + '}' if isinstance(c, list) else c01._protect(c))
        out.append(' '.join([e['table']] + cells))
    return out


def lines_ok(lines):
    return not any(c01.DB_RE.search(l) or 'typedef' in l for l in lines)


def gen_case(rng, maxops=12):
    while True:
        doc = c01.gen_doc(rng, ntab=rng.choice([1, 1, 1, 2, 2, 3]))
        if c01.in_domain(doc):
            break
    raw = rng.random() < 0.4
    start = 'read' if raw or rng.random() < 0.4 else 'ret'
    names = ['f%d.par' % i for i in range(40)]
    nxt = itertools.count(1)
    cur = names[0]
    exists = {cur}
    bound = True
    tnames = [t['name'] for t in doc['tables']]
    keys = [k for k, _ in doc['hdr']]
    nops = rng.randrange(1, maxops + 1)
    ops = []
    while len(ops) < nops:
        k = rng.randrange(100)
        present = cur in exists
        if k < 30:
            # append rows to 1..all tables
            ts = [t for t in doc['tables'] if rng.random() < 0.7] or [rng.choice(doc['tables'])]
            entries = []
            for t in ts:
                n = rng.choice([1, 1, 2, 3])
                key = t['name'].lower() if rng.random() < 0.5 else t['name'].upper()
                entries.append({'key': key, 'table': t['name'].upper(), 'as': rng.choice(['lists', 'rec']),
                                'cols': [c[0] for c in t['cols']], 'rows': gen_rows(rng, doc, t, n)})
            if rng.random() < 0.3:
                key, val = gen_pair(rng, set(keys), tnames)
                entries.insert(rng.randrange(len(entries) + 1), {'key': key, 'pair': val})
            op = {'k': 'append', 'stamp': gen_stamp(rng), 'entries': entries}
        elif k < 45:
            entries = []
            used = set(keys)
            for _ in range(rng.choice([1, 1, 2, 3])):
                if keys and rng.random() < 0.12:
                    key = rng.choice(keys)
                    _, val = gen_pair(rng, set(), tnames)
                else:
                    key, val = gen_pair(rng, used, tnames)
                if key in {e['key'] for e in entries}:
                    continue
                used.add(key)
                entries.append({'key': key, 'pair': val})
            op = {'k': 'append', 'stamp': gen_stamp(rng), 'entries': entries}
        elif k < 53:
            # appending nothing
            j = rng.randrange(5)
            if j == 0:
                entries = []
            elif j == 1:
                t = rng.choice(doc['tables'])
                entries = [{'key': rng.choice([t['name'].lower(), t['name'].upper()]), 'table': t['name'].upper(), 'as': rng.choice(['lists', 'rec']),
                            'cols': [c[0] for c in t['cols']], 'rows': []}]
            elif j == 2:
                entries = [{'key': 'symbols', 'pair': rng.choice(['x', 5, ''])}]
            elif j == 3:
                t = rng.choice(doc['tables'])
                mixed = t['name'].lower()[:1].upper() + t['name'].lower()[1:-1] + t['name'].lower()[-1:].upper() + ''
                # append() takes a key that is the lower- or upper-case spelling of ANY table name (C01's generator makes
                # names that contain one another, e.g. `d` and `dd`: the mixed spelling `DD` of `d` names the table `dd`)
                if any(mixed in (x.lower(), x.upper()) for x in tnames):
                    entries = []
                else:
                    entries = [{'key': mixed, 'pair': 3}]
            else:
                entries = []
            op = {'k': 'append', 'stamp': gen_stamp(rng), 'entries': entries}
        elif k < 65:
            # write a copy under a new name
            p = names[next(nxt)]
            cm = rng.choice([None, None, 'copy', '#copy two', ['a', 'b c'], [], ''])
            op = {'k': 'write', 'p': p, 'cm': cm, 'stamp': gen_stamp(rng)}
        elif k < 74:
            # write over an existing file: no name (own file) or an explicit existing name
            if rng.random() < 0.5 or not exists:
                p = None
            else:
                p = rng.choice(sorted(exists))
            op = {'k': 'write', 'p': p, 'cm': rng.choice([None, 'over']), 'stamp': gen_stamp(rng)}
        elif k < 82:
            if not present and rng.random() < 0.5:
                continue
            op = {'k': 'reread'}
            if not present:
                continue
        elif k < 88:
            op = {'k': 'unlink'} if rng.random() < 0.5 and present else {'k': 'rebind', 'p': names[next(nxt)]}
        elif k < 91:
            op = {'k': 'nondict'}
        elif k < 96:
            # a dictionary that does not describe the table: missing column / short column
            t = rng.choice(doc['tables'])
            if len(t['cols']) < 2:
                continue
            e = {'key': rng.choice([t['name'].lower(), t['name'].upper()]), 'table': t['name'].upper(), 'as': 'lists',
                 'cols': [c[0] for c in t['cols']], 'rows': gen_rows(rng, doc, t, rng.choice([1, 2]))}
            victim = rng.choice(e['cols'][1:])
            e[rng.choice(['drop', 'short'])] = victim
            op = {'k': 'append', 'stamp': gen_stamp(rng), 'entries': [e]}
        else:
            # both spellings of the key at once is outside the statement; a plain row append instead
            t = rng.choice(doc['tables'])
            op = {'k': 'append', 'stamp': gen_stamp(rng),
                  'entries': [{'key': t['name'].upper(), 'table': t['name'].upper(), 'as': 'rec', 'cols': [c[0] for c in t['cols']],
                               'rows': gen_rows(rng, doc, t, 1)}]}
        if op['k'] == 'append':
            ls = [l for e in op['entries'] for l in entry_lines(e)]
            if not lines_ok(ls):
                continue
        # bookkeeping for the generator only
        if op['k'] == 'write':
            tgt = op['p'] if op['p'] is not None else cur
            if tgt not in exists:
                exists.add(tgt)
                cur = tgt
        elif op['k'] == 'unlink':
            exists.discard(cur)
        elif op['k'] == 'rebind':
            cur = op['p']
        elif op['k'] == 'append' and cur in exists:
            for e in op['entries']:
                if 'pair' in e and e['key'] != 'symbols' and e['key'].upper() not in {t.upper() for t in tnames} and e['key'] not in keys:
                    if not any('drop' in x or 'short' in x for x in op['entries']):
                        keys.append(e['key'])
        ops.append(op)
    return {'raw': raw, 'start': start, 'doc': {k: doc[k] for k in ('comments', 'carg', 'hdr', 'enums', 'tables', 'entry')}, 'ops': ops}


# ---------------------------------------------------------------- real execution
class _FakeDatetimeModule:
    """stands in for the `datetime` module inside pydl.pydlutils.yanny"""
    def __init__(self):
        self.now = (2000, 1, 1, 0, 0, 0)
        outer = self

        class datetime:
            @staticmethod
            def utcnow():
                return _real_datetime.datetime(*outer.now)
        self.datetime = datetime


def table_of(doc, NAME):
    for t in doc['tables']:
        if t['name'].upper() == NAME:
            return t
    raise KeyError(NAME)


def py_value(c, ty):
    if isinstance(c, dict):
        v = c01.fval(c)
        return v if c['w'] == 4 else float(v)
    return c


def build_datatable(doc, entries):
    dt = {}
    for e in entries:
        if 'pair' in e:
            dt[e['key']] = e['pair']
            continue
        t = table_of(doc, e['table'])
        if e['as'] == 'rec':
            dt[e['key']] = c01.make_arrays({'tables': [{'name': t['name'], 'cols': t['cols'], 'rows': e['rows']}]})[0]
        else:
            d = {}
            for ci, c in enumerate(t['cols']):
                col = []
                for r in e['rows']:
                    v = r[ci]
                    col.append([py_value(x, c[1]) for x in v] if isinstance(v, list) else py_value(v, c[1]))
                d[c[0]] = col
            if 'drop' in e:
                del d[e['drop']]
            if 'short' in e:
                d[e['short']] = d[e['short']][:-1]
            dt[e['key']] = d
    return dt


def obs_cell_raw(x):
    if isinstance(x, list):
        return [obs_cell_raw(v) for v in x]
    if isinstance(x, float):
        return {'w': 8, 'b': 'nan' if x != x else c01.f64bits(x)}
    if isinstance(x, (int, np.integer)):
        return int(x)
    return str(x)


def observe_obj(par):
    """what the object holds: symbols, pairs, tables (record arrays, or lists in raw mode)"""
    tabs = []
    for t in par.tables():
        cols = list(par.columns(t))
        if par.raw:
            d = par[t]
            n = len(d[cols[0]]) if cols else 0
            ragged = any(len(d[c]) != n for c in cols)
            rows = [[obs_cell_raw(d[c][k]) for c in cols] for k in range(n)] if not ragged else 'ragged'
            tabs.append({'name': t, 'cols': cols, 'types': None, 'rows': rows})
        else:
            o = c01.observe_table(par[t], t, cols)
            tabs.append({'name': t, 'cols': cols, 'types': o['cols'], 'rows': o['rows']})
    return {'structs': list(par._symbols.get('struct', [])), 'enums': list(par._symbols.get('enum', [])),
            'symbols': [[t, list(par.columns(t))] for t in par.tables()],
            'pairs': [[k, par[k]] for k in par.pairs()], 'tables': tabs}


def snapshot(par, base, names, want_reread=True):
    from pydl.pydlutils.yanny import yanny
    files = {}
    for n in names:
        p = os.path.join(base, n)
        files[n] = open(p, 'rb').read().decode('latin-1') if os.path.exists(p) else None
    s = {'filename': par.filename, 'contents': par._contents, 'view': observe_obj(par), 'files': files}
    if want_reread and par.filename and os.path.exists(par.filename):
        try:
            s['reread'] = observe_obj(yanny(par.filename, raw=par.raw))
        except Exception as e:
            s['reread'] = {'err': core.exc_kind(e)}
    return s


def case_names(case):
    names = ['f0.par']
    for op in case['ops']:
        if op.get('p') and op['p'] not in names:
            names.append(op['p'])
    return names


def execute(ctx, case):
    """run the case on the real code; returns (base, trace) with trace = {'init': snap, 'steps': [snap+out]}"""
    import pydl.pydlutils.yanny as ymod
    from pydl.pydlutils.yanny import yanny, write_ndarray_to_yanny
    from pydl.pydlutils import PydlutilsUserWarning
    doc = case['doc']
    base = os.path.join(ctx.tmpdir(), 'h%d' % next(_counter))
    os.makedirs(base)
    names = case_names(case)
    fake = _FakeDatetimeModule()
    saved = ymod.datetime
    ymod.datetime = fake
    trace = {'steps': []}
    try:
        fn = os.path.join(base, 'f0.par')
        arrs = c01.make_arrays(doc)
        enums = {e[0]: (e[1], e[2]) for e in doc['enums']} if doc['enums'] else None
        hdr = dict((k, v) for k, v in doc['hdr']) if doc['hdr'] else None
        fake.now = (2026, 1, 1, 0, 0, 0)
        par = write_ndarray_to_yanny(fn, arrs, structnames=[t['name'] for t in doc['tables']], enums=enums, hdr=hdr, comments=doc['carg'])
        if case['start'] == 'read':
            par = yanny(fn, raw=case['raw'])
        trace['init'] = snapshot(par, base, names)
        for op in case['ops']:
            out = 'ok'
            with warnings.catch_warnings(record=True) as wl:
                warnings.simplefilter('always')
                try:
                    if op['k'] == 'write':
                        fake.now = tuple(op['stamp'])
                        par.write(os.path.join(base, op['p']) if op['p'] is not None else None, comments=op['cm'])
                    elif op['k'] == 'append':
                        fake.now = tuple(op['stamp'])
                        par.append(build_datatable(doc, op['entries']))
                    elif op['k'] == 'nondict':
                        par.append([1, 2])
                    elif op['k'] == 'reread':
                        par = yanny(par.filename, raw=par.raw)
                    elif op['k'] == 'unlink':
                        os.remove(par.filename)
                    elif op['k'] == 'rebind':
                        par.filename = os.path.join(base, op['p'])
                    else:
                        raise RuntimeError('unknown op')
                except Exception as e:
                    out = {'error': core.exc_kind(e), 'msg': str(e)[:160]}
            if out == 'ok' and any(issubclass(w.category, PydlutilsUserWarning) for w in wl):
                out = 'warn'
            s = snapshot(par, base, names)
            s['out'] = out
            trace['steps'].append(s)
    except Exception as e:
        trace['setup_error'] = '%s: %s' % (core.exc_kind(e), str(e)[:200])
    finally:
        ymod.datetime = saved
        shutil.rmtree(base, ignore_errors=True)
    return base, trace


# ---------------------------------------------------------------- model side
def lean_cell(c):
    if isinstance(c, list):
        return [lean_cell(x) for x in c]
    if isinstance(c, dict):
        return {'w': c['w'], 't': c['t']}
    return c


def lean_ops(case, base):
    doc = case['doc']
    out = []
    for op in case['ops']:
        if op['k'] == 'write':
            cm = op['cm']
            j = {'d': stamp_text(op['stamp'])} if cm is None else ({'s': cm} if isinstance(cm, str) else {'l': list(cm)})
            out.append({'k': 'write', 'p': os.path.join(base, op['p']) if op['p'] is not None else None, 'cm': j})
        elif op['k'] == 'append':
            data = []
            for e in op['entries']:
                if 'pair' in e:
                    data.append([e['key'], {'t': '{0}'.format(e['pair'])}])
                else:
                    t = table_of(doc, e['table'])
                    cols = []
                    for ci, c in enumerate(t['cols']):
                        if e.get('drop') == c[0]:
                            continue
                        cells = [lean_cell(r[ci]) for r in e['rows']]
                        if e.get('short') == c[0]:
                            cells = cells[:-1]
                        cols.append([c[0], cells])
                    data.append([e['key'], {'c': cols}])
            out.append({'k': 'append', 'stamp': stamp_text(op['stamp']), 'data': data})
        elif op['k'] == 'rebind':
            out.append({'k': 'rebind', 'p': os.path.join(base, op['p'])})
        else:
            out.append({'k': op['k']})
    return out


def start_doc(doc):
    """the document (C01 driver format) the start file f0.par is `renderFile` of: the default comment
    block names the file actually written"""
    d = c01.lean_doc(doc)
    if doc.get('carg') is None:
        d['comments'] = d['comments'].replace('# file.par\n', '# f0.par\n')
    return d


def model_line(case, base, text0):
    names = case_names(case)
    return {'p': 'C03', 'op': 'run', 'raw': bool(case['raw']), 'files': [[os.path.join(base, 'f0.par'), text0]],
            'start': os.path.join(base, 'f0.par'), 'paths': [os.path.join(base, n) for n in names], 'ops': lean_ops(case, base),
            'doc': start_doc(case['doc'])}


def judge_domain(ctx, stream, case, m):
    """hypotheses and conclusion of the theorem `history_content` on this history (evaluated by the driver):
    counts whether the generated history lies inside the theorem's domain and, if so, requires its conclusion
    (the view after the last op is viewOfDoc of the expected document) of the model run just compared with pydl"""
    dom = m.get('dom')
    if not dom:
        return
    env = [op['k'] for op in case['ops'] if op['k'] in ('unlink', 'rebind')]
    if not dom['docok']:
        why = 'out:start-document-not-docOK'
    elif not dom['rawok']:
        why = 'out:raw-mode-float32-column'
    elif not dom['text']:
        why = 'out:start-file-is-not-renderFile'
    elif not dom['hist']:
        bad = dom.get('bad')
        k = case['ops'][bad]['k'] if bad is not None and 0 <= bad < len(case['ops']) else '?'
        why = 'out:environment-op(%s)' % k if k in ('unlink', 'rebind') else 'out:%s-leaves-docOK' % k
    else:
        why = 'in'
    ctx.count('dom:%s' % why)
    if why == 'in':
        ctx.count('dom:in:ops:%d' % len(case['ops']))
        if env:
            ctx.disagree('dom', {'stream': stream, 'case': case}, 'environment op present', 'histOK accepted a history with %s' % env)
        if dom['final'] is not True:
            ctx.disagree('dom', {'stream': stream, 'case': case}, 'history inside the domain of history_content',
                         'conclusion false: final view is not viewOfDoc(histDoc)')
        else:
            ctx.count('dom:in:conclusion-holds')


def fbits(w, t):
    x = float(t)
    if x != x:
        return 'nan'
    return c01.f32bits(np.float32(x)) if w == 4 else c01.f64bits(x)


def canon_model_view(v, raw):
    """model view -> the shape observe_obj produces (float texts to bit patterns)"""
    if 'err' in v:
        return v
    v = v['ok']

    def cell(c):
        if isinstance(c, list):
            return [cell(x) for x in c]
        if isinstance(c, dict):
            return {'w': 8, 'b': fbits(8, c['t'])} if raw else {'w': c['w'], 'b': fbits(c['w'], c['t'])}
        return c
    return {'structs': v['structs'], 'enums': v['enums'], 'symbols': v['symbols'], 'pairs': v['pairs'],
            'tables': [{'name': t['name'], 'cols': t['cols'], 'types': t['types'],
                        'rows': [[cell(c) for c in r] for r in t['rows']]} for t in v['tables']]}


def canon_model_state(st, base, raw):
    return {'filename': st['filename'], 'contents': st['contents'], 'view': canon_model_view(st['view'], raw),
            'files': {os.path.basename(p): t for p, t in st['files']}}


def canon_out_model(o):
    if isinstance(o, dict):
        k = o['error']
        return {'error': {'PydlutilsException': PEXC, 'FileNotFoundError': 'Other:FileNotFoundError'}.get(k, k)}
    return o


def canon_out_real(o):
    return {'error': o['error']} if isinstance(o, dict) else o


def compare(ctx, case, trace, m):
    """correspondence: every observable after every op; returns the index of the first differing step or None"""
    raw = case['raw']

    def diff(i, real, mod, out_m=None):
        ms = canon_model_state(mod, None, raw)
        rs = {'filename': real['filename'], 'contents': real['contents'], 'view': real['view'], 'files': real['files']}
        d = c01.first_diff(rs, ms)
        if d is None and out_m is not None and canon_out_real(real['out']) != canon_out_model(out_m):
            d = '.out: %r vs %r' % (real['out'], out_m)
        return d
    d = diff(-1, trace['init'], m['init'])
    if d:
        return -1, d
    for i, (r, ms) in enumerate(zip(trace['steps'], m['steps'])):
        d = diff(i, r, ms['state'], ms['out'])
        if d:
            return i, d
    return None


# ---------------------------------------------------------------- statement-level oracle (independent of the model)
def expected_doc(doc):
    return c01.expect(doc)


def exp_cell(c):
    if isinstance(c, list):
        return [exp_cell(x) for x in c]
    if isinstance(c, dict):
        return {'w': c['w'], 'b': c['b']}
    return c


def compare_with_expected(view, exp, raw):
    """object / re-read view against the expected document; None or a short description"""
    if 'err' in view:
        return 'read raised %s' % view['err']
    if view['pairs'] != exp['pairs']:
        return c01.first_diff(exp['pairs'], view['pairs'], '.pairs') or 'pairs differ'
    if [t['name'] for t in view['tables']] != [t['name'] for t in exp['tables']]:
        return 'tables: %r vs %r' % ([t['name'] for t in view['tables']], [t['name'] for t in exp['tables']])
    for tv, te in zip(view['tables'], exp['tables']):
        if tv['cols'] != [c[0] for c in te['cols']]:
            return '%s: columns %r vs %r' % (te['name'], tv['cols'], [c[0] for c in te['cols']])
        if not raw and tv['types'] != te['cols']:
            return '%s: column types %r vs %r' % (te['name'], tv['types'], te['cols'])
        if tv['rows'] == 'ragged':
            return '%s: ragged columns' % te['name']
        if len(tv['rows']) != len(te['rows']):
            return '%s: %d rows, expected %d' % (te['name'], len(tv['rows']), len(te['rows']))
        for k, (rv, re_) in enumerate(zip(tv['rows'], te['rows'])):
            for (cn, ty, alen), a, b in zip(te['cols'], rv, re_):
                if raw and ty == 'f4':
                    def narrow(x):
                        if not isinstance(x, dict):        # a cell of another kind than the column's type is an answer
                            return x
                        if x['b'] == 'nan':
                            return {'w': 4, 'b': 'nan'}
                        return {'w': 4, 'b': c01.f32bits(np.float32(c01.fval(x)))}
                    a = [narrow(x) for x in a] if isinstance(a, list) else narrow(a)
                if a != b:
                    return '%s row %d column %s: %r, expected %r' % (te['name'], k, cn, a, b)
    return None


def nothing_to_append(doc, entries):
    tn = {t['name'].upper() for t in doc['tables']}
    for e in entries:
        if 'pair' in e:
            if e['key'] == 'symbols' or e['key'].upper() in tn:
                continue
            return False
        if e['rows'] and e['key'] in (e['table'].lower(), e['table'].upper()):
            return False
    return True


def oracle(case, trace):
    """None, or (signature, what, step)"""
    doc = case['doc']
    raw = case['raw']
    if 'setup_error' in trace:
        return ('setup:exception', trace['setup_error'], -1)
    exp = expected_doc(doc)
    empty = {'pairs': [], 'tables': []}
    prev = trace['init']
    d = compare_with_expected(prev['view'], exp, raw)
    if d:
        return ('initial:object', d, -1)
    cur = 'f0.par'
    for i, (op, s) in enumerate(zip(case['ops'], trace['steps'])):
        out = s['out']
        kind = 'error' if isinstance(out, dict) else out
        files0, files1 = prev['files'], s['files']
        present = files0.get(cur) is not None
        unchanged = True      # what the statement predicts for files and object
        want = None           # predicted outcome class
        if op['k'] == 'write':
            tgt = op['p'] if op['p'] is not None else cur
            if files0.get(tgt) is not None:
                want, what = 'error', 'write-over'
            else:
                want, what, unchanged = 'ok', 'write-new', False
                cur_after = tgt
        elif op['k'] == 'append':
            bad = any('drop' in e or 'short' in e for e in op['entries'])
            if bad:
                want, what = 'error', 'append-bad-columns'
            elif nothing_to_append(doc, op['entries']):
                want, what = ('warn', 'append-nothing') if present else ('warn|error', 'append-nothing-missing')
            elif not present:
                want, what = 'error', 'append-missing'
            else:
                want, what, unchanged = 'ok', 'append', False
        elif op['k'] == 'nondict':
            want, what = 'error', 'append-nondict'
        elif op['k'] == 'reread':
            want, what = 'ok', 'reread'
        elif op['k'] == 'unlink':
            want, what, unchanged = 'ok', 'env-unlink', False
        else:
            want, what = 'ok', 'env-rebind'
        if kind not in want.split('|'):
            return ('%s:outcome:%s-instead-of-%s' % (what, kind if kind != 'error' else out['error'], want),
                    '%s: outcome %r, the statement requires %s' % (what, out, want), i)
        # files
        for n in files0:
            a, b = files0[n], files1[n]
            if what == 'env-unlink' and n == cur:
                continue
            if a is None and b is not None and not (what == 'write-new' and n == (op['p'] if op['p'] is not None else cur)):
                return (what + ':file-created', 'file %s appeared' % n, i)
            if a is not None and b is None:
                return (what + ':file-removed', 'file %s disappeared' % n, i)
            if a is not None and not b.startswith(a):
                return (what + ':earlier-bytes-changed', 'file %s: earlier bytes are not a prefix of the present bytes' % n, i)
            if a is not None and a != b and not (what == 'append' and n == cur):
                return (what + ':file-changed', 'file %s changed' % n, i)
        # expected document
        if what == 'append':
            for e in op['entries']:
                if 'pair' in e:
                    if e['key'] == 'symbols' or e['key'].upper() in {t['name'] for t in exp['tables']}:
                        continue
                    txt = '{0}'.format(e['pair']).strip()
                    hit = [p for p in exp['pairs'] if p[0] == e['key']]
                    if hit:
                        hit[0][1] = txt
                    else:
                        exp['pairs'].append([e['key'], txt])
                elif e['key'] in (e['table'].lower(), e['table'].upper()):
                    for t in exp['tables']:
                        if t['name'] == e['table']:
                            t['rows'].extend([[exp_cell(c) for c in r] for r in e['rows']])
            if files1[cur] == files0[cur]:
                return ('append:file-not-extended', 'accepted append did not extend the file', i)
        if what == 'write-new':
            cur = cur_after
        if what == 'env-rebind':
            cur = op['p']
        # object
        if s['filename'] != ('' if cur is None else os.path.join(os.path.dirname(trace['init']['filename']), cur)):
            return (what + ':filename', 'filename %r, expected %s' % (s['filename'], cur), i)
        d = compare_with_expected(s['view'], exp, raw)
        if d:
            return (what + ':object', 'object differs from original content + appended rows/pairs: ' + d, i)
        if unchanged and what not in ('reread',) and (s['view'] != prev['view'] or s['contents'] != prev['contents']):
            return (what + ':object-changed', 'object changed by a refused / empty request', i)
        if files1.get(cur) is not None:
            if 'reread' not in s:
                return (what + ':no-reread', 'file exists but was not re-read', i)
            d = compare_with_expected(s['reread'], exp, raw)
            if d:
                return (what + ':reread', 'fresh yanny(filename) differs from original content + appended rows/pairs: ' + d, i)
            if s['contents'] != files1[cur]:
                return (what + ':contents-vs-file', 'object text differs from the bytes of its file', i)
        prev = s
    return None


# ---------------------------------------------------------------- driver / streams
def _ensure_driver():
    ok, log = core.lake_build(['pydl_driver'])
    if not ok:
        core._built.pop(('pydl_driver',), None)
        core.lake_build(['pydl_driver'])


def classify_ops(case, trace):
    """distribution keys: what each op turned out to be"""
    keys = []
    for op, s in zip(case['ops'], trace.get('steps', [])):
        out = s['out']
        o = out['error'] if isinstance(out, dict) else out
        if op['k'] == 'append':
            kinds = set()
            for e in op['entries']:
                kinds.add('pair' if 'pair' in e else ('rows-' + e['as'] + ('-lower' if e['key'] == e['key'].lower() and e['key'] != e['key'].upper() else '-upper')))
            keys.append('append[%s]:%s' % ('+'.join(sorted(kinds)) or 'nothing', o))
        elif op['k'] == 'write':
            keys.append('write[%s,%s]:%s' % ('name' if op['p'] else 'noname', 'default' if op['cm'] is None else type(op['cm']).__name__, o))
        else:
            keys.append('%s:%s' % (op['k'], o))
    return keys


def shrink_case(ctx, case, sig):
    def fails(c):
        _, tr = execute(ctx, c)
        r = oracle(c, tr)
        return r is not None and r[0] == sig
    try:
        ops = core.shrink_list(case['ops'], lambda o: fails(dict(case, ops=o)))
        case = dict(case, ops=ops)
        for i, op in enumerate(case['ops']):
            if op['k'] == 'append' and len(op['entries']) > 1:
                ents = core.shrink_list(op['entries'], lambda es: fails(dict(case, ops=case['ops'][:i] + [dict(op, entries=es)] + case['ops'][i + 1:])))
                case = dict(case, ops=case['ops'][:i] + [dict(op, entries=ents)] + case['ops'][i + 1:])
        d = case['doc']
        tabs = core.shrink_list(d['tables'], lambda ts: fails(dict(case, doc=dict(d, tables=ts))), minlen=1)
        case = dict(case, doc=dict(d, tables=tabs))
        d = case['doc']
        hdr = core.shrink_list(d['hdr'], lambda h: fails(dict(case, doc=dict(d, hdr=h))))
        case = dict(case, doc=dict(d, hdr=hdr))
    except Exception:
        pass
    return case


def _cases(ctx, cases, stream='hist'):
    execs = [execute(ctx, c) for c in cases]
    lines = []
    for c, (base, tr) in zip(cases, execs):
        text0 = tr['init']['files']['f0.par'] if 'init' in tr else ''
        lines.append(model_line(c, base, text0 or ''))
    out = c01.dec(core.driver_parallel(lines, chunk=100))
    for c, (base, tr), m in zip(cases, execs, out):
        accepted = sum(1 for s in tr.get('steps', []) if s['out'] == 'ok')
        ctx.seen({'stream': stream, 'case': c}, accepted > 0)
        ctx.count('%s:mode:%s' % (stream, 'raw' if c['raw'] else 'normal'))
        ctx.count('%s:start:%s' % (stream, c['start']))
        ctx.count('%s:ops:%d' % (stream, len(c['ops'])))
        ctx.count('%s:tables:%d' % (stream, len(c['doc']['tables'])))
        for k in classify_ops(c, tr):
            ctx.count('%s:op:%s' % (stream, k))
        # property oracle
        v = oracle(c, tr)
        if v is not None:
            ctx.count('%s:oracle:%s' % (stream, v[0]))
            # shrink the first few failures of a class; later ones of the same class are reported as found
            small = shrink_case(ctx, c, v[0]) if ctx.coverage['%s:oracle:%s' % (stream, v[0])] <= 3 else c
            _, tr2 = execute(ctx, small)
            v2 = oracle(small, tr2) or v
            ctx.violate(v[0], '%s (step %d of %d)' % (v2[1], v2[2], len(small['ops'])), {'stream': stream, 'case': small})
            continue
        ctx.count('%s:oracle:ok' % stream)
        # correspondence
        if 'driver_error' in m:
            ctx.disagree(stream + '-driver', {'stream': stream, 'case': c}, None, m)
            continue
        d = compare(ctx, c, tr, m)
        if d is not None:
            i, what = d
            ctx.count('%s:disagree' % stream)
            small = shrink_disagreement(ctx, c) if ctx.coverage['%s:disagree' % stream] <= 3 else c
            ctx.disagree(stream, {'stream': stream, 'case': small}, 'step %d: %s' % (i, what), 'see replay')
            continue
        # the theorem history_content on this history: inside its domain? then its conclusion must hold
        judge_domain(ctx, stream, c, m)
        # the named hypotheses of history_content_partial on the steps actually taken
        for st in m['steps']:
            h = st.get('hyp')
            if h:
                for k, ok in h.items():
                    if ok is None:
                        ctx.count('hyp:%s:not-applicable(raw mode, float32 datum)' % k)
                        continue
                    ctx.count('hyp:%s:%s' % (k, 'holds' if ok else 'FAILS'))
                    if not ok:
                        ctx.disagree('hyp-' + k, {'stream': stream, 'case': c}, 'accepted step', 'hypothesis %s of history_content_partial is false here' % k)


def shrink_disagreement(ctx, case):
    def fails(c):
        base, tr = execute(ctx, c)
        if 'init' not in tr:
            return False
        m = c01.dec(core.driver([model_line(c, base, tr['init']['files']['f0.par'] or '')]))[0]
        return 'driver_error' not in m and compare(ctx, c, tr, m) is not None
    try:
        return dict(case, ops=core.shrink_list(case['ops'], lambda o: fails(dict(case, ops=o)), minlen=0))
    except Exception:
        return case


def directed_cases():
    """hand-made histories: every op kind once on a small document, both modes"""
    doc = {'comments': '# d\n', 'carg': 'd', 'hdr': [['mjd', 54579], ['note', 'two words']], 'enums': [['state', 'Status', ['ON', 'OFF']]], 'entry': 'ndarray',
           'tables': [{'name': 'Obs', 'cols': [['n', 'i4', 0], ['f', 'f4', 0], ['s', 'S6', 0], ['v', 'f8', 2], ['t', 'S3', 2], ['state', 'S3', 0]],
                       'rows': [[1, c01.fcell(4, 0.1), 'a b', [c01.fcell(8, 1.0), c01.fcell(8, -2.5)], ['x', ''], 'ON']]},
                      {'name': 'cal', 'cols': [['k', 'i8', 0]], 'rows': []}]}
    row = [7, c01.fcell(4, 2.5), 'q#', [c01.fcell(8, 9.0), c01.fcell(8, 1e-300)], ['u', ' '], 'OFF']
    st = [2030, 2, 3, 4, 5, 6]

    def app(*entries):
        return {'k': 'append', 'stamp': st, 'entries': list(entries)}
    rows_l = {'key': 'obs', 'table': 'OBS', 'as': 'lists', 'cols': ['n', 'f', 's', 'v', 't', 'state'], 'rows': [row]}
    rows_r = {'key': 'OBS', 'table': 'OBS', 'as': 'rec', 'cols': ['n', 'f', 's', 'v', 't', 'state'], 'rows': [row, row]}
    cal = {'key': 'cal', 'table': 'CAL', 'as': 'lists', 'cols': ['k'], 'rows': [[-2**63], [2**63 - 1]]}
    ops = [app(rows_l), app({'key': 'added', 'pair': ' padded value '}), app(), {'k': 'write', 'p': None, 'cm': None, 'stamp': st},
           {'k': 'write', 'p': 'f1.par', 'cm': None, 'stamp': st}, app(rows_r, cal, {'key': 'k2', 'pair': 5}), {'k': 'write', 'p': 'f0.par', 'cm': 'x', 'stamp': st},
           {'k': 'reread'}, {'k': 'rebind', 'p': 'f2.par'}, app(cal), {'k': 'write', 'p': None, 'cm': ['l1', 'l2'], 'stamp': st}, app(rows_l)]
    ops2 = [app(cal), {'k': 'unlink'}, app(cal), app(), {'k': 'nondict'}, {'k': 'write', 'p': None, 'cm': '', 'stamp': st}, app(rows_r),
            app(dict(rows_l, drop='v')), app(dict(rows_l, short='t')), app({'key': 'symbols', 'pair': 'x'}), app({'key': 'Obs', 'pair': 1})]
    out = []
    for raw in (False, True):
        for o in (ops, ops2):
            out.append({'raw': raw, 'start': 'read', 'doc': doc, 'ops': o})
    out.append({'raw': False, 'start': 'ret', 'doc': doc, 'ops': ops})
    return out



# ---------------------------------------------------------------- unsized char[] columns (statement-level oracle only)
def _unsized_case(rng):
    cols = [('id', 'int')]
    for nm in rng.sample(['name', 'tag', 'note'], rng.randrange(1, 4)):
        cols.append((nm, 'char[]'))
    if rng.random() < 0.5:
        cols.insert(rng.randrange(1, len(cols) + 1), ('v', 'double'))

    def word(maxlen):
        n = rng.randrange(1, maxlen + 1)
        return ''.join(rng.choice('abcxyzABC019_-+.') for _ in range(n))

    def row(k, maxlen):
        return [k if ty == 'int' else (k * 0.5 if ty == 'double' else word(maxlen)) for _, ty in cols]
    rows0 = [row(i, 4) for i in range(rng.randrange(0, 4))]
    ops = []
    k = len(rows0)
    for _ in range(rng.randrange(1, 7)):
        r = rng.random()
        if r < 0.65:
            nrow = rng.randrange(1, 3)
            ops.append({'k': 'append', 'rows': [row(k + i, rng.choice([3, 6, 12, 20])) for i in range(nrow)],
                        'key': rng.choice(['upper', 'lower'])})
            k += nrow
        elif r < 0.85:
            ops.append({'k': 'copy'})
        else:
            ops.append({'k': 'reread'})
    return {'stream': 'unsized', 'table': rng.choice(['OBJ', 'Things', 'row']), 'cols': cols, 'rows0': rows0, 'ops': ops,
            'raw': rng.random() < 0.25}


def _unsized_run(ctx, case):
    """a table read from a file whose string columns are declared `char x[]` (sized by the longest value); appended strings
    may be longer than anything seen so far.  Oracle: object == fresh read == expected rows after every operation."""
    from pydl.pydlutils.yanny import yanny
    d = os.path.join(ctx.tmpdir(), 'u%d' % next(_counter))
    os.makedirs(d)
    T = case['table']
    cols = case['cols']
    text = 'typedef struct {\n' + ''.join((' char %s[];\n' % n) if ty == 'char[]' else (' %s %s;\n' % (ty, n)) for n, ty in cols) + '} %s;\n\n' % T.upper()
    for r in case['rows0']:
        text += T.upper() + ' ' + ' '.join(str(v) for v in r) + '\n'
    fn = os.path.join(d, 'a0.par')
    with open(fn, 'w') as f:
        f.write(text)
    exp = [list(r) for r in case['rows0']]
    ncopy = 0

    def view(par):
        if par.size(T.upper()) == 0 and not exp:
            return []
        tab = par[T.upper()]
        out = []
        for i in range(len(exp)):
            r = []
            for n, ty in cols:
                v = tab[n][i]
                if ty == 'char[]':
                    v = v.decode() if isinstance(v, bytes) else str(v)
                elif ty == 'int':
                    v = int(v)
                else:
                    v = float(v)
                r.append(v)
            out.append(r)
        return out

    try:
        par = yanny(fn, raw=case['raw'])
        for step, op in enumerate(case['ops']):
            if op['k'] == 'append':
                key = T.upper() if op['key'] == 'upper' else T.lower()
                par.append({key: {n: [r[j] for r in op['rows']] for j, (n, ty) in enumerate(cols)}})
                exp += [list(r) for r in op['rows']]
            elif op['k'] == 'copy':
                ncopy += 1
                par.write(os.path.join(d, 'a%d.par' % ncopy))
            else:
                par = yanny(par.filename, raw=case['raw'])
            for who, p in (('object', par), ('fresh read of its file', yanny(par.filename, raw=case['raw']))):
                got = view(p)
                if got != exp:
                    k = next((i for i in range(min(len(got), len(exp))) if got[i] != exp[i]), min(len(got), len(exp)))
                    return ('unsized:%s-diverges' % who.split()[0],
                            'after op %d (%s) the %s has row %d = %r, expected %r' % (
                                step, op['k'], who, k, got[k] if k < len(got) else None, exp[k] if k < len(exp) else None))
    except Exception as e:
        return ('unsized:exception:' + core.exc_kind(e), 'history on a table with char[] columns raised %r' % (e,))
    finally:
        shutil.rmtree(d, ignore_errors=True)
    return None


def _unsized(ctx, cases=None):
    rng = ctx.rng
    if cases is None:
        cases = [_unsized_case(rng) for _ in range(ctx.n(150, 4000))]
    for c in cases:
        ctx.seen(c)
        ctx.count('unsized:' + ('raw' if c['raw'] else 'normal'))
        bad = _unsized_run(ctx, c)
        if bad:
            small = dict(c, ops=core.shrink_list(c['ops'], lambda ops: (_unsized_run(ctx, dict(c, ops=ops)) or ('',))[0] == bad[0], minlen=1))
            ctx.violate(bad[0], (_unsized_run(ctx, small) or bad)[1], small)


# ---------------------------------------------------------------- existing but empty files (statement-level oracle only)
def _emptyfile_run(ctx, case):
    """a write never replaces an existing file - also not one of length zero (a placeholder made by mkstemp, the object's
    own file truncated by someone else)"""
    from pydl.pydlutils.yanny import yanny
    d = os.path.join(ctx.tmpdir(), 'e%d' % next(_counter))
    os.makedirs(d)
    try:
        fn = os.path.join(d, 'a.par')
        with open(fn, 'w') as f:
            f.write('mjd 54321\ntypedef struct {\n int id;\n char name[6];\n} OBJ;\n\nOBJ 1 abc\nOBJ 2 "d e"\n')
        par = yanny(fn, raw=case['raw'])
        before = open(fn, 'rb').read()
        if case['target'] == 'other':
            tgt = os.path.join(d, 'placeholder.par')
            open(tgt, 'w').close()
        else:
            tgt = fn
            open(fn, 'w').close()      # the object's own file truncated to zero bytes
        try:
            par.write(tgt if case['how'] == 'named' or case['target'] == 'other' else None)
            raised = False
        except Exception:
            raised = True
        size = os.path.getsize(tgt)
        if not raised or size != 0:
            return ('emptyfile:write-replaced-existing-file',
                    'write(%s) onto an existing file of length zero %s and left %d bytes in it' % (
                        'other name' if case['target'] == 'other' else 'own file', 'raised' if raised else 'did not raise', size))
        if par.filename != fn:
            return ('emptyfile:refused-write-rebinds', 'after the refused write the object is bound to %r' % par.filename)
        if case['target'] == 'other' and open(fn, 'rb').read() != before:
            return ('emptyfile:refused-write-changed-own-file', 'the refused write changed the object\'s own file')
    finally:
        shutil.rmtree(d, ignore_errors=True)
    return None


def _emptyfile(ctx):
    for raw in (False, True):
        for target in ('other', 'own'):
            for how in ('named', 'default'):
                c = {'stream': 'emptyfile', 'raw': raw, 'target': target, 'how': how}
                ctx.seen(c)
                bad = _emptyfile_run(ctx, c)
                if bad:
                    ctx.violate(bad[0], bad[1], c)


def run(ctx):
    core.audit(ctx, LEAN_MODULES, THEOREMS)
    _ensure_driver()
    _unsized(ctx)
    _emptyfile(ctx)
    rng = ctx.rng
    cases = directed_cases()
    n = ctx.n(1200, 20000)
    while len(cases) < n:
        cases.append(gen_case(rng))
    for i in range(0, len(cases), 500):
        _cases(ctx, cases[i:i + 500])


def replay(ctx, case):
    core.audit(ctx, LEAN_MODULES, THEOREMS)
    _ensure_driver()
    c = case['case']

    def refresh(x):
        # the float text is what the writer of the tree under test prints for the recorded bit pattern
        if isinstance(x, list):
            return [refresh(v) for v in x]
        if isinstance(x, dict) and set(x) >= {'w', 'b'}:
            return c01.fcell(x['w'], c01.fval(x))
        if isinstance(x, dict):
            return {k: refresh(v) for k, v in x.items()}
        return x
    _cases(ctx, [refresh(c)], stream=case.get('stream', 'hist'))

"""C04 - spherematch returns exactly the pairs closer than the match length (DESIGN §5 C04)."""
import math
import os
import numpy as np
from harness import core

ID = 'C04'
LEAN_MODULES = ['PydlVerif.Props.C04']
P = 'PydlVerif.C04.'
THEOREMS = [P + t for t in (
    'assign_nodup', 'assign_mem', 'matchRaw_complete_sound', 'sorted_output', 'greedy_passes_agree', 'greedy_spec',
    'dec_cover', 'ra_wrap_index', 'ra_cover_linear', 'ra_cover_fixed', 'ra_cover_fixed_of_hav', 'hav_identity',
    'get_bracket', 'init_shape', 'ra_cover_seam', 'racover_pair', 'seam_room',
    'spherematch_complete_partial', 'spherematch_complete_grid', 'spherematch_complete', 'spherematch_out_eq',
    'spherematch_statement')] + [
    'PydlVerif.Sphere.' + t for t in ('cellIndex_bracket', 'decIndex_bracket', 'chunksInit_facts', 'chunksInit_room',
                                      'chunksInit_guards', 'ra_cover_band', 'cell_visited', 'getbounds_returns',
                                      'bandRoom_holds', 'raMargin_le_half', 'cos_ge_near')]
RULE = ('point-set configurations: all-sky, clustered, RA 0/360 seam, near-polar (|dec|>80, >87), lattice points on the '
        'computed chunk edges +-1 ulp, second-list points on the first/last declination edge of the grid (upper-boundary '
        'rule), the directed RA-margin construction (D5), duplicated points (distance ties), permuted copies; match length 1 arcsec..20 deg, chunksize None / 1.0001..10 x matchlength / up to 60 deg, '
        'maxmatch 0,1,2,5. A case is non-trivial when at least one pair is closer than the match length; '
        'distinct = distinct case payloads')
TRUSTED = ['hand-written model lean/PydlVerif/Model/Sphere.lean tied to the code by the I/O correspondence of this run',
           'libm sin/cos/asin/sqrt and numpy argsort (parameters of the model: any sorting permutation)',
           'the independent oracle uses numpy long double (80-bit) chord-length separations']
ASSUMPTIONS = ['RA in [0,360), |Dec| < 90, first list has at least 2 points, matchlength > 0 (theorems: matchlength <= 180)',
               'pairs with |sep - matchlength| <= 1e-12*matchlength + 1e-12 deg are undecided (float rounding of gcirc)',
               'the end-to-end theorems are about the model run with exact real arithmetic and Mathlib\'s sin/cos/arcsin/sqrt; '
               'there chunks.__init__ raises when an edge is clipped to +-90 (cos 90 = 0), so polar-cap grids and all '
               'IEEE rounding are covered by the correspondence and the oracle only']
LEVEL_TEXT = ('Machine-checked Lean 4 theorems over an executable model of spherematch and of the chunk grid. Combinatorial '
              'core (all sizes, any data): the pair loop returns exactly the close pairs once each whenever the cell lists '
              'cover them, assign never stores an index twice and stores it in every visited cell, the maxmatch=0 output is '
              'the sorted pair list for ANY sorting permutation, the maxmatch=k bookkeeping is the distance-ordered greedy '
              'selection of the statement. Grid, over any ordered field with floor and arbitrary cos/sin (init_shape, '
              'chunksInit_room): chunks.__init__ builds nDec>=3 equally spaced declination bands from decMin to decMax '
              'exactly, one minSize clear of all points or clipped to the pole, and per band nRa>=1 equally spaced RA cells '
              'that embrace [0,360] or stay a minimal cell clear of the seam and of all points; the floor-formula index of '
              'get/getbounds names the cell whose tabulated edges bracket the point (get_bracket). Over the reals with '
              'Mathlib\'s functions: the haversine identity for the model\'s own gcirc (hav_identity: sin^2(d/2) = hav(ddec) + '
              'cos cos hav(dra), 0<=d<=180, cos d = inner product), hence the corrected RA margin covers without any '
              'hypothesis (ra_cover_fixed); one band including the 0/360 seam needs at most one wrap cell (ra_cover_seam); '
              'with chunksize >= 4*matchlength the RA margin is at most half a minimal cell, so every point with a close '
              'partner stays inside the RA extent of the bands it visits and has room at the seam (seam_room); composed: '
              'spherematch_complete / spherematch_statement - whenever the model\'s spherematch returns on inputs with '
              'RA in [0,360), |Dec|<90, matchlength<=180, its output is, for maxmatch<=0, every pair closer than matchlength '
              'exactly once in non-decreasing order of separation and, for maxmatch=k>0, the greedy selection from that '
              'list - hypotheses only about the inputs and the argsort contract. The Float instance of the same model is '
              'compared with the real spherematch and chunks attributes on every run, an independent brute-force long-double '
              'oracle checks the statement on the real output, and the statements of init_shape / seam_room are audited '
              'numerically on every real grid (counters gridfacts:*, room:*).')
LEVEL_NOTE = ('RACover is no longer a hypothesis. What remains outside the proofs: (1) the end-to-end theorems speak about the '
              'model evaluated in exact real arithmetic; IEEE rounding (cell edges, gcirc near the match length) is searched '
              'by the lattice/top-edge generators and the oracle, not provable; (2) over the reals chunks.__init__ raises for '
              'grids clipped to +-90 (cos 90 = 0 exactly, the binary64 code lives on cos(pi/2)=6e-17>0), so polar-cap grids '
              'are covered only by the band-level theorems (ra_cover_seam, cell_visited hold for any grid with the stated '
              'facts), the numeric audit and the oracle; (3) that the real-number run returns at all on a given input is not '
              'exhibited by a Lean example (it is not executable); the same generic model returns at Float on every '
              'generated input; (4) matchlength <= 180 and second-list RA in [0,360) are hypotheses (np.fmod is modelled on '
              '[0,720) only).')

TOL_REL = 1e-12
TOL_ABS = 1e-12
MAXCELLS = 2500


# ---------------------------------------------------------------- real code
def _impl(case):
    """run the real spherematch (+ the public chunks attributes) on one case"""
    from pydl.pydlutils.spheregroup import spherematch, chunks
    ra1, dec1 = np.array(case['ra1'], dtype='d'), np.array(case['dec1'], dtype='d')
    ra2, dec2 = np.array(case['ra2'], dtype='d'), np.array(case['dec2'], dtype='d')
    # whole-degree positions held in an integer array are the same positions (each list keeps its OWN dtype: seeded change C04-23)
    for key in ('dt1', 'dt2'):
        if case.get(key):
            if key == 'dt1' and (ra1 == np.rint(ra1)).all() and (dec1 == np.rint(dec1)).all():
                ra1, dec1 = ra1.astype(case[key]), dec1.astype(case[key])
            if key == 'dt2' and (ra2 == np.rint(ra2)).all() and (dec2 == np.rint(dec2)).all():
                ra2, dec2 = ra2.astype(case[key]), dec2.astype(case[key])
    ml, cs, mm = case['ml'], case['cs'], case['mm']
    out = {}
    try:
        m1, m2, d = spherematch(ra1, dec1, ra2, dec2, ml, chunksize=cs, maxmatch=mm)
        out['ok'] = [[int(x) for x in m1], [int(x) for x in m2], [float(x) for x in d]]
    except Exception as e:   # an exception is an output
        out['err'] = core.exc_kind(e) + ':' + str(e)[:60]
    # public attributes, with the chunk size spherematch is documented to use
    cse = _cs_eff(ml, cs)
    try:
        ch = chunks(ra1, dec1, cse)
        ch.assign(ra2, dec2, ml)
        out['grid'] = {'nDec': int(ch.nDec), 'decBounds': [float(x) for x in ch.decBounds], 'raOffset': float(ch.raOffset),
                       'nRa': [int(x) for x in ch.nRa], 'raBounds': [[float(x) for x in b] for b in ch.raBounds],
                       'chunkList': [[[int(x) for x in c] for c in row] for row in ch.chunkList]}
    except Exception as e:
        out['grid'] = {'err': core.exc_kind(e) + ':' + str(e)[:60]}
    return out


def _cs_eff(ml, cs):
    if cs is None:
        return max(4.0 * ml, 0.1)
    return 4.0 * ml if cs < 4.0 * ml else cs


# ---------------------------------------------------------------- oracle (independent of pydl and of the model)
_L = np.longdouble
_D2R = _L('3.14159265358979323846264338327950288') / _L(180)


def _sepmat(ra1, dec1, ra2, dec2):
    """great-circle separations (degrees) from chord lengths of unit vectors, in long double"""
    def vec(ra, dec):
        a = np.asarray(ra, dtype=_L) * _D2R
        d = np.asarray(dec, dtype=_L) * _D2R
        return np.stack([np.cos(d) * np.cos(a), np.cos(d) * np.sin(a), np.sin(d)], axis=-1)
    v1, v2 = vec(ra1, dec1), vec(ra2, dec2)
    diff = v1[:, None, :] - v2[None, :, :]
    ch = np.sqrt((diff * diff).sum(-1))
    return 2 * np.arcsin(np.minimum(ch / 2, _L(1))) / _D2R


def _oracle(case, impl):
    """statement-level check of the real output; returns [(signature, what)] and the number of close pairs"""
    ml, mm = case['ml'], case['mm']
    S = _sepmat(case['ra1'], case['dec1'], case['ra2'], case['dec2'])
    tol = TOL_REL * ml + TOL_ABS
    must = set(zip(*(int_list(x) for x in np.nonzero(S < ml - tol))))
    may = set(zip(*(int_list(x) for x in np.nonzero(S < ml + tol))))
    v = []
    if 'err' in impl:
        return [('exception:' + impl['err'].split(':')[1 if impl['err'].startswith('PydlException') else 0],
                 'spherematch raised %s on a valid input' % impl['err'])], len(must), S, tol
    m1, m2, d = impl['ok']
    got = list(zip(m1, m2))
    gs = set(got)
    if len(gs) != len(got):
        dup = sorted(p for p in gs if got.count(p) > 1)[0]
        v.append(('duplicate-pair', 'pair %s returned more than once' % (dup,)))
    extra = sorted(gs - may)
    if extra:
        i, j = extra[0]
        v.append(('extra-pair', 'pair (%d,%d) returned, separation %.15g >= matchlength %.15g' % (i, j, float(S[i, j]), ml)))
    for (i, j), x in zip(got, d):
        if 0 <= i < S.shape[0] and 0 <= j < S.shape[1]:
            t = float(S[i, j])
            if abs(x - t) > 1e-9 * max(t, 1e-300) + 1e-12:
                v.append(('distance', 'pair (%d,%d): distance %.17g, true separation %.17g' % (i, j, x, t)))
                break
    if any(d[k] > d[k + 1] for k in range(len(d) - 1)):
        v.append(('order', 'distances are not in non-decreasing order'))
    if mm <= 0:
        miss = sorted(must - gs)
        if miss:
            i, j = miss[0]
            v.append((_miss_class(case, i, j, float(S[i, j])),
                      'pair (%d,%d) at separation %.15g < matchlength %.15g is not returned (%d missed)'
                      % (i, j, float(S[i, j]), ml, len(miss))))
    else:
        c1, c2 = {}, {}
        for i, j in got:
            c1[i] = c1.get(i, 0) + 1
            c2[j] = c2.get(j, 0) + 1
        if any(x > mm for x in c1.values()) or any(x > mm for x in c2.values()):
            v.append(('greedy:overuse', 'an index occurs more than maxmatch=%d times' % mm))
        # a pair is left out only if one endpoint is used maxmatch times by pairs no farther apart
        for (i, j) in sorted(must - gs):
            s = float(S[i, j])
            u1 = sum(1 for (a, b), x in zip(got, d) if a == i and x <= s + tol)
            u2 = sum(1 for (a, b), x in zip(got, d) if b == j and x <= s + tol)
            if u1 < mm and u2 < mm:
                v.append(('greedy:left-out', 'pair (%d,%d) at %.15g left out although its points are used only %d and %d '
                          'times (maxmatch=%d) by pairs no farther apart' % (i, j, s, u1, u2, mm)))
                break
    return v, len(must), S, tol


def int_list(x):
    return [int(t) for t in x]


def _miss_class(case, i, j, sep):
    """signature of a missed pair; the D5 class is recognised from the public chunks attributes"""
    sig = 'missed-pair'
    if case['cs'] is not None and case['cs'] < 4.0 * case['ml']:
        return sig + ':chunksize<4*matchlength'
    try:
        from pydl.pydlutils.spheregroup import chunks
        ra1, dec1 = np.array(case['ra1']), np.array(case['dec1'])
        ch = chunks(ra1, dec1, _cs_eff(case['ml'], case['cs']))
        pr = float(np.fmod(ra1[i] + ch.raOffset, 360.0))
        qr = float(np.fmod(case['ra2'][j] + ch.raOffset, 360.0))
        rp, dp = ch.get(pr, dec1[i])
        rq, dq = ch.get(qr, case['dec2'][j])
        if rq >= 0 and rp != rq:
            b = ch.raBounds[dp]
            gap = (qr - b[rp + 1]) if qr > pr else (b[rp] - qr)
            if 0 <= gap and gap * ch.cosDecMin(dp) >= case['ml'] > sep:
                return sig + ':different-RA-cell:gap*cosDecMin>=margin>sep'
    except Exception:
        pass
    return sig + ':other'


# ---------------------------------------------------------------- generators
def _cap_cs(ra1, dec1, ml, cs):
    """keep the number of cells bounded (the code allocates one Python list per cell)"""
    cse = _cs_eff(ml, cs) if cs is None else cs
    dr = max(dec1) - min(dec1)
    a = np.asarray(ra1)
    span = min(float(np.ptp(np.fmod(a + 60.0 * j, 360.0))) for j in range(6))
    ncell = (dr / cse + 3) * (span / cse + 3)
    if ncell > MAXCELLS:
        f = math.sqrt(ncell / MAXCELLS) * 1.3
        return min(cse * f, 60.0)
    return cs


def _clean(ra, dec):
    ra = np.mod(np.asarray(ra, dtype='d'), 360.0)
    ra[ra >= 360.0] = 0.0
    dec = np.clip(np.asarray(dec, dtype='d'), -89.9999, 89.9999)
    return [float(x) for x in ra], [float(x) for x in dec]


def _mk(kind, ra1, dec1, ra2, dec2, ml, cs, mm):
    ra1, dec1 = _clean(ra1, dec1)
    ra2, dec2 = _clean(ra2, dec2)
    if cs is not None and cs <= ml:
        cs = ml * 1.0001
    cs = _cap_cs(ra1, dec1, ml, cs)
    return {'kind': kind, 'ra1': ra1, 'dec1': dec1, 'ra2': ra2, 'dec2': dec2, 'ml': float(ml),
            'cs': None if cs is None else float(cs), 'mm': int(mm)}


def _pick_cs(r, ml):
    if r.random() < 0.3:
        return None
    k = float(r.choice([1.0001, 1.5, 2.5, 4.0, 4.0, 6.0, 10.0, 30.0]))
    return min(ml * k, 60.0)


def _gen_random(r, kind):
    n1, n2 = int(r.integers(2, 100)), int(r.integers(1, 100))
    if kind == 'allsky':
        ml = 10 ** r.uniform(-0.5, 1.3)
        ra1, ra2 = r.uniform(0, 360, n1), r.uniform(0, 360, n2)
        dec1 = np.degrees(np.arcsin(r.uniform(-1, 1, n1)))
        dec2 = np.degrees(np.arcsin(r.uniform(-1, 1, n2)))
    else:
        ml = 10 ** r.uniform(math.log10(1 / 3600.0), 1.3)
        c_ra = r.uniform(0, 360)
        c_dec = r.uniform(-80, 80)
        if kind == 'seam':
            c_ra = float(r.choice([0.0, 359.99, 0.01, 359.0, 1.0]))
        if kind == 'polar80':
            c_dec = float(r.choice([-1, 1])) * r.uniform(80, 87)
        if kind == 'polar87':
            c_dec = float(r.choice([-1, 1])) * r.uniform(87, 89.99)
        w = ml * float(r.choice([1.5, 3, 8, 30, 100]))
        cd = max(math.cos(math.radians(c_dec)), 0.02)
        ra1, dec1 = c_ra + r.uniform(-w, w, n1) / cd, c_dec + r.uniform(-w, w, n1)
        # second list: partly partners of first-list points at about the match length, partly field points
        k = int(r.integers(0, n2 + 1))
        idx = r.integers(0, n1, k)
        ang = r.uniform(0, 2 * math.pi, k)
        rad = ml * r.choice([0.3, 0.9, 0.999, 1.001, 1.1], k)
        pd = dec1[idx] + rad * np.sin(ang)
        pr = ra1[idx] + rad * np.cos(ang) / np.maximum(np.cos(np.radians(np.clip(pd, -89.9, 89.9))), 0.02)
        ra2 = np.concatenate([pr, c_ra + r.uniform(-w, w, n2 - k) / cd])
        dec2 = np.concatenate([pd, c_dec + r.uniform(-w, w, n2 - k)])
    return _mk(kind, ra1, dec1, ra2, dec2, ml, _pick_cs(r, ml), int(r.choice([0, 0, 1, 2, 5])))


def _grid_of(case):
    from pydl.pydlutils.spheregroup import chunks
    return chunks(np.array(case['ra1']), np.array(case['dec1']), _cs_eff(case['ml'], case['cs']))


def _gen_lattice(r):
    """points ON the computed chunk edges +-1 ulp, in both lists (the grid is read from the public attributes)"""
    base = _gen_random(r, str(r.choice(['cluster', 'seam', 'polar80'])))
    base['ra1'], base['dec1'] = base['ra1'][:12], base['dec1'][:12]
    if len(base['ra1']) < 2:
        return base
    try:
        ch = _grid_of(base)
    except Exception:
        return base
    lo_d, hi_d = min(base['dec1']), max(base['dec1'])
    ra_u = np.fmod(np.array(base['ra1']) + ch.raOffset, 360.0)
    lo_r, hi_r = ra_u.min(), ra_u.max()
    pts = []
    for i in range(ch.nDec):
        for e in (ch.decBounds[i], ch.decBounds[i + 1]):
            if not lo_d < e < hi_d:
                continue
            for j in range(ch.nRa[i] + 1):
                a = ch.raBounds[i][j]
                if lo_r < a < hi_r:
                    pts.append((a, e))
    if not pts:
        return base
    sel = [pts[int(k)] for k in r.integers(0, len(pts), min(len(pts), 24))]
    ra_add, dec_add = [], []
    for a, e in sel:
        ua = float(r.choice([-1, 0, 1]))
        ue = float(r.choice([-1, 0, 1]))
        a2 = np.nextafter(a, a + ua) if ua else a
        e2 = np.nextafter(e, e + ue) if ue else e
        back = a2 - ch.raOffset
        if back < 0:
            back += 360.0
        ra_add.append(back)
        dec_add.append(e2)
    h = len(ra_add) // 2
    ml = base['ml']
    # partners across the edges at 0.7 .. 0.999 of the match length
    pr, pd = [], []
    for a, e in zip(ra_add, dec_add):
        t = r.uniform(0, 2 * math.pi)
        s = ml * float(r.choice([0.7, 0.98, 0.999]))
        pd.append(e + s * math.sin(t))
        pr.append(a + s * math.cos(t) / max(math.cos(math.radians(min(89.9, abs(pd[-1])))), 0.02))
    c = _mk('lattice', base['ra1'] + ra_add[:h] + pr[h:], base['dec1'] + dec_add[:h] + pd[h:],
            ra_add + pr, dec_add + pd, ml, base['cs'], base['mm'])
    # the added points must not move the grid: they were chosen strictly inside the bounding box; partners may
    c['ra1'], c['dec1'] = c['ra1'][:len(base['ra1']) + h], c['dec1'][:len(base['ra1']) + h]
    return c


def _gen_topedge(r):
    """second-list points ON the first and the last declination edge of the grid (+-1 ulp): the upper-boundary rule of
    get/getbounds (a point on decBounds[nDec] belongs to the last slice; below decBounds[0] / above it: dropped)"""
    base = _gen_random(r, str(r.choice(['cluster', 'seam', 'polar80'])))
    try:
        ch = _grid_of(base)
    except Exception:
        return base
    ra_add, dec_add = [], []
    for e in (float(ch.decBounds[ch.nDec]), float(ch.decBounds[0])):
        for u in (-1.0, 0.0, 1.0):
            e2 = float(np.nextafter(e, e + u)) if u else e
            for a in [base['ra1'][int(k)] for k in r.integers(0, len(base['ra1']), 2)]:
                ra_add.append(a)
                dec_add.append(e2)
    c = dict(base, kind='topedge')
    c['ra2'] = base['ra2'] + ra_add
    c['dec2'] = base['dec2'] + [min(89.9999, max(-89.9999, x)) for x in dec_add]
    return c


def _gen_d5(r):
    """directed RA-margin construction: p just inside an RA cell edge on the poleward edge of its band,
    q in the next cell at gap*cosDecMin >= matchlength > separation"""
    for _ in range(20):
        ml = 10 ** r.uniform(-1, 1.2)
        cs = None if r.random() < 0.5 else ml * float(r.choice([4.0, 5.0, 8.0]))
        cse = _cs_eff(ml, cs)
        a_ra, a_dec = r.uniform(60, 300), r.uniform(-70, 70)
        w = cse * r.uniform(2, 6)
        ra1 = np.array([a_ra - w / 2, a_ra + w / 2, a_ra])
        dec1 = np.clip(np.array([a_dec - w / 3, a_dec + w / 3, a_dec]), -89, 89)
        base = _mk('d5', ra1, dec1, [a_ra], [a_dec], ml, cs, 0)
        if base['cs'] != (None if cs is None else float(cs)):
            continue
        try:
            ch = _grid_of(base)
        except Exception:
            continue
        if ch.raOffset != 0.0:
            continue
        cands = []
        for i in range(ch.nDec):
            lo, hi = ch.decBounds[i], ch.decBounds[i + 1]
            pole = hi if abs(hi) > abs(lo) else lo
            if not (dec1.min() + 1e-3 < pole < dec1.max() - 1e-3) or abs(pole) > 85:
                continue
            for j in range(1, ch.nRa[i]):
                e = ch.raBounds[i][j]
                if ra1.min() + 1e-3 < e < ra1.max() - 1e-3 - 2 * ml / math.cos(math.radians(pole)):
                    cands.append((i, j))
        if not cands:
            continue
        i, j = cands[int(r.integers(len(cands)))]
        lo, hi = ch.decBounds[i], ch.decBounds[i + 1]
        pole = hi if abs(hi) > abs(lo) else lo
        decp = pole + (-1e-7 if pole == hi else 1e-7)
        edge = ch.raBounds[i][j]
        c = math.cos(math.radians(pole))
        cp = math.cos(math.radians(decp))
        f = math.degrees(2 * math.asin(cp * math.sin(math.radians(ml / c) / 2))) / ml
        e = (1 - f) / 3
        raq, rap = edge + (ml / c) * (1 + e), edge - (ml / c) * e
        return _mk('d5', list(ra1) + [rap], list(dec1) + [decp], [raq], [decp], ml, cs, 0)
    return _gen_random(r, 'cluster')


def _gen_smallchunk(r):
    """near-polar field with a chunk size barely above the match length (RA margin wider than a cell)"""
    n1, n2 = int(r.integers(2, 80)), int(r.integers(1, 80))
    ml = 10 ** r.uniform(-1, 1.2)
    c_ra = float(r.choice([r.uniform(0, 360), 0.0, 359.9]))
    c_dec = float(r.choice([-1, 1])) * r.uniform(80, 89.9)
    w = ml * float(r.choice([5, 20, 100]))
    cd = max(math.cos(math.radians(c_dec)), 0.01)
    return _mk('polar-smallchunk', c_ra + r.uniform(-w, w, n1) / cd, c_dec + r.uniform(-w, w, n1),
               c_ra + r.uniform(-w, w, n2) / cd, c_dec + r.uniform(-w, w, n2), ml,
               ml * float(r.choice([1.0001, 1.05, 1.2, 1.5, 2.0])), int(r.choice([0, 0, 1])))


def _gen_threshold(r):
    """pairs whose separation is ml*(1 +- eps), eps from 1e-7 to 3e-3, on a meridian or on the equator (where the
    separation is exactly the coordinate difference): just inside must match, just outside must not - for match lengths
    of degrees, where flat / chord approximations of the separation differ from the arc by 1e-4..1e-2 relative"""
    ml = float(r.choice([0.5, 2.0, 3.0, 5.0, 8.0, 15.0])) * r.uniform(0.8, 1.25)
    n = int(r.integers(2, 10))
    ra1, dec1, ra2, dec2 = [], [], [], []
    for _ in range(n):
        eps = float(r.choice([1e-7, 1e-6, 1e-5, 1e-4, 3e-4, 1e-3, 3e-3])) * float(r.choice([1, -1]))
        step = ml * (1 + eps)
        if r.random() < 0.6:
            a, d = r.uniform(0, 360), r.uniform(-75, 75 - step)
            ra1.append(a); dec1.append(d); ra2.append(a); dec2.append(d + step)
        else:
            a = r.uniform(0, 360)
            ra1.append(a); dec1.append(0.0); ra2.append((a + step) % 360.0); dec2.append(0.0)
    return _mk('threshold', ra1, dec1, ra2, dec2, ml, None if r.random() < 0.6 else ml * float(r.choice([4.0, 6.0])),
               int(r.choice([0, 0, 1, 2])))


def _gen_ties(r):
    """duplicated points: equal separations, the greedy result depends on the (unspecified) order of ties"""
    c = _gen_random(r, 'cluster')
    n2 = len(c['ra2'])
    k = max(1, n2 // 3)
    c['ra2'] = c['ra2'] + c['ra2'][:k] + c['ra1'][:3]
    c['dec2'] = c['dec2'] + c['dec2'][:k] + c['dec1'][:3]
    c['ra1'] = c['ra1'] + c['ra1'][:2]
    c['dec1'] = c['dec1'] + c['dec1'][:2]
    c['mm'] = int(r.choice([1, 2, 5, 0]))
    c['kind'] = 'ties'
    return c


def _gen_intlist(r):
    """one list on whole degrees in an integer array, the other one float64 positions scattered around lattice points"""
    a0, d0 = int(r.integers(5, 330)), int(r.integers(-60, 50))
    n = int(r.integers(2, 6))
    lat = [(a0 + i, d0 + j) for i in range(n) for j in range(n)]
    ml = float(r.choice([0.2, 0.45, 0.75, 1.2]))
    m = int(r.integers(3, 25))
    pick = [lat[int(r.integers(len(lat)))] for _ in range(m)]
    fr = [(p[0] + float(r.uniform(-1, 1)) * ml * 1.5, p[1] + float(r.uniform(-1, 1)) * ml * 1.5) for p in pick]
    ints_first = bool(r.random() < 0.6)
    l1, l2 = (lat, fr) if ints_first else (fr, lat)
    c = _mk('intlist', [p[0] for p in l1], [p[1] for p in l1], [p[0] for p in l2], [p[1] for p in l2], ml, _pick_cs(r, ml), int(r.choice([0, 0, 1, 2])))
    c['dt1' if ints_first else 'dt2'] = str(r.choice(['i8', 'i4']))      # (int16 would make numpy compute the angles in float32)
    return c


def _permuted(r, c):
    p1, p2 = r.permutation(len(c['ra1'])), r.permutation(len(c['ra2']))
    d = dict(c, kind=c['kind'] + '+perm')
    d['ra1'] = [c['ra1'][i] for i in p1]
    d['dec1'] = [c['dec1'][i] for i in p1]
    d['ra2'] = [c['ra2'][i] for i in p2]
    d['dec2'] = [c['dec2'][i] for i in p2]
    return d


def _cases(ctx):
    r = np.random.default_rng(ctx.rng.getrandbits(64))
    n = ctx.n(1500, 40000)
    mix = (['cluster'] * 5 + ['seam'] * 4 + ['polar80'] * 3 + ['polar87'] * 3 + ['allsky'] * 2 + ['lattice'] * 4 +
           ['d5'] * 3 + ['ties'] * 2 + ['polar-smallchunk'] * 3 + ['topedge'] * 2 + ['threshold'] * 2 + ['intlist'] * 2)
    out = []
    for _ in range(n):
        k = mix[int(r.integers(len(mix)))]
        if k == 'lattice':
            c = _gen_lattice(r)
        elif k == 'd5':
            c = _gen_d5(r)
        elif k == 'topedge':
            c = _gen_topedge(r)
        elif k == 'ties':
            c = _gen_ties(r)
        elif k == 'intlist':
            c = _gen_intlist(r)
        elif k == 'threshold':
            c = _gen_threshold(r)
        elif k == 'polar-smallchunk':
            c = _gen_smallchunk(r)
        else:
            c = _gen_random(r, k)
        out.append(c)
        if r.random() < 0.15:
            out.append(_permuted(r, c))
    # crowded fields with a large maxmatch: one first-list point with several hundred partners (and the mirror image); the limit
    # "each point at most maxmatch times" is a count, not a byte
    for it_ in range(ctx.n(4, 40)):
        a, d, ml = float(r.uniform(20, 340)), float(r.uniform(-60, 60)), float(10 ** r.uniform(-2, 0))
        nn = int(r.choice([300, 420, 520])) if it_ >= 4 else 520
        ra_c = [float(a + r.uniform(-0.3, 0.3) * ml / math.cos(math.radians(d))) for _ in range(nn)]
        dec_c = [float(d + r.uniform(-0.3, 0.3) * ml) for _ in range(nn)]
        mm = int(r.choice([256, 257, 300, 2000, 255])) if it_ >= 4 else (256, 300, 256, 300)[it_]
        if (r.random() < 0.5) if it_ >= 4 else (it_ < 2):
            out.append(_mk('crowded', [a, a + 5 * ml], [d, d], ra_c, dec_c, ml, None, mm))
        else:
            out.append(_mk('crowded', ra_c, dec_c, [a, a + 5 * ml], [d, d], ml, None, mm))
        # a second list of exactly one point with many partners and a small limit: it may be used at most maxmatch times
        out.append(_mk('crowded-one', ra_c[:60], dec_c[:60], [a], [d], ml, None, int(r.choice([1, 2, 5]))))
    # the input on which the unfixed tree raised "cosDecMin not positive" (decBounds[nDec] rounds above 90)
    out.append(_mk('pole-rounding', [243.680464368093, 232.46628462283945, 172.06221883782882, 224.93591330635513, 83.29745871337013],
                   [61.14690863082591, 27.082188874300428, 44.841729370178975, 89.999, 43.60260839677979],
                   [224.9, 10.0], [89.9, 0.0], 3.6485266762426165, None, 0))
    # the recorded inputs of the three fixed defects (known_findings_C04.json)
    out.append(_mk('regress-d5', [271.57395016328195, 306.56832501516016, 289.07113460711844],
                   [4.340050972797917, 27.669634207383403, 10.59384921741573], [291.82355180781525],
                   [10.59384921741573], 2.7054966363374637, None, 0))
    out.append(_mk('regress-decbounds', [355.35569204996733, 21.55226341848763], [8.406154920161928, 41.95101781407175],
                   [359.07938351009705], [32.262787285506235], 7.4161540237338786, 11.124231035600818, 1))
    out.append(_mk('regress-smallchunk', [11.811797108938128, 47.287682051872466], [-26.64902753326362, -64.87302887551724],
                   [57.135852335893645], [-64.86353812043585], 4.179094335043861, 4.179512244477365, 0))
    return out


# ---------------------------------------------------------------- evaluation of one case
def _bits(xs):
    return [core.f2b(x) for x in xs]


def _line(c):
    return {'p': 'C04', 'op': 'match', 'ra1': _bits(c['ra1']), 'dec1': _bits(c['dec1']), 'ra2': _bits(c['ra2']),
            'dec2': _bits(c['dec2']), 'ml': core.f2b(c['ml']), 'cs': None if c['cs'] is None else core.f2b(c['cs']),
            'maxmatch': c['mm']}


def _room(case, g, S, tol):
    """numeric audit (float64, public chunks attributes) of `BandRoom`, the one hypothesis left in the Lean theorem
    spherematch_complete: every second-list point with a close partner lies inside the RA extent of each band it
    visits, and its RA margin there is at most one cell (band = [0,360]) or at most the gap the band leaves around
    the seam.  Returns counters only: a failure of the hypothesis is not a failure of the property."""
    out = {}
    if 'err' in g:
        return out
    db, nDec, off, ml = g['decBounds'], g['nDec'], g['raOffset'], case['ml']

    def cosmin(i):
        e = db[i] if abs(db[i]) > abs(db[i + 1]) else db[i + 1]
        return math.cos(math.radians(e))

    def band_of(dec):
        d = int(math.floor((dec - db[0]) * float(nDec) / (db[nDec] - db[0])))
        if d == nDec and dec <= db[nDec]:
            d = nDec - 1
        return d
    close = S < ml - tol
    for k in range(len(case['ra2'])):
        partners = np.nonzero(close[:, k])[0]
        if len(partners) == 0:
            continue
        out['room:points-with-partner'] = out.get('room:points-with-partner', 0) + 1
        dec, aq = case['dec2'][k], math.fmod(case['ra2'][k] + off, 360.0)
        d0 = band_of(dec)
        if d0 < 0 or d0 > nDec - 1:
            out['room:dec-outside-grid'] = out.get('room:dec-outside-grid', 0) + 1
            continue
        lo = hi = d0
        while dec - db[lo] < ml and lo > 0:
            lo -= 1
        while db[hi + 1] - dec < ml and hi < nDec - 1:
            hi += 1
        pb = {band_of(case['dec1'][int(i)]) for i in partners}
        bad = set()
        for d in range(lo, hi + 1):
            b, n = g['raBounds'][d], g['nRa'][d]
            sh = math.sin(math.radians(0.5 * ml)) / math.sqrt(max(cosmin(d) * math.cos(math.radians(dec)), 1e-300))
            M = 2.0 * math.degrees(math.asin(sh)) if sh < 1.0 else 360.0
            if not (b[0] <= aq < b[n]):
                bad.add('room:outside-RA-extent-of-a-visited-band')
            if not ((b[0] == 0.0 and b[n] == 360.0 and M <= b[1] - b[0]) or M <= b[0] + 360.0 - b[n]):
                bad.add('room:no-seam-room-in-a-visited-band')
                if d in pb:
                    bad.add('room:no-seam-room-in-a-partner-band')
        if not pb <= set(range(lo, hi + 1)):
            bad.add('room:partner-band-not-visited')
        for x in bad or {'room:BandRoom-holds'}:
            out[x] = out.get(x, 0) + 1
    return out


def _gridfacts(case, g):
    """numeric audit (float64, tolerance 1e-9) of the STATEMENTS of the Lean theorems init_shape / chunksInit_room
    (structures GridFacts, GridRoom) on the grid the real chunks.__init__ built: returns the name of the first field
    that does not hold, or None.  Polar-cap grids (an edge clipped to +-90) are outside the real-number theorem only
    through cosDecMin > 0; every other field is checked for them as well."""
    if 'err' in g:
        return None
    ms = _cs_eff(case['ml'], case['cs'])
    db, nDec, off = g['decBounds'], g['nDec'], g['raOffset']
    tol = 1e-9 * max(1.0, ms)

    def lin(b, n):
        return all(abs(b[k] - (b[0] + (b[n] - b[0]) * k / n)) <= 1e-9 * (1 + abs(b[k])) for k in range(n + 1))
    if nDec < 3 or len(db) != nDec + 1 or not db[0] < db[nDec] or not lin(db, nDec):
        return 'dec_edges'
    d1 = case['dec1']
    if not (db[0] == -90.0 or (db[0] > -90.0 and min(d1) >= db[0] + ms - tol and db[0] >= -90.0 + 3 * ms - tol)):
        return 'dec_lo'
    if not (db[nDec] == 90.0 or (db[nDec] < 90.0 and max(d1) <= db[nDec] - ms + tol and db[nDec] <= 90.0 - 3 * ms + tol)):
        return 'dec_hi'
    if off not in (0.0, 60.0, 120.0, 180.0, 240.0, 300.0):
        return 'off'
    if len(g['nRa']) != nDec or len(g['raBounds']) != nDec:
        return 'sizes'
    cur = [math.fmod(a + off, 360.0) for a in case['ra1']]
    for d in range(nDec):
        b, n = g['raBounds'][d], g['nRa'][d]
        e = db[d] if abs(db[d]) > abs(db[d + 1]) else db[d + 1]
        c = math.cos(math.radians(e))
        if not c > 0:
            return 'cpos'
        if n < 1 or len(b) != n + 1 or not b[0] < b[n] or not lin(b, n):
            return 'ra_edges'
        w = ms / c
        emb = b[0] == 0.0 and b[n] == 360.0
        if not (emb or (w < b[0] + tol and b[n] < 360.0 - w + tol)):
            return 'extent'
        if not n <= 3 + c * 360.0 / ms + 1e-9:
            return 'ncells'
        if not (emb or all(b[0] + w - tol <= a <= b[n] - w + tol for a in cur)):
            return 'room'
    return None


def _eval(case):
    """real code + oracle for one case (runs in a worker process)"""
    impl = _impl(case)
    viol, nclose, S, tol = _oracle(case, impl)
    try:
        room = _room(case, impl.get('grid', {'err': 1}), S, tol)
    except Exception as e:        # the audit must never break the check
        room = {'room:audit-error:' + type(e).__name__: 1}
    try:
        gf = _gridfacts(case, impl.get('grid', {'err': 1}))
        room['gridfacts:' + ('hold' if gf is None else 'VIOLATED:' + gf)] = 1
        if gf is not None:
            room['_gridfacts_violated'] = gf
    except Exception as e:
        room['gridfacts:audit-error:' + type(e).__name__] = 1
    # pairs whose separation is within the undecided band, and near-ties of the close separations (greedy order)
    ml = case['ml']
    und = [[int(a), int(b)] for a, b in zip(*np.nonzero(np.abs(S - ml) <= max(tol, 1e-9 * ml)))]
    close = np.sort(np.asarray(S[S < ml + tol], dtype='d'))
    ties = bool(len(close) > 1 and np.any(np.diff(close) <= 1e-9 * (1 + close[1:])))
    return {'impl': impl, 'viol': viol, 'nclose': nclose, 'undecided': und, 'ties': ties, 'room': room}


def _fails_with(sig):
    def f(case):
        impl = _impl(case)
        viol = _oracle(case, impl)[0]
        return any(s == sig for s, _ in viol)
    return f


def _shrink(case, sig):
    """shrink the two point lists while the same class of failure persists"""
    f = _fails_with(sig)
    c = dict(case)
    try:
        idx2 = core.shrink_list(list(range(len(c['ra2']))),
                                lambda ix: f(dict(c, ra2=[c['ra2'][i] for i in ix], dec2=[c['dec2'][i] for i in ix])), 1)
        c = dict(c, ra2=[c['ra2'][i] for i in idx2], dec2=[c['dec2'][i] for i in idx2])
        idx1 = core.shrink_list(list(range(len(c['ra1']))),
                                lambda ix: f(dict(c, ra1=[c['ra1'][i] for i in ix], dec1=[c['dec1'][i] for i in ix])), 2)
        c = dict(c, ra1=[c['ra1'][i] for i in idx1], dec1=[c['dec1'][i] for i in idx1])
    except Exception:
        pass
    return c if f(c) else case


def _what(case, sig, what):
    for s, w in _oracle(case, _impl(case))[0]:
        if s == sig:
            return w
    return what


def _model_canon(m, und):
    if 'err' in m or 'driver_error' in m:
        return m
    u = {tuple(x) for x in und}
    o = m['out']
    pairs = [(a, b, core.b2f(d)) for a, b, d in zip(o['m1'], o['m2'], o['d'])]
    return {'grid': {'nDec': m['nDec'], 'decBounds': [core.b2f(x) for x in m['decBounds']], 'raOffset': core.b2f(m['raOffset']),
                     'nRa': m['nRa'], 'raBounds': [[core.b2f(x) for x in b] for b in m['raBounds']],
                     'chunkList': m['chunkList']},
            'pairs': [p for p in pairs if (p[0], p[1]) not in u]}


def _compare(ctx, case, ev, m):
    """correspondence of the real code with the Float model"""
    impl = ev['impl']
    mc = _model_canon(m, ev['undecided'])
    short = {k: case[k] for k in ('kind', 'ml', 'cs', 'mm')}
    if 'driver_error' in m:
        ctx.disagree('driver', case, impl.get('err', 'ok'), m)
        return
    if 'err' in impl or 'err' in mc:
        ik = impl.get('err', 'ok').split(':')[0:2]
        mk = mc.get('err', 'ok').split(':')[0:1]
        if ('err' in impl) != ('err' in mc) or ('Pydl' in ik[0]) != ('Pydl' in mk[0]):
            ctx.disagree('match-error', case, impl.get('err', 'ok'), mc.get('err', 'ok'))
        return
    g, mg = impl['grid'], mc['grid']
    if 'err' in g:
        ctx.disagree('grid', case, g, 'ok')
        return
    for key in ('nDec', 'nRa', 'chunkList'):
        if g[key] != mg[key]:
            ctx.disagree('grid:' + key, case, g[key], mg[key])
            return
    flat = lambda b: [x for row in b for x in row]
    for key, a, b in (('decBounds', g['decBounds'], mg['decBounds']), ('raOffset', [g['raOffset']], [mg['raOffset']]),
                      ('raBounds', flat(g['raBounds']), flat(mg['raBounds']))):
        if len(a) != len(b) or not all(core.close(x, y) for x, y in zip(a, b)):
            ctx.disagree('grid:' + key, case, a[:12], b[:12])
            return
        if a != b:
            ctx.count('grid-floats-not-bit-identical')
    u = {tuple(x) for x in ev['undecided']}
    ip = [(a, b, d) for a, b, d in zip(*impl['ok']) if (a, b) not in u]
    mp = mc['pairs']
    if case['mm'] > 0 and (ev['ties'] or u):
        ctx.count('greedy-compare-skipped-ties')
        return
    if sorted((a, b) for a, b, _ in ip) != sorted((a, b) for a, b, _ in mp):
        ctx.disagree('pairs', case, sorted((a, b) for a, b, _ in ip)[:40], sorted((a, b) for a, b, _ in mp)[:40])
        return
    di = {(a, b): d for a, b, d in ip}
    for a, b, d in mp:
        if abs(di[(a, b)] - d) > 1e-9 * max(abs(d), 1e-300) + 1e-13:
            ctx.disagree('distance', case, di[(a, b)], d)
            return
    if any(mp[k][2] > mp[k + 1][2] for k in range(len(mp) - 1)):
        ctx.disagree('model-order', case, 'sorted', 'model output not sorted')


def _pool():
    import multiprocessing as mp
    return mp.get_context('fork').Pool(min(16, os.cpu_count() or 2))


def _process(ctx, cases, search=True):
    lines = [_line(c) for c in cases]
    core.driver([])     # build the driver once, before several driver processes are started in parallel
    with _pool() as pool:
        fut = pool.map_async(_eval, cases, chunksize=4)
        model = core.driver_parallel(lines, workers=8, chunk=max(50, len(lines) // 8 + 1))
        evs = fut.get()
    reported = set()
    ndis0 = len(ctx.disagreements)
    for c, ev, m in zip(cases, evs, model):
        ctx.seen(c, nontrivial=ev['nclose'] > 0)
        ctx.count('kind:' + c['kind'])
        ctx.count('maxmatch:%d' % c['mm'])
        ctx.count('chunksize:' + ('default' if c['cs'] is None else '%sx' % _ratio_bin(c['cs'] / c['ml'])))
        ctx.count('outcome:' + ('exception' if 'err' in ev['impl'] else 'ok'))
        ctx.count('close-pairs', ev['nclose'])
        if ev['ties']:
            ctx.count('cases-with-distance-ties')
        for key, val in ev.get('room', {}).items():
            if key == '_gridfacts_violated':
                # the real grid contradicts the statement of init_shape / chunksInit_room: model and code differ
                ctx.disagree('gridfacts:' + val, c, ev['impl'].get('grid'), 'GridFacts/GridRoom field %s' % val)
            else:
                ctx.count(key, val)
        if isinstance(m, dict) and 'nRa' in m:
            ctx.count('model:cells-with-wrap-range' if any(n > 1 for n in m['nRa']) else 'model:single-cell-bands')
            if m['nRa'][0] == 1 or m['nRa'][-1] == 1:
                ctx.count('model:polar-band')
            if core.b2f(m['raOffset']) != 0.0:
                ctx.count('model:raOffset-nonzero')
            if any(b[0] == core.f2b(0.0) and b[-1] == core.f2b(360.0) for b in m['raBounds']):
                ctx.count('model:band-embraces-seam')
            stored = {k for row in m['chunkList'] for cell in row for k in cell}
            if len(stored) < len(c['ra2']):
                ctx.count('model:second-list-points-dropped-by-getbounds')
        _compare(ctx, c, ev, m)
        for sig, what in ev['viol']:
            if sig in reported:
                ctx.count('violation-repeats:' + sig)
                continue
            reported.add(sig)
            sc = _shrink(c, sig)
            ctx.violate(sig, _what(sc, sig, what), sc)
    if search and len(ctx.disagreements) > ndis0:
        _search(ctx, [d['case'] for d in ctx.disagreements[ndis0:ndis0 + 3]])
        if not ctx.violations:
            _search_cells(ctx, ctx.disagreements[ndis0:ndis0 + 40])
        if not ctx.violations:
            _search_rings(ctx, ctx.disagreements[ndis0:])


def _ratio_bin(x):
    for b in (1.01, 2, 4, 8, 1e9):
        if x <= b * (1 + 1e-9):
            return '<=%g' % b if b < 1e9 else '>8'


def _search(ctx, seeds):
    """failing-input search on the real code around disagreeing cases (oracle only)"""
    r = np.random.default_rng(ctx.rng.getrandbits(64))
    extra = []
    for c in seeds:
        if not isinstance(c, dict) or 'ra1' not in c:
            continue
        for _ in range(ctx.n(10, 40)):
            d = dict(c, kind='search')
            s = c['ml'] * 0.05
            d['ra2'] = [float((x + r.uniform(-s, s)) % 360.0) for x in c['ra2']]
            d['dec2'] = [float(min(89.9999, max(-89.9999, x + r.uniform(-s, s)))) for x in c['dec2']]
            d['mm'] = 0
            extra.append(d)
    with _pool() as pool:
        evs = pool.map(_eval, extra, chunksize=4)
    seen = {v['signature'] for v in ctx.violations}
    for c, ev in zip(extra, evs):
        ctx.count('search-cases')
        for sig, what in ev['viol']:
            if sig not in seen:
                seen.add(sig)
                sc = _shrink(c, sig)
                ctx.violate(sig, _what(sc, sig, what), sc)


def _search_cells(ctx, dis):
    """failing-input search for a cell-assignment shortfall: the model (whose margins are PROVED sufficient) stores second-list
    point q in cell (i, j), the real getbounds/assign does not.  A first-list point p placed inside that cell within the match
    length of q is a pair the real spherematch then cannot find.  Candidates are evaluated by the ordinary oracle on the real
    code, so a candidate that does not fail is simply dropped."""
    extra = []
    for d in dis:
        if d.get('stream') != 'grid:chunkList' or not isinstance(d.get('case'), dict):
            continue
        c, icl, mcl = d['case'], d['impl'], d['model']
        try:
            ch = _grid_of(c)
        except Exception:
            continue
        todo = []
        for i in range(min(len(icl), len(mcl))):
            for j in range(min(len(icl[i]), len(mcl[i]))):
                for q in mcl[i][j]:
                    if q not in icl[i][j]:
                        todo.append((i, j, q))
        for i, j, q in todo[:12]:
            try:
                dlo, dhi = float(ch.decBounds[i]), float(ch.decBounds[i + 1])
                rlo, rhi = float(ch.raBounds[i][j]), float(ch.raBounds[i][j + 1])
            except Exception:
                continue
            t = np.linspace(1e-6, 1 - 1e-6, 41)
            gd = np.clip(dlo + (dhi - dlo) * t, -89.9999, 89.9999)
            gr = np.fmod(rlo + (rhi - rlo) * t - float(ch.raOffset) + 720.0, 360.0)
            R, D = np.meshgrid(gr, gd)
            S = np.asarray(_sepmat(R.ravel(), D.ravel(), [c['ra2'][q]], [c['dec2'][q]]), dtype='d')[:, 0]
            for k in np.argsort(S)[:2]:
                if S[k] < c['ml'] * (1 - 1e-7):
                    e = dict(c, kind='search-cell', mm=0)
                    e['ra1'] = list(c['ra1']) + [float(R.ravel()[k])]
                    e['dec1'] = list(c['dec1']) + [float(D.ravel()[k])]
                    extra.append(e)
        if len(extra) >= 24:
            break
    if not extra:
        return
    with _pool() as pool:
        evs = pool.map(_eval, extra, chunksize=2)
    seen = {v['signature'] for v in ctx.violations}
    for c, ev in zip(extra, evs):
        ctx.count('search-cell-cases')
        for sig, what in ev['viol']:
            if sig not in seen:
                seen.add(sig)
                sc = _shrink(c, sig)
                ctx.violate(sig, _what(sc, sig, what), sc)


def _search_rings(ctx, dis):
    """failing-input search for any grid disagreement: the first list of the disagreeing case is kept (so is its grid), the second
    list is replaced by rings of partners around its points (8 directions, 0.3 and 0.9 match lengths) - every one of them is a
    close pair the real spherematch must return; judged by the ordinary oracle."""
    extra = []
    def seamdist(c):
        return min(min(a, 360.0 - a) * max(math.cos(math.radians(b)), 1e-3) / c['ml'] for a, b in zip(c['ra1'], c['dec1']))
    cs_ = [d.get('case') for d in dis if isinstance(d.get('case'), dict) and 'ra1' in d.get('case') and d['case']['ra1']]
    cs_ = sorted(cs_, key=seamdist)[:80] + cs_[:4]
    for c in cs_:
        ra2, dec2 = [], []
        pts = sorted(zip(c['ra1'], c['dec1']), key=lambda t: min(t[0], 360.0 - t[0]) * max(math.cos(math.radians(t[1])), 1e-3))
        for a, b in pts[:40]:
            cd = max(math.cos(math.radians(b)), 1e-3)
            for k in range(8):
                for f in (0.3, 0.9):
                    dd = b + f * c['ml'] * math.sin(k * math.pi / 4)
                    if abs(dd) < 89.999:
                        ra2.append(float((a + f * c['ml'] * math.cos(k * math.pi / 4) / cd) % 360.0))
                        dec2.append(float(dd))
        if ra2:
            extra.append(dict(c, kind='search-ring', ra2=ra2, dec2=dec2, mm=0))
    if not extra:
        return
    with _pool() as pool:
        evs = pool.map(_eval, extra, chunksize=1)
    seen = {v['signature'] for v in ctx.violations}
    for c, ev in zip(extra, evs):
        ctx.count('search-ring-cases')
        for sig, what in ev['viol']:
            if sig not in seen:
                seen.add(sig)
                sc = _shrink(c, sig)
                ctx.violate(sig, _what(sc, sig, what), sc)


def run(ctx):
    core.audit(ctx, LEAN_MODULES, THEOREMS)
    _process(ctx, _cases(ctx))


def replay(ctx, case):
    core.audit(ctx, LEAN_MODULES, THEOREMS)
    _process(ctx, [case], search=False)

"""C05 - spheregroup partitions points into friends-of-friends components (DESIGN §5 C05)."""
import math
import itertools
import warnings
import numpy as np
from harness import core

ID = 'C05'
LEAN_MODULES = ['PydlVerif.Props.C05']
P = 'PydlVerif.C05.'
THEOREMS = [P + t for t in (
    'lists_of_labels', 'renumber_first_appearance', 'resolve_roots', 'groups_lists', 'groups_sound',
    'groups_complete', 'groups_fof', 'sphere_lists_partial', 'merge_refines', 'spheregroup_fof',
    'merge_ngroups', 'spheregroup_ngroups',
    'close_is_sep', 'grid_own_cell_pair', 'grid_close_pair_shares_cell', 'grid_no_point_twice', 'grid_occupancy_9n', 'cover_fof_grid',
    'spheregroup_fof_grid',
    'spheregroup_returns', 'spheregroup_fof_total')]
RULE = ('abstract graphs driven through the real class `groups` (callable separation): every graph on <=5 (quick) / <=6 (thorough) '
        'vertices, random sparse/dense/chain/star/stale-label graphs on 6-40 vertices, random directed relations (model only); '
        'spheregroup on chains crossing many cells, RA-seam clusters, polar caps, all-sky scatter, lattice points on cell edges, '
        'blobs, duplicates, permuted orders, link lengths 1 arcsec-20 deg, chunk sizes None / <4l / 4l / larger; every spheregroup '
        'case also runs the END-TO-END model (grid built by the model itself at binary64): cell lists and all four arrays exact. '
        'A case is non-trivial when it has at least one close pair of distinct points; distinct = distinct case payloads')
TRUSTED = ['hand-written models lean/PydlVerif/Model/Fof.lean (groups, friendsoffriends, renumbering) and Model/FofGrid.lean (spheregroup end to end, '
           'on the grid model Model/Sphere.lean shared with C04), tied to the code by the I/O correspondence of this run',
           'the grid theorems hold over the real numbers with exact cos/sin/arcsin/sqrt: IEEE rounding of the cell edges, of the RA margin and of gcirc '
           'at the threshold is outside the proof (the binary64 run of the same model is compared cell by cell with the real grid on every case)',
           'gcirc / libm: the closeness matrix handed to the abstract model is computed with the real gcirc, the end-to-end model uses its own '
           'transcription of gcirc(units=0) at binary64, the oracle uses its own vector formula']
ASSUMPTIONS = ['the separation test is symmetric and reflexive (checked on every closeness matrix; proved for the model over the reals: close_is_sep)',
               'no pair lies within 1e-9 relative (+1e-12 deg) of the link length: such inputs are regenerated, not judged (a rounding matter '
               'only: over the reals spheregroup_fof_grid covers a separation EXACTLY equal to the link length, grid_close_pair_shares_cell)',
               'two or more points; link length > 0; all coordinates finite, -90 <= dec <= 90, 0 <= ra < 360',
               'spheregroup_fof_grid / grid_occupancy_9n: |dec| < 90 and, over the reals, a grid that is not clipped to a pole (cos 90deg = 0 makes the '
               'constructor raise; binary64 lives on cos(pi/2) = 6e-17): polar-cap grids are covered by the correspondence, the CoverFoF evaluation '
               'and the oracle only']
LEVEL_TEXT = ('Machine-checked Lean 4 theorems about an executable model of spheregroup END TO END (chunk size rule, chunks.__init__, assign of the '
              'same list, getbounds, friendsoffriends, class groups, renumbering, rebuilt lists, recount). spheregroup_fof_grid (over the reals, Mathlib '
              'trigonometry): whenever the model returns, with |Dec| < 90 and link length > 0, its output IS the '
              'friends-of-friends partition - same label <=> joined by a chain of pairs with separation <= link length (close_is_sep), labels 0,1,2,... in '
              'order of first member, first/next exactly the sorted member lists, mult[c] the size of group c for every c, every loop terminates, no '
              'index leaves an array and the 9n-entry label table does not overflow - for ANY chunk size; no hypothesis about the grid. '
              'spheregroup_returns / spheregroup_fof_total: it does return for every input whose declinations stay 4.5 chunk sizes away from the poles. '
              'The former hypothesis CoverFoF is now proved for the grid the code builds (cover_fof_grid), from the grid theorems of C04: '
              'grid_own_cell_pair (every point is stored in its own cell together with every point closer than the link length), '
              'grid_close_pair_shares_cell (a pair at EXACTLY the link length still shares a cell: the downward loops of getbounds need no strictness), '
              'grid_no_point_twice (chunkDone bookkeeping), grid_occupancy_9n (at most 3 declination bands x 3 RA cells per point, hence at most 9n entries: '
              'the inequality behind the allocation of 9*nPoints labels). spheregroup_fof (kept): the same conclusion for ALL cell lists with CoverFoF, '
              'all reflexive symmetric relations; its parts groups_fof, merge_refines (union-find with path compression = finest equivalence containing '
              'the per-cell partitions), resolve_roots, renumber_first_appearance, lists_of_labels. The models are tied to the code on every run by exact '
              'equality of all outputs: abstract graphs through the REAL class groups (all graphs on <=6 vertices + random), abstract covers through the REAL '
              'friendsoffriends, spheregroup runs with captured cells, and the end-to-end model at binary64 against the real cell lists and output arrays; '
              'an independent union-find over brute-force separations decides the property itself on every case.')
LEVEL_NOTE = ('Proved over the reals, not over binary64: rounding of cell edges, RA margins and of gcirc at the threshold is outside the proof (the binary64 '
              'run of the same model agrees with the real code cell by cell on every generated case). Over the reals chunks.__init__ raises when a declination edge is clipped to +-90 '
              '(cos 90deg = 0; the binary64 code lives on cos(pi/2) = 6e-17 > 0), so polar-cap grids are outside the grid theorems: for them CoverFoF incl. '
              'occupancy <= 9n is evaluated on the captured cells of every case and counted in the evidence (max cells per point observed: 7 in a directed '
              'search of 60 000 polar configurations, never above 9), not proved. The hand-written models are validated by the correspondence sample only. '
              'sphere_lists_partial and spheregroup_fof are kept unchanged (they hold for arbitrary cell lists).')
TECHNIQUE = 'Lean 4 model + theorems (core Lean for the combinatorial part, Mathlib reals for the grid); bounded-exhaustive and random I/O correspondence; independent union-find oracle'


# ---------------------------------------------------------------- independent oracle
def _uf(n, pairs):
    parent = list(range(n))

    def find(x):
        while parent[x] != x:
            parent[x] = parent[parent[x]]
            x = parent[x]
        return x
    for a, b in pairs:
        ra, rb = find(a), find(b)
        if ra != rb:
            parent[max(ra, rb)] = min(ra, rb)
    return [find(x) for x in range(n)]


def _expected(n, pairs):
    """canonical labels (order of first member), mult, first, next - all of length n"""
    root = _uf(n, pairs)
    num, lab = {}, []
    for x in range(n):
        if root[x] not in num:
            num[root[x]] = len(num)
        lab.append(num[root[x]])
    members = [[] for _ in range(len(num))]
    for x in range(n):
        members[lab[x]].append(x)
    mult = [len(m) for m in members] + [0] * (n - len(members))
    first = [m[0] for m in members] + [-1] * (n - len(members))
    nxt = [-1] * n
    for m in members:
        for a, b in zip(m, m[1:]):
            nxt[a] = b
    return lab, mult, first, nxt, len(members)


def _judge(n, pairs, got, full_mult=True):
    """compare the implementation's arrays with the statement; returns (signature, text) or None"""
    lab, mult, first, nxt, ng = _expected(n, pairs)
    g = got['in']
    if len(g) != n or any(len(got[k]) != n for k in ('mult', 'first', 'next')):
        return 'shape', 'output arrays do not have one entry per point'
    for a in range(n):
        for b in range(a + 1, n):
            if (lab[a] == lab[b]) and g[a] != g[b]:
                return 'partition:split', 'points %d and %d are joined by a chain but get groups %d and %d' % (a, b, g[a], g[b])
            if (lab[a] != lab[b]) and g[a] == g[b]:
                return 'partition:merged', 'points %d and %d are not joined by any chain but both get group %d' % (a, b, g[a])
    if g != lab:
        return 'numbering', 'groups are not numbered in order of first member: got %s want %s' % (g, lab)
    m = got['mult'] if full_mult else got['mult'][:ng] + [0] * (n - ng)
    if m != mult:
        return 'mult', 'multiplicity %s, want %s' % (got['mult'], mult)
    if got['first'] != first:
        return 'first', 'first %s, want %s' % (got['first'], first)
    if got['next'] != nxt:
        return 'next', 'next %s, want %s' % (got['next'], nxt)
    return None



# ---------------------------------------------------------------- abstract cell covers through the real cross-chunk merge
def _real_friends(n, rows, cells):
    """the REAL chunks.friendsoffriends (cross-chunk union-find) on an abstract cover: `cells` is a list of bands, each a
    list of cells, each a list of point indices; closeness comes from `rows` through the real class `groups`."""
    from pydl.pydlutils.spheregroup import chunks, groups

    class AbstractChunks(chunks):
        def __init__(self):
            pass

        def chunkfriendsoffriends(self, ra, dec, chunkList, linkSep):
            idx = [int(ra[k]) for k in chunkList]
            coords = np.array(idx, dtype='d').reshape(1, len(idx))

            def sep(a, b):
                return 0.0 if (rows[int(a[0])] >> int(b[0])) & 1 else 1.0
            return groups(coords, 0.5, sep)
    a = AbstractChunks()
    a.nDec = len(cells)
    a.nRa = [len(b) for b in cells]
    a.chunkList = cells
    try:
        with core.time_limit(60):
            out = a.friendsoffriends(np.arange(n, dtype='d'), np.zeros(n), 0.5)
    except Exception as e:
        return {'err': core.exc_kind(e), 'msg': str(e)[:200]}
    return {'in': [int(x) for x in out[0]], 'mult': [int(x) for x in out[1]], 'first': [int(x) for x in out[2]],
            'next': [int(x) for x in out[3]], 'ng': int(out[4])}


def _random_cover(rng, n, rows, complete=True):
    """a cover satisfying CoverFoF by construction: every point in >= 1 cell, every close pair shares a cell,
    no point twice in a cell; cells grouped into bands in a random visiting order.  complete=False: some close
    pairs are left without a common cell (then the merge must produce the join of the per-cell partitions)"""
    k = rng.randrange(2, 9)
    cells = [set() for _ in range(k)]
    home = [rng.randrange(k) for _ in range(n)]
    for i in range(n):
        cells[home[i]].add(i)
    skip = 0.0 if complete else rng.choice((0.3, 0.6, 1.0))
    for i in range(n):
        for j in range(i + 1, n):
            if (rows[i] >> j) & 1 and not any(i in c and j in c for c in cells) and not (skip and rng.random() < skip):
                r = rng.random()
                if r < 0.4:
                    cells[home[i]].add(j)
                elif r < 0.8:
                    cells[home[j]].add(i)
                else:
                    c = rng.randrange(k)
                    cells[c].update((i, j))
    for _ in range(rng.randrange(0, n // 2 + 1)):     # margins: extra memberships
        cells[rng.randrange(k)].add(rng.randrange(n))
    flat = []
    for c in cells:
        m = list(c)
        rng.shuffle(m)
        flat.append(m)
    rng.shuffle(flat)
    bands, i = [], 0
    while i < len(flat):
        w = rng.randrange(1, 4)
        bands.append(flat[i:i + w])
        i += w
    return bands


def _hook_case(rng):
    """the shape that defeats a one-hop root lookup: labels a, b, x with x -> b, then b -> a, then a cell holding only
    x-labelled points (plus random relabelling of the points)"""
    # points: 0,1 (piece a)  2,3 (piece b)  4,5 (tail x)  chain 1-2 joins a and b, 3-4 joins b and x, 4-5 inside x
    edges = [(0, 1), (2, 3), (3, 4), (4, 5), (1, 2)]
    cells = [[0, 1], [2, 3], [3, 4], [1, 2], [4, 5]]
    extra = rng.randrange(0, 4)
    n = 6 + extra
    for e in range(extra):
        a = 6 + e
        b = rng.randrange(0, a)
        if rng.random() < 0.7:
            edges.append((a, b))
        cells[rng.randrange(len(cells))].append(a) if rng.random() < 0.5 else cells.append([a, b])
    perm = list(range(n))
    rng.shuffle(perm)
    rows = _rows_of_edges(n, [(perm[a], perm[b]) for a, b in edges])
    cs = [[perm[v] for v in dict.fromkeys(c)] for c in cells]
    for i in range(n):       # every point somewhere, every edge covered
        if not any(perm[i] in c for c in cs):
            cs.append([perm[i]])
    for a, b in edges:
        if not any(perm[a] in c and perm[b] in c for c in cs):
            cs.append([perm[a], perm[b]])
    bands, i = [], 0
    while i < len(cs):
        w = rng.randrange(1, 3)
        bands.append(cs[i:i + w])
        i += w
    return n, rows, bands


def _merge(ctx, cases=None, oracle_only=False):
    rng = ctx.rng
    if cases is None:
        cases = []
        for _ in range(ctx.n(3000, 60000)):
            if rng.random() < 0.15:
                n, rows, bands = _hook_case(rng)
                kind = 'hook'
            else:
                n = rng.randrange(2, 15)
                kind, rows = _random_graph(rng, n)
                partial = rng.random() < 0.25
                bands = _random_cover(rng, n, rows, complete=not partial)
                if partial:
                    kind = 'partial-cover:' + kind
            cases.append({'stream': 'merge', 'kind': kind, 'n': n, 'rows': rows, 'cells': bands})
    model = [None] * len(cases)
    if not oracle_only:
        lines = [{'p': 'C05', 'op': 'friends', 'g': [c['n']] + c['rows'],
                  'chunks': [cell for band in c['cells'] for cell in band if cell]} for c in cases]
        model = core.driver_parallel(lines, workers=8, chunk=2000)
    for c, m in zip(cases, model):
        impl = _real_friends(c['n'], c['rows'], c['cells'])
        ctx.seen(c)
        ctx.count('merge:' + c['kind'])
        ctx.count('merge:cells=%d' % sum(len(b) for b in c['cells']))
        cmp = {k: v for k, v in impl.items() if k != 'msg'}
        if m is not None and cmp != m and not ('err' in cmp and 'err' in m):
            ctx.disagree('merge', c, cmp, m)
        if 'err' in impl:
            ctx.violate('merge:exception:' + impl['err'], 'chunks.friendsoffriends raised %s (%s) on a valid cover' % (impl['err'], impl.get('msg')), c)
            continue
        # hypotheses of merge_refines / spheregroup_fof on this cover (counted in the evidence)
        flat = [cell for band in c['cells'] for cell in band]
        pairs = _pairs_of_rows(c['n'], c['rows'])
        hyp = _cover_hyp(c['n'], flat, pairs)
        ctx.count('merge:CoverFoF=' + hyp)
        # oracle (statement of merge_refines): the partition is the FINEST one containing every per-cell partition, i.e. the
        # components of the graph of close pairs that share a cell (= all close pairs, the components, under CoverFoF);
        # the numbering is canonicalised later by spheregroup
        cells_of = [set() for _ in range(c['n'])]
        for k, cell in enumerate(flat):
            for p_ in cell:
                cells_of[p_].add(k)
        root = _uf(c['n'], [(a, b) for a, b in pairs if cells_of[a] & cells_of[b]])
        g = impl['in']
        bad = None
        for a in range(c['n']):
            for b in range(a + 1, c['n']):
                if (root[a] == root[b]) != (g[a] == g[b]):
                    bad = ('merge:partition:' + ('split' if root[a] == root[b] else 'merged'),
                           'points %d and %d: chain-connected=%s but labels %d, %d' % (a, b, root[a] == root[b], g[a], g[b]))
                    break
            if bad:
                break
        if not bad and impl['ng'] != len(set(root)):
            bad = ('merge:ngroups', 'nGroups %d for %d components' % (impl['ng'], len(set(root))))
        if bad:
            ctx.violate(bad[0], bad[1], c)


# ---------------------------------------------------------------- abstract graphs through the real class `groups`
def _real_groups(n, rows):
    """rows[i] bit j = close(i, j).  The real class, driven through its callable `separation`."""
    from pydl.pydlutils.spheregroup import groups
    coords = np.arange(n, dtype='d').reshape(1, n)

    def sep(a, b):
        return 0.0 if (rows[int(a[0])] >> int(b[0])) & 1 else 1.0
    try:
        g = groups(coords, 0.5, sep)
    except Exception as e:
        return {'err': core.exc_kind(e)}
    return {'in': [int(x) for x in g.inGroup], 'mult': [int(x) for x in g.multGroup],
            'first': [int(x) for x in g.firstGroup], 'next': [int(x) for x in g.nextGroup], 'ng': int(g.nGroups)}


def _rows_of_edges(n, edges, reflexive=True):
    rows = [(1 << i) if reflexive else 0 for i in range(n)]
    for a, b in edges:
        rows[a] |= 1 << b
        rows[b] |= 1 << a
    return rows


def _all_graphs(n):
    prs = list(itertools.combinations(range(n), 2))
    for mask in range(1 << len(prs)):
        yield _rows_of_edges(n, [p for k, p in enumerate(prs) if (mask >> k) & 1])


def _random_graph(rng, n):
    kind = rng.choice(['sparse', 'sparse', 'gnp', 'chain', 'stars', 'stale', 'forest', 'dense'])
    perm = list(range(n))
    rng.shuffle(perm)
    edges = []
    if kind == 'sparse':
        p = rng.uniform(0.3, 2.5) / max(1, n)
        edges = [(a, b) for a in range(n) for b in range(a + 1, n) if rng.random() < p]
    elif kind == 'gnp':
        p = rng.random() ** 2
        edges = [(a, b) for a in range(n) for b in range(a + 1, n) if rng.random() < p]
    elif kind == 'dense':
        p = rng.uniform(0.5, 1.0)
        edges = [(a, b) for a in range(n) for b in range(a + 1, n) if rng.random() < p]
    elif kind == 'chain':
        # a few paths whose vertices come in scrambled index order
        cuts = sorted(rng.sample(range(1, n), min(n - 1, rng.randrange(0, 4)))) if n > 1 else []
        segs = [perm[a:b] for a, b in zip([0] + cuts, cuts + [n])]
        for s in segs:
            edges += list(zip(s, s[1:]))
    elif kind == 'stars':
        hubs = perm[:max(1, n // rng.randrange(3, 9))]
        for v in perm[len(hubs):]:
            if rng.random() < 0.8:
                edges.append((v, rng.choice(hubs)))
    elif kind == 'stale':
        # groups that are founded early and merged late through high-index vertices (stale labels of unvisited points)
        k = max(2, n // 3)
        low, high = list(range(k)), list(range(k, n))
        for v in high:
            for _ in range(rng.randrange(1, 3)):
                edges.append((rng.choice(low), v))
        for _ in range(rng.randrange(0, 3)):
            if len(high) > 1:
                edges.append(tuple(rng.sample(high, 2)))
        for _ in range(rng.randrange(0, 2)):
            edges.append(tuple(rng.sample(low, 2)))
    else:  # forest
        for v in range(1, n):
            if rng.random() < 0.7:
                edges.append((perm[v], perm[rng.randrange(0, v)]))
    return kind, _rows_of_edges(n, edges)


def _random_relation(rng, n):
    """arbitrary (directed, possibly irreflexive) relation: model-vs-code only"""
    p = rng.choice([0.05, 0.15, 0.4, 0.8])
    return [sum(1 << j for j in range(n) if rng.random() < p) for _ in range(n)]


def _pairs_of_rows(n, rows):
    return [(a, b) for a in range(n) for b in range(n) if a != b and (rows[a] >> b) & 1]


def _graph_case(kind, n, rows):
    return {'stream': 'graph', 'kind': kind, 'n': n, 'rows': rows}


def _graphs(ctx, cases=None, oracle_only=False):
    rng = ctx.rng
    if cases is None:
        cases = []
        for n in range(0, ctx.n(6, 7)):
            for rows in _all_graphs(n):
                cases.append(_graph_case('all-%d' % n, n, rows))
        for _ in range(ctx.n(2500, 20000)):
            n = rng.randrange(6, 41) if ctx.tier != 'thorough' else rng.randrange(7, 41)
            kind, rows = _random_graph(rng, n)
            cases.append(_graph_case(kind, n, rows))
        for _ in range(ctx.n(500, 5000)):
            n = rng.randrange(1, 13)
            cases.append(_graph_case('directed', n, _random_relation(rng, n)))
    model = [None] * len(cases)
    if not oracle_only:
        B = 400
        lines = [{'p': 'C05', 'op': 'groups', 'gs': [[c['n']] + c['rows'] for c in cases[i:i + B]]}
                 for i in range(0, len(cases), B)]
        out = core.driver_parallel(lines, workers=12, chunk=max(1, len(lines) // 12))
        model = [m for blk in out for m in (blk if isinstance(blk, list) else [blk] * B)][:len(cases)]
    impls = _pmap(ctx, _real_groups_case, cases)
    for c, impl, m in zip(cases, impls, model):
        n, rows = c['n'], c['rows']
        pairs = _pairs_of_rows(n, rows)
        ctx.seen(c, nontrivial=bool(pairs))
        ctx.count('graph:' + c['kind'])
        if not oracle_only and impl != m:
            ctx.disagree('groups', c, impl, m)
        if c['kind'] == 'directed':
            continue
        if 'err' in impl:
            ctx.violate('groups:exception:' + impl['err'], 'groups raised %s' % impl['err'], c)
            continue
        ctx.count('graph:components=%s' % min(impl['ng'], 6))
        bad = _judge(n, pairs, impl, full_mult=False)
        if bad:
            small = _shrink_graph(c, bad[0])
            ctx.violate('groups:' + bad[0], 'class groups on an abstract graph: ' + bad[1], small)


def _real_groups_case(c):
    return _real_groups(c['n'], c['rows'])


def _shrink_graph(c, sig):
    n, rows = c['n'], c['rows']

    def fails(vs):
        idx = {v: k for k, v in enumerate(vs)}
        r2 = [sum(1 << idx[b] for b in vs if (rows[a] >> b) & 1) for a in vs]
        got = _real_groups(len(vs), r2)
        if 'err' in got:
            return False
        bad = _judge(len(vs), _pairs_of_rows(len(vs), r2), got, full_mult=False)
        return bool(bad) and bad[0] == sig
    vs = core.shrink_list(list(range(n)), fails, minlen=1)
    idx = {v: k for k, v in enumerate(vs)}
    return _graph_case(c['kind'] + ':shrunk', len(vs), [sum(1 << idx[b] for b in vs if (rows[a] >> b) & 1) for a in vs])


# ---------------------------------------------------------------- spheregroup
def _sep_oracle_deg(ra, dec):
    """own formula: angle between unit vectors, atan2(|a x b|, a.b), degrees (n x n)"""
    r, d = np.radians(ra), np.radians(dec)
    v = np.stack([np.cos(d) * np.cos(r), np.cos(d) * np.sin(r), np.sin(d)], axis=1)
    dot = v @ v.T
    cr = np.cross(v[:, None, :], v[None, :, :])
    return np.degrees(np.arctan2(np.sqrt((cr ** 2).sum(axis=2)), dot))


def _sep_gcirc_rad(ra, dec):
    from pydl.goddard.astro import gcirc
    x = np.deg2rad(np.vstack((ra, dec)))
    with np.errstate(invalid='ignore'):
        return gcirc(x[0][:, None], x[1][:, None], x[0][None, :], x[1][None, :], units=0)


def _undecided(ra, dec, ll):
    so = _sep_oracle_deg(ra, dec)
    sg = np.rad2deg(_sep_gcirc_rad(ra, dec))
    tol = 1e-9 * ll + 1e-12
    off = ~np.eye(len(ra), dtype=bool)
    if ll == 0:
        # linking length 0 joins exactly coincident positions: undecided only when a separation is tiny but not zero
        return bool((((so > 0) & (so <= tol)) | ((so == 0) != (sg == 0)))[off].any() or np.isnan(sg[off]).any())
    return bool((np.abs(so - ll)[off] <= tol).any() or (np.abs(sg - ll)[off] <= tol).any() or np.isnan(sg[off]).any())


def _run_sphere(c):
    """real spheregroup with the cell lists captured; closeness matrix as the code computes it"""
    from unittest import mock
    from pydl.pydlutils import spheregroup as sg
    # whole-degree positions may arrive as integer arrays (a lattice, a catalogue of field centres): the same positions
    ra = np.array(c['ra'], dtype=c.get('cdtype', 'd'))
    dec = np.array(c['dec'], dtype=c.get('cdtype', 'd'))
    ll = c['ll']
    cs = c['chunksize']
    n = len(ra)
    cap = {}
    orig = sg.chunks.friendsoffriends

    def spy(self, r, d, link):
        cap['chunks'] = [[int(x) for x in cell] for band in self.chunkList for cell in band]
        cap['grid'] = (int(self.nDec), [int(x) for x in self.nRa])
        return orig(self, r, d, link)
    res = {}
    try:
        with warnings.catch_warnings():
            warnings.simplefilter('ignore')
            with mock.patch.object(sg.chunks, 'friendsoffriends', spy):
                # every search of the cross-chunk merge terminates (merge_refines): a call that does not return is an answer
                with core.time_limit(60 + n // 10):
                    out = sg.spheregroup(ra.copy(), dec.copy(), ll, chunksize=cs)
        res['impl'] = {'in': [int(x) for x in out[0]], 'mult': [int(x) for x in out[1]],
                       'first': [int(x) for x in out[2]], 'next': [int(x) for x in out[3]]}
    except Exception as e:
        res['impl'] = {'err': core.exc_kind(e), 'msg': str(e)[:200]}
    res['chunks'] = cap.get('chunks')
    res['grid'] = cap.get('grid')
    if n >= 1:
        closem = _sep_gcirc_rad(ra, dec) <= np.deg2rad(ll)
        res['rows'] = [int(sum(1 << j for j in range(n) if closem[i, j])) for i in range(n)]
        res['symmetric'] = bool((closem == closem.T).all() and closem.diagonal().all())
        so = _sep_oracle_deg(ra, dec) <= ll
        res['pairs'] = [(int(a), int(b)) for a, b in zip(*np.nonzero(so)) if a < b]
        res['formulas_agree'] = bool((so == closem).all())
    return res


def _judge_sphere(c, r):
    """(signature, text) or None: the statement decided by the independent oracle"""
    n = len(c['ra'])
    impl = r['impl']
    if 'err' in impl:
        if n == 1 and impl['err'].startswith('PydlException'):
            return None
        return 'spheregroup:exception:' + impl['err'], 'spheregroup raised %s (%s)' % (impl['err'], impl.get('msg'))
    bad = _judge(n, r['pairs'], impl)
    if bad:
        return 'spheregroup:' + bad[0], bad[1]
    return None


def _cover_hyp(n, ch, pairs):
    """the hypothesis CoverFoF of spheregroup_fof (Props/C05.lean) on a list of cells"""
    cells_of = [set() for _ in range(n)]
    for k, cell in enumerate(ch):
        for p in cell:
            cells_of[p].add(k)
    if any(not s for s in cells_of):
        return 'point-in-no-cell'
    for a, b in pairs:
        if not (cells_of[a] & cells_of[b]):
            return 'close-pair-shares-no-cell'
    if any(len(set(cell)) != len(cell) for cell in ch):
        return 'point-twice-in-a-cell'
    if sum(len(cell) for cell in ch) > 9 * n:
        return 'occupancy-above-9n'
    return 'ok'


def _cover(r, n):
    """CoverFoF on the captured cell lists"""
    if r['chunks'] is None:
        return None
    return _cover_hyp(n, r['chunks'], r['pairs'])


def _only_pole_dropped(c, r):
    """every point that is in no cell has dec = +90 up to rounding (the band index formula yields nDec)"""
    inside = set(p for cell in r['chunks'] for p in cell)
    out = [p for p in range(len(c['ra'])) if p not in inside]
    return bool(out) and all(c['dec'][p] >= 90.0 - 1e-12 for p in out)


def _wrap(ra):
    return [float(np.fmod(np.fmod(x, 360.0) + 360.0, 360.0)) for x in ra]


def _clipdec(dec):
    return [float(min(90.0, max(-90.0, x))) for x in dec]


def _gen_points(ctx, kind, ll):
    """(ra, dec) lists in degrees"""
    rng = ctx.rng
    if kind == 'chain':
        # steps of 0.55-0.97 link lengths along a wandering path, a few broken links
        n = rng.randrange(10, 90)
        ra0, dec0 = rng.uniform(0, 360), rng.uniform(-70, 70)
        ang = rng.uniform(0, 2 * math.pi)
        ra, dec = [ra0], [dec0]
        for _ in range(n - 1):
            ang += rng.gauss(0, 0.25)
            step = ll * (rng.uniform(0.55, 0.97) if rng.random() < 0.93 else rng.uniform(1.05, 2.5))
            d = dec[-1] + step * math.sin(ang)
            if abs(d) > 88:
                ang = -ang
                d = dec[-1] + step * math.sin(ang)
            ra.append(ra[-1] + step * math.cos(ang) / max(0.02, math.cos(math.radians(d))))
            dec.append(d)
    elif kind == 'seam':
        n = rng.randrange(6, 70)
        w = ll * rng.uniform(1.5, 12)
        dec0 = rng.uniform(-75, 75)
        ra = [rng.uniform(-w, w) / max(0.05, math.cos(math.radians(dec0))) for _ in range(n)]
        dec = [dec0 + rng.uniform(-w, w) for _ in range(n)]
    elif kind == 'polar':
        n = rng.randrange(6, 70)
        sgn = rng.choice([1, -1])
        cap = rng.choice([10.0, 3.0, 1.0, max(3 * ll, 0.01)])
        ra = [rng.uniform(0, 360) for _ in range(n)]
        dec = [sgn * (90 - cap * math.sqrt(rng.random())) for _ in range(n)]
        if rng.random() < 0.3:
            dec[rng.randrange(n)] = sgn * 90.0
    elif kind == 'allsky':
        n = rng.randrange(20, 140)
        ra = [rng.uniform(0, 360) for _ in range(n)]
        dec = [math.degrees(math.asin(rng.uniform(-1, 1))) for _ in range(n)]
    elif kind == 'blobs':
        n = rng.randrange(10, 110)
        k = rng.randrange(1, 6)
        cen = [(rng.uniform(0, 360), rng.uniform(-80, 80)) for _ in range(k)]
        spread = ll * rng.uniform(0.7, 6)
        ra, dec = [], []
        for _ in range(n):
            cr, cd = rng.choice(cen)
            d = cd + rng.gauss(0, spread)
            ra.append(cr + rng.gauss(0, spread) / max(0.05, math.cos(math.radians(min(89, abs(d))))))
            dec.append(d)
    elif kind == 'dups':
        n = rng.randrange(4, 40)
        base = [(rng.uniform(0, 360), rng.uniform(-85, 85)) for _ in range(max(2, n // 3))]
        pts = [rng.choice(base) for _ in range(n)]
        pts = [(a + (rng.choice([0, 0, ll * 0.5, ll * 1.5])), d) for a, d in pts]
        ra, dec = [p[0] for p in pts], [p[1] for p in pts]
    elif kind == 'band':
        # a strip at constant declination all around the sky (forces the 0/360 embrace)
        n = rng.randrange(20, 120)
        dec0 = rng.uniform(-80, 80)
        ra = [rng.uniform(0, 360) for _ in range(n)]
        dec = [dec0 + rng.uniform(-2 * ll, 2 * ll) for _ in range(n)]
    elif kind == 'threshold':
        # a chain whose consecutive separations are L*(1 +- eps), eps from 1e-7 to 3e-3: links just inside the linking
        # length must hold, separations just outside must not link (decides e.g. a chord / arc mix-up, which shows
        # only for separations in (L, L*(1 + L^2/24)] - a window of 1e-4..1e-2 relative for L of a few degrees)
        n = rng.randrange(3, 12)
        along_dec = rng.random() < 0.6
        ra0, dec0 = rng.uniform(0, 360), (rng.uniform(-60, 60 - n * ll) if along_dec else 0.0)
        ra, dec = [ra0], [dec0]
        for _ in range(n - 1):
            eps = rng.choice([1e-7, 1e-6, 1e-5, 1e-4, 3e-4, 1e-3, 3e-3]) * rng.choice([1, 1, -1])
            step = ll * (1 + eps)
            if along_dec:
                ra.append(ra0)
                dec.append(dec[-1] + step)        # on a meridian the separation is the declination difference
            else:
                ra.append(ra[-1] + step)          # on the equator the separation is the RA difference
                dec.append(0.0)
    else:
        raise ValueError(kind)
    ra, dec = _wrap(ra), _clipdec(dec)
    return ra, dec


def _lattice(ctx, ll, cs):
    """anchors fix the grid; then pairs of points are placed across computed cell edges"""
    from pydl.pydlutils import spheregroup as sg
    rng = ctx.rng
    size = cs if cs is not None else max(4.0 * ll, 0.1)
    size = max(size, 4.0 * ll)
    ra0, dec0 = rng.uniform(0, 360), rng.uniform(-80, 60)
    w, h = size * rng.uniform(2, 6), size * rng.uniform(2, 5)
    h = min(h, 85 - dec0) if dec0 + h > 85 else h
    cosd = max(0.05, math.cos(math.radians(max(abs(dec0), abs(dec0 + h)))))
    anchors_ra = [ra0, ra0 + w / cosd, ra0, ra0 + w / cosd]
    anchors_dec = [dec0, dec0, dec0 + h, dec0 + h]
    ara, adec = np.array(_wrap(anchors_ra)), np.array(_clipdec(anchors_dec))
    try:
        ch = sg.chunks(ara, adec, size)
    except Exception:
        return _wrap(anchors_ra), _clipdec(anchors_dec)
    ra, dec = list(anchors_ra), list(anchors_dec)
    for _ in range(rng.randrange(5, 40)):
        i = rng.randrange(ch.nDec)
        # a point on / next to a cell edge, partner at 0.3-0.98 or 1.02-1.5 link lengths in a random direction
        lo, hi = float(ch.decBounds[i]), float(ch.decBounds[i + 1])
        if not (dec0 < hi and lo < dec0 + h):
            continue
        j = rng.randrange(ch.nRa[i] + 1)
        edge_ra = float(ch.raBounds[i][j]) - float(ch.raOffset)
        edge_dec = rng.choice([lo, hi])
        mode = rng.choice(['ra-edge', 'dec-edge', 'corner'])
        pr = edge_ra + (rng.choice([-1, 1]) * ll * rng.choice([0, 1e-9, 1e-3, 0.3, 0.6]) if mode != 'dec-edge' else rng.uniform(0, w / cosd))
        pd = edge_dec + rng.choice([-1, 1]) * ll * rng.choice([0, 1e-9, 1e-3, 0.3, 0.6]) if mode != 'ra-edge' else rng.uniform(max(lo, dec0), min(hi, dec0 + h))
        pd = min(max(pd, dec0 + 1e-7), dec0 + h - 1e-7)
        cp = max(0.05, math.cos(math.radians(pd)))
        lo_ra, hi_ra = ra0 + 1e-7, ra0 + w / cosd - 1e-7
        pr = min(max(pr, lo_ra), hi_ra) if ra0 <= pr <= ra0 + w / cosd or True else pr
        th = rng.uniform(0, 2 * math.pi)
        dist = ll * (rng.uniform(0.3, 0.98) if rng.random() < 0.7 else rng.uniform(1.02, 1.5))
        qd = min(max(pd + dist * math.sin(th), dec0 + 1e-7), dec0 + h - 1e-7)
        qr = min(max(pr + dist * math.cos(th) / cp, lo_ra), hi_ra)
        ra += [pr, qr]
        dec += [pd, qd]
    return _wrap(ra), _clipdec(dec)


def _bound_cells(ra, dec, ll, cs, csk, limit=20000):
    """chunks allocates one list per cell: keep (sky extent / chunk size)^2 within memory (harness budget, not a property)"""
    size = max(cs if cs is not None else max(4.0 * ll, 0.1), 4.0 * ll)
    dr = max(dec) - min(dec)
    r = sorted(ra)
    gaps = [b - a for a, b in zip(r, r[1:])] + [r[0] + 360.0 - r[-1]]
    rr = 360.0 - max(gaps)
    if rr > 150.0:
        rr = 360.0
    est = (dr / size + 3) * (rr / size + 3)
    if est <= limit:
        return cs, csk
    while (dr / size + 3) * (rr / size + 3) > limit:
        size *= 1.5
    return size, csk + ':bounded'


def _sphere_cases(ctx, count):
    rng = ctx.rng
    cases = []
    kinds = ['chain', 'chain', 'seam', 'polar', 'allsky', 'blobs', 'dups', 'band', 'lattice', 'lattice', 'threshold']
    tries = 0
    while len(cases) < count and tries < 20 * count:
        tries += 1
        kind = kinds[len(cases) % len(kinds)] if rng.random() < 0.7 else rng.choice(kinds)
        ll = rng.choice([1.0 / 3600, 2.0 / 3600, 1.0 / 60, 0.05, 0.1, 0.3, 1.0, 2.0, 5.0]) * rng.uniform(0.8, 1.25)
        if kind == 'allsky':
            ll = rng.choice([3.0, 6.0, 10.0, 14.0, 20.0]) * rng.uniform(0.8, 1.0)
        if kind == 'polar' and rng.random() < 0.5:
            ll = rng.choice([0.2, 0.5, 1.0, 2.0]) * rng.uniform(0.8, 1.25)
        if kind == 'threshold':
            ll = rng.choice([0.5, 2.0, 3.0, 5.0, 8.0]) * rng.uniform(0.8, 1.25)
        zero_ll = False
        if kind in ('chain', 'blobs', 'dups', 'seam') and rng.random() < 0.25:
            # "any linking length": sub-milliarcsecond astrometry, and 0 (only exactly repeated positions are linked)
            if kind == 'dups' and rng.random() < 0.5:
                zero_ll = True
            else:
                ll = rng.choice([1e-7, 3e-7, 1e-6, 1e-5]) * rng.uniform(0.8, 1.25)
        csk = rng.choice(['none', 'none', 'min', 'below', 'x1.5', 'x3', 'x10', 'abs'])
        cs = {'none': None, 'min': 4.0 * ll, 'below': ll * rng.uniform(0.5, 3.9), 'x1.5': 6.0 * ll, 'x3': 12.0 * ll * rng.uniform(0.7, 1.3),
              'x10': 40.0 * ll, 'abs': rng.uniform(0.2, 60.0)}[csk]
        if cs is not None and cs > 60:
            cs = 60.0 * rng.uniform(0.5, 1.0)
        if kind == 'lattice':
            ra, dec = _lattice(ctx, ll, cs)
        else:
            ra, dec = _gen_points(ctx, kind, ll)
        if zero_ll:
            ll = 0.0
        if rng.random() < 0.5:
            perm = list(range(len(ra)))
            rng.shuffle(perm)
            ra, dec = [ra[k] for k in perm], [dec[k] for k in perm]
        ok = False
        for _ in range(6):
            if not _undecided(np.array(ra), np.array(dec), ll):
                ok = True
                break
            ctx.count('sphere:regenerated-undecided')
            ra = _wrap([x + rng.uniform(-1, 1) * ll * 1e-4 for x in ra])
            dec = _clipdec([x + rng.uniform(-1, 1) * ll * 1e-4 for x in dec])
        if not ok:
            continue
        cs, csk = _bound_cells(ra, dec, ll, cs, csk)
        cases.append({'stream': 'sphere', 'kind': kind, 'cs': csk, 'll': ll, 'chunksize': cs, 'ra': ra, 'dec': dec})
    for _ in range(max(3, count // 40)):
        n = rng.randrange(4, 40)
        a0, d0 = rng.randrange(0, 340), rng.randrange(-60, 50)
        pts = list({(a0 + rng.randrange(0, 14), d0 + rng.randrange(0, 10)) for _ in range(n)})
        rng.shuffle(pts)
        ll = rng.choice([1.5, 2.5, 1.2, 3.3])
        ra, dec = [float(p[0] % 360) for p in pts], [float(p[1]) for p in pts]
        if len(ra) >= 2 and not _undecided(np.array(ra), np.array(dec), ll):
            cases.append({'stream': 'sphere', 'kind': 'intgrid', 'cs': 'none', 'll': ll, 'chunksize': None, 'ra': ra, 'dec': dec,
                          'cdtype': rng.choice(['i8', 'i4', 'i8', 'd'])})
    # rings around a pole: positions at all right ascensions within half a linking length of the pole are one group (their RA
    # differences are large, their separations small)
    for _ in range(max(4, count // 30)):
        ll = rng.choice([0.25, 1.0, 0.05, 3.0]) * rng.uniform(0.8, 1.25)
        sgn = rng.choice([1, -1])
        m = rng.choice([2, 2, 3, 4, 6, 9, 12])
        # two or three positions on opposite sides of the pole are linked directly (separation 2 rho <= L), not through neighbours
        rho = ll * (rng.uniform(0.34, 0.49) if m <= 3 else rng.uniform(0.1, 0.45))
        a0 = rng.uniform(0, 360)
        ra = [(a0 + 360.0 * i / m + rng.uniform(-5, 5)) % 360.0 for i in range(m)]
        dec = [sgn * (90.0 - rho * rng.uniform(0.9, 1.0)) for _ in range(m)]
        # plus a few bystanders far away
        for _ in range(rng.randrange(0, 4)):
            ra.append(rng.uniform(0, 360))
            dec.append(sgn * (90.0 - ll * rng.uniform(3, 30)))
        if not _undecided(np.array(ra), np.array(dec), ll):
            cs, csk = _bound_cells(ra, dec, ll, None, 'none')
            cases.append({'stream': 'sphere', 'kind': 'polar-ring', 'cs': csk, 'll': ll, 'chunksize': cs, 'ra': ra, 'dec': dec})
    # exactly two positions ("two or more"): linked and not linked, along RA, along Dec, across the seam
    for _ in range(max(6, count // 25)):
        ll = rng.choice([1.0 / 3600, 0.05, 1.0, 5.0]) * rng.uniform(0.8, 1.25)
        d0 = rng.uniform(-70, 70)
        a0 = rng.choice([rng.uniform(0, 360), 0.0, 359.999])
        f = rng.choice([0.5, 0.9, 1.5, 3.0])
        th = rng.choice([0.0, math.pi / 2, rng.uniform(0, 2 * math.pi)])
        ra = [a0 % 360.0, (a0 + f * ll * math.cos(th) / math.cos(math.radians(d0))) % 360.0]
        dec = [d0, d0 + f * ll * math.sin(th)]
        if not _undecided(np.array(ra), np.array(dec), ll):
            cases.append({'stream': 'sphere', 'kind': 'two-points', 'cs': 'none', 'll': ll, 'chunksize': None, 'ra': ra, 'dec': dec})
    cases.append({'stream': 'sphere', 'kind': 'one-point', 'cs': 'none', 'll': 1.0, 'chunksize': None, 'ra': [10.0], 'dec': [5.0]})
    return cases


def _pmap(ctx, f, xs):
    if ctx.tier != 'thorough' or len(xs) < 64:
        return [f(x) for x in xs]
    import multiprocessing as mp
    with mp.get_context('fork').Pool(14) as pool:
        return pool.map(f, xs, chunksize=max(1, len(xs) // 400))


def _sphere(ctx, cases=None, oracle_only=False):
    if cases is None:
        cases = _sphere_cases(ctx, ctx.n(450, 12000))
    results = _pmap(ctx, _run_sphere, cases)
    lines, idx = [], []
    for k, (c, r) in enumerate(zip(cases, results)):
        if not oracle_only and r.get('chunks') is not None and sum(len(x) for x in r['chunks']) > 40 * max(1, len(c['ra'])):
            # the real cell lists hold every point dozens of times (the proved bound is 9 per point): not fed to the model, whose
            # run time grows with the occupancy; reported as a disagreement with grid_occupancy_9n, judged by the oracle below
            ctx.disagree('spheregroup:occupancy', c, {'cells-per-point': sum(len(x) for x in r['chunks']) / max(1, len(c['ra']))},
                         'grid_occupancy_9n: at most 9 cells per point')
        elif not oracle_only and r.get('chunks') is not None:
            lines.append({'p': 'C05', 'op': 'sphere', 'g': [len(c['ra'])] + r['rows'], 'chunks': [x for x in r['chunks'] if x]})
            idx.append(k)
        elif not oracle_only and len(c['ra']) == 1:
            lines.append({'p': 'C05', 'op': 'sphere', 'g': [1] + r['rows'], 'chunks': []})
            idx.append(k)
    model = {}
    if lines:
        out = core.driver_parallel(lines, workers=12, chunk=max(1, len(lines) // 12))
        model = dict(zip(idx, out))
    # END-TO-END model (Model/FofGrid.lean `spheregroup` at binary64): the grid is built by the model itself
    gmodel = {}
    if not oracle_only:
        glines = [{'p': 'C05', 'op': 'grid', 'ra': [core.f2b(x) for x in c['ra']], 'dec': [core.f2b(x) for x in c['dec']],
                   'll': core.f2b(c['ll']), 'cs': None if c['chunksize'] is None else core.f2b(c['chunksize'])} for c in cases]
        gmodel = dict(enumerate(core.driver_parallel(glines, workers=12, chunk=max(1, len(glines) // 12))))
    for k, (c, r) in enumerate(zip(cases, results)):
        n = len(c['ra'])
        ctx.seen(c, nontrivial=bool(r.get('pairs')))
        ctx.count('sphere:' + c['kind'])
        ctx.count('sphere:chunksize=' + c['cs'])
        ctx.count('sphere:linklength=' + ('0' if c['ll'] == 0 else '<1e-4deg' if c['ll'] < 1e-4 else '<1deg' if c['ll'] < 1 else '>=1deg'))
        impl = {kk: v for kk, v in r['impl'].items() if kk != 'msg'}
        if r.get('grid'):
            ctx.count('sphere:cells=%s' % ('1-9' if sum(r['grid'][1]) < 10 else '10-99' if sum(r['grid'][1]) < 100 else '100+'))
        if 'in' in impl:
            ng = max(impl['in']) + 1
            ctx.count('sphere:groups=%s' % ('1' if ng == 1 else 'n' if ng == n else 'some'))
            if r['chunks'] is not None:
                span = sum(1 for cell in r['chunks'] if cell)
                ctx.count('sphere:nonempty-cells=%s' % ('1' if span == 1 else '2-9' if span < 10 else '10+'))
        if n > 1 and not r.get('symmetric', True):
            ctx.assumptions.append('closeness matrix not symmetric/reflexive on case %d' % k)
            ctx.count('sphere:asymmetric-closeness')
        if n > 1 and not r.get('formulas_agree', True):
            # gcirc and the oracle's formula decide a pair differently although both are 1e-9 away from the threshold
            ctx.violate('spheregroup:gcirc-vs-vector-formula', 'gcirc decides a pair differently from the vector formula', c)
        cov = _cover(r, n) if n > 1 else None
        if cov:
            ctx.count('sphere:CoverFoF=' + cov)
        if cov == 'point-in-no-cell':
            # outside the model's domain: the code then indexes mapGroups[-1]; the oracle below still judges the output
            ctx.count('sphere:not-compared(point in no cell)')
        elif k in model:
            m = model[k]
            if 'err' in m and 'err' in impl:
                same = impl['err'].startswith('PydlException') and m['err'] == 'PydlutilsException'
            else:
                same = ({kk: m.get(kk) for kk in ('in', 'mult', 'first', 'next')} == impl)
            if not same:
                ctx.disagree('spheregroup', c, impl, m)
        if r['chunks'] is not None and n > 1:
            # statement of grid_occupancy_9n on the real grid: cells per point (the theorem: at most 9)
            per = [0] * n
            for cell in r['chunks']:
                for p_ in cell:
                    per[p_] += 1
            ctx.count('sphere:max-cells-per-point=%s' % (max(per) if max(per) <= 9 else 'above-9'))
        if k in gmodel:
            gm = gmodel[k]
            if r['chunks'] is not None:
                mg = {'grid': [gm.get('nDec'), gm.get('nRa')], 'cells': gm.get('cells'), 'griderr': gm.get('griderr')}
                ig = {'grid': [r['grid'][0], r['grid'][1]], 'cells': r['chunks'], 'griderr': None}
                ctx.count('grid-cells:compared')
                if mg != ig:
                    ctx.disagree('grid-cells', c, ig, mg)
            if cov == 'point-in-no-cell':
                ctx.count('grid-sphere:not-compared(point in no cell)')
            else:
                if 'err' in gm and 'err' in impl:
                    same = impl['err'].startswith('PydlException') and gm['err'].startswith('PydlutilsException')
                else:
                    same = ({kk: gm.get(kk) for kk in ('in', 'mult', 'first', 'next')} == impl)
                ctx.count('grid-sphere:compared')
                if not same:
                    ctx.disagree('grid-sphere', c, impl, {kk: gm.get(kk) for kk in ('in', 'mult', 'first', 'next', 'err', 'griderr')})
        bad = _judge_sphere(c, r)
        if bad:
            sig = bad[0]
            if cov == 'point-in-no-cell' and _only_pole_dropped(c, r):
                sig = 'spheregroup:north-pole-point-in-no-cell'
            small = _shrink_sphere(c, bad[0])
            again = _judge_sphere(small, _run_sphere(small))
            ctx.violate(sig, (again[1] if again else bad[1]) + (' [CoverFoF on the unshrunk input: %s]' % cov), small)


def _shrink_sphere(c, sig):
    pts = list(zip(c['ra'], c['dec']))

    def fails(ps):
        c2 = dict(c, ra=[p[0] for p in ps], dec=[p[1] for p in ps])
        if _undecided(np.array(c2['ra']), np.array(c2['dec']), c['ll']):
            return False
        bad = _judge_sphere(c2, _run_sphere(c2))
        return bool(bad) and bad[0] == sig
    try:
        ps = core.shrink_list(pts, fails, minlen=2)
    except Exception:
        ps = pts
    return dict(c, ra=[p[0] for p in ps], dec=[p[1] for p in ps], kind=c['kind'] + ':shrunk')


# ---------------------------------------------------------------- the check
def run(ctx):
    ok = core.audit(ctx, LEAN_MODULES, THEOREMS)
    _graphs(ctx)
    _merge(ctx)
    _sphere(ctx)
    if not ok or ctx.disagreements:
        # proof or correspondence broken: directed search for a failing input on the real code alone
        ctx.notes.append('obligation/correspondence broken: extra oracle-only search run')
        rng = ctx.rng
        extra = []
        for _ in range(ctx.n(3000, 30000)):
            n = rng.randrange(2, 30)
            kind, rows = _random_graph(rng, n)
            extra.append(_graph_case(kind, n, rows))
        _graphs(ctx, extra, oracle_only=True)
        _sphere(ctx, _sphere_cases(ctx, ctx.n(150, 2000)), oracle_only=True)


def replay(ctx, case):
    core.audit(ctx, LEAN_MODULES, THEOREMS)
    if case.get('stream') == 'graph':
        _graphs(ctx, [case])
    elif case.get('stream') == 'sphere':
        _sphere(ctx, [case])
    else:
        run(ctx)

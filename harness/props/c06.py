"""C06 - SDSS objID / specObjID packing (DESIGN §5 C06)."""
import numpy as np
from harness import core

ID = 'C06'
LEAN_MODULES = ['PydlVerif.Props.C06']
P = 'PydlVerif.C06.'
THEOREMS = [P + t for t in (
    'objid_layout', 'objid_unpack_pack', 'objid_pack_unpack', 'objid_rejects', 'objids_is_map',
    'spec_layout', 'spec_unpack_pack', 'spec_pack_unpack', 'spec_rejects', 'spec_line_and_index',
    'run2d_nmp_roundtrip', 'run2d_nmp_rejects', 'run2d_nmp_injective',
    'parse_fmt_run2d', 'parse_digits_run2d', 'dec_string_id',
    'parse_full_fmt', 'parse_full_error', 'parse_full_cases', 'run2d_den_injective', 'specstr_same_id_iff',
    'specstr_canonical', 'specstr_rejects', 'parse_full_ascii_digits', 'pyInt_none_of_head',
    'to64_toInt', 'inRM_to64', 'sub_offset_toInt', 'mjd_check', 'objid_cols', 'spec_cols',
    'specs_is_map', 'objids_refuses_iff', 'specs_refuses_iff',
    'okAstrombad_table', 'astrombad_rows_are_objid_rows', 'astrombad_iff_objid',
    'packObjidRaw_table', 'objOk_table', 'unpackObjid_table', 'packSpecRaw_table', 'specOk_table', 'unpackSpec_table')]
RULE = ('field tuples: per-field sweeps with the other fields at both extremes, random in-range tuples, '
        'every boundary +-1, scalar / array / decimal-string conventions, run2d as int / digit string / vN_M_P; '
        'run2d as ANY string (named shapes, a grammar of integer literals with white space / sign / underscores / zero padding / '
        '12 Unicode digit blocks, version strings with padding and suffixes, 1-2 character edits); columns of every integer '
        'dtype, same-type and mixed, values in range / just outside / at the type extremes / wrapping under -50000; '
        'sdss_astrombad range checks; '
        'a case is non-trivial when it reaches the packing or unpacking arithmetic, a range check or the string parser; distinct = distinct case payloads')
TRUSTED = ['hand-written model lean/PydlVerif/Model/Ids.lean tied to the code by the I/O correspondence of this run',
           'numpy string->integer casts (decimal-string IDs)',
           'the digit / white-space / digit-limit tables of the model are facts about the running interpreter: regenerated from it '
           'for every code point on every run and checked equal (Gen/C06Consts.lean), not proved from the Unicode database',
           'numpy compares an integer array with a Python int exactly, astype(int64/uint64) is sign / zero extension (compared by the cols stream)']
ASSUMPTIONS = ['run2d strings are str objects without lone surrogates (every other string is in the model: int() first, then the expression)',
               'array calls use integer arrays for run2d (string arrays are outside the statement)',
               'integer columns are at most 64 bits wide']

OBJ_RANGES = [('sv', 0, 16), ('rerun', 0, 2**11), ('run', 0, 2**16), ('camcol', 1, 7), ('ff', 0, 2),
              ('field', 0, 2**12), ('obj', 0, 2**16)]
OBJ_SHIFT = dict(sv=59, rerun=48, run=32, camcol=29, ff=28, field=16, obj=0)
SPEC_RANGES = [('plate', 0, 2**14), ('fiber', 0, 2**12), ('mjd', 50000, 50000 + 2**14), ('run2d', 0, 2**14),
               ('line', 0, 2**10)]
SPEC_SHIFT = dict(plate=50, fiber=38, mjd=24, run2d=10, line=0)


def _fits(fs, dtype):
    info = np.iinfo(np.dtype(dtype))
    return all(info.min <= v <= info.max for t in fs for v in t)


def _impl_objid(fs, scalar, dtype='int64'):
    from pydl.pydlutils.sdss import sdss_objid
    try:
        if scalar:
            sv, rerun, run, camcol, ff, field, obj = fs[0]
            r = sdss_objid(run, camcol, field, obj, rerun=rerun, skyversion=sv, firstfield=ff)
        else:
            a = np.array(fs, dtype=np.int64).reshape(len(fs), 7).astype(dtype)
            r = sdss_objid(a[:, 2], a[:, 3], a[:, 5], a[:, 6], rerun=a[:, 1], skyversion=a[:, 0], firstfield=a[:, 4])
        return {'ok': [int(x) % 2**64 for x in np.atleast_1d(r)]}
    except Exception as e:
        return {'err': core.exc_kind(e)}


def _impl_unobjid(vs, as_str):
    """An exception on a valid 64-bit value is an answer (per element), never a harness crash."""
    try:
        return _impl_unobjid_block(vs, as_str)
    except Exception as e:
        if len(vs) == 1:
            return [['exc:' + core.exc_kind(e)]]
        out = []
        for v in vs:
            out += _impl_unobjid([v], as_str)
        if all(len(o) == 7 for o in out):
            out[0] = ['array-call-raises:' + core.exc_kind(e)]
        return out


def _impl_unobjid_block(vs, as_str):
    from pydl.photoop.photoobj import unwrap_objid
    if as_str == 'bytes':
        a = np.array([str(v).encode('ascii') for v in vs])      # dtype 'S': what a FITS table column of decimal IDs holds
    elif as_str:
        a = np.array([str(v) for v in vs])
    else:
        a = np.array([v - 2**64 if v >= 2**63 else v for v in vs], dtype=np.int64)
        if as_str is False and len(vs) % 3 == 1:
            a = a.astype('>i8')          # the same integers in the byte order of a FITS table column
        elif as_str is False and len(vs) % 3 == 2:
            a = np.ascontiguousarray(np.repeat(a, 2))[::2]      # a strided view
    u = unwrap_objid(a)
    if not as_str:
        # the same array object unpacked a second time (a function that consumes its argument in place shows here)
        u2 = unwrap_objid(a)
        if any(list(u[f]) != list(u2[f]) for f in u.dtype.names):
            return [['second-call-differs']] * len(vs)
    return [[int(u.skyversion[i]), int(u.rerun[i]), int(u.run[i]), int(u.camcol[i]), int(u.firstfield[i]),
             int(u.frame[i]), int(u['id'][i])] for i in range(len(vs))]


def _impl_spec_array(fs, dtype='int64'):
    from pydl.pydlutils.sdss import sdss_specobjid
    a = np.array(fs, dtype=np.int64).reshape(len(fs), 5).astype(dtype)
    try:
        r = sdss_specobjid(a[:, 0], a[:, 1], a[:, 2], a[:, 3], line=a[:, 4])
        return {'ok': [int(x) for x in r]}
    except Exception as e:
        return {'err': core.exc_kind(e)}


def _impl_specli(c):
    """the call is made twice: the answer (an ID or a refusal) must not depend on the same arguments having been seen before"""
    from pydl.pydlutils.sdss import sdss_specobjid
    outs = []
    for _ in range(2):
        try:
            r = sdss_specobjid(c['plate'], c['fiber'], c['mjd'], c['run2d'], line=c.get('line'), index=c.get('index'))
            outs.append({'ok': int(np.atleast_1d(r)[0])})
        except Exception as e:
            outs.append({'err': core.exc_kind(e)})
    if outs[0] != outs[1]:
        return {'second-call-differs': outs}
    return outs[0]


def _impl_unspec(vs, as_str):
    """Every valid 64-bit value must unpack: an exception is an answer (per element), never a harness crash."""
    try:
        return _impl_unspec_block(vs, as_str)
    except Exception as e:
        if len(vs) == 1:
            return [{'f': ['exc:' + core.exc_kind(e)], 's': '', 'index': -1}]
        out = []
        for v in vs:
            out += _impl_unspec([v], as_str)
        if all(len(o['f']) == 5 for o in out):
            # every element converts on its own, the array of them does not: the elementwise map is broken for arrays
            out[0] = {'f': ['array-call-raises:' + core.exc_kind(e)], 's': '', 'index': -1}
        return out


def _impl_unspec_block(vs, as_str):
    from pydl.pydlutils.sdss import unwrap_specobjid
    a = (np.array([str(v).encode('ascii') for v in vs]) if as_str == 'bytes' else np.array([str(v) for v in vs])) if as_str else np.array(vs, dtype=np.uint64)
    if as_str is False and len(vs) % 3 == 1:
        a = a.astype('>u8')
    u = unwrap_specobjid(a)
    ui = unwrap_specobjid(a, run2d_integer=True, specLineIndex=True)
    u2 = unwrap_specobjid(a)
    if any(list(u[f]) != list(u2[f]) for f in u.dtype.names):
        return [{'f': ['second-call-differs'], 's': '', 'index': -1}] * len(vs)
    out = []
    for i in range(len(vs)):
        out.append({'f': [int(u.plate[i]), int(u.fiber[i]), int(u.mjd[i]), int(ui.run2d[i]), int(u.line[i])],
                    's': str(u.run2d[i]), 'index': int(ui['index'][i])})
    return out


# ---------------------------------------------------------------- oracle (independent of pydl and of the model)
def _layout(vals, ranges, shift):
    """None if a field is out of range, else the documented layout as an int (built from a bit string)."""
    bits = ['0'] * 64
    for (name, lo, hi), v in zip(ranges, vals):
        if not (lo <= v < hi):
            return None
        if name == 'mjd':
            v -= 50000
        width = (hi - lo - 1).bit_length() if name != 'camcol' else 3
        s = format(v, 'b').zfill(width)
        for k, ch in enumerate(reversed(s)):
            pos = shift[name] + k
            assert bits[63 - pos] == '0'
            bits[63 - pos] = ch
    return int(''.join(bits), 2)


def _fields_of(v, ranges, shift):
    s = format(v, 'b').zfill(64)
    out = []
    for name, lo, hi in ranges:
        width = (hi - lo - 1).bit_length() if name != 'camcol' else 3
        end = 64 - shift[name]
        x = int(s[end - width:end], 2)
        out.append(x + 50000 if name == 'mjd' else x)
    return out


def _parse_run2d_oracle(s):
    """oracle for the string form; returns int or None (=ValueError)"""
    import re
    if re.fullmatch(r'[0-9]+', s):
        return int(s)
    m = re.match(r'v([0-9]+)_([0-9]+)_([0-9]+)', s)
    if not m:
        return None
    n, mm, p = (int(g) for g in m.groups())
    if not (5 <= n <= 6 and mm <= 99 and p <= 99):
        return None
    return (n - 5) * 10000 + mm * 100 + p


# ---------------------------------------------------------------- generators
def _obj_tuples(ctx):
    rng = ctx.rng
    lo = [r[1] for r in OBJ_RANGES]
    hi = [r[2] - 1 for r in OBJ_RANGES]
    out = []
    # per-field sweeps, the other fields at both extremes
    for i, (name, a, b) in enumerate(OBJ_RANGES):
        span = range(a, b)
        if ctx.tier != 'thorough' and b - a > 600:
            span = sorted(set(list(range(a, a + 40)) + list(range(b - 40, b)) + [rng.randrange(a, b) for _ in range(300)] +
                              [1 << k for k in range(16) if a <= (1 << k) < b] + [(1 << k) - 1 for k in range(1, 17) if a <= (1 << k) - 1 < b]))
        for base in (lo, hi):
            for v in span:
                t = list(base)
                t[i] = v
                out.append(('sweep-' + name, t))
    for _ in range(ctx.n(3000, 200000)):
        out.append(('random', [rng.randrange(a, b) for _, a, b in OBJ_RANGES]))
    # just outside each range, and far outside
    for i, (name, a, b) in enumerate(OBJ_RANGES):
        for base in (lo, hi, [rng.randrange(x, y) for _, x, y in OBJ_RANGES]):
            for v in (a - 1, b, a - 2**20, b + 2**20, -1, 2**31, -2**40):
                t = list(base)
                t[i] = v
                out.append(('outside-' + name, t))
    return out


def _spec_tuples(ctx):
    rng = ctx.rng
    lo = [r[1] for r in SPEC_RANGES]
    hi = [r[2] - 1 for r in SPEC_RANGES]
    out = []
    for i, (name, a, b) in enumerate(SPEC_RANGES):
        span = range(a, b)
        if ctx.tier != 'thorough' and b - a > 600:
            span = sorted(set(list(range(a, a + 40)) + list(range(b - 40, b)) + [rng.randrange(a, b) for _ in range(300)]))
        for base in (lo, hi):
            for v in span:
                t = list(base)
                t[i] = v
                out.append(('sweep-' + name, t))
    for _ in range(ctx.n(3000, 200000)):
        out.append(('random', [rng.randrange(a, b) for _, a, b in SPEC_RANGES]))
    for i, (name, a, b) in enumerate(SPEC_RANGES):
        for base in (lo, hi, [rng.randrange(x, y) for _, x, y in SPEC_RANGES]):
            for v in (a - 1, b, a - 2**20, b + 2**20, -1, 2**31, 0, 49999, 66384):
                if a <= v < b:
                    continue
                t = list(base)
                t[i] = v
                out.append(('outside-' + name, t))
    return out


def _run2d_strings(ctx):
    rng = ctx.rng
    out = []
    for n in (4, 5, 6, 7, 0, 15, 50):
        for m in (0, 1, 7, 63, 64, 99, 100, 101, 255, 1000):
            for p in (0, 2, 83, 84, 99, 100, 512):
                out.append('v%d_%d_%d' % (n, m, p))
    for _ in range(ctx.n(300, 5000)):
        out.append('v%d_%d_%d' % (rng.choice([5, 5, 5, 6, 6, rng.randrange(0, 12)]), rng.randrange(0, 130), rng.randrange(0, 130)))
    out += ['v5_7_0-extra', 'v5_07_00', 'v05_7_0', 'v5_7', 'v5_7_', 'V5_7_0', 'v5.7.0', 'x', 'v', 'v_1_2', 'v5__0',
            '700', '0700', '0', '16383', '16384', '99999999', 'abc', '7x', 'v5_7_0_1']
    for r in range(0, 16384, ctx.n(97, 1)):
        out.append(str(r))
    return out


# ---------------------------------------------------------------- extension: every run2d string a caller can write
ND_ZEROS_SAMPLE = [48, 1632, 1776, 2406, 3664, 65296, 120782, 120822, 130032, 6608, 43216, 69734]
SPACES = [9, 10, 11, 12, 13, 32, 0x85, 0xA0, 0x1680, 0x2000, 0x2005, 0x200A, 0x2028, 0x2029, 0x202F, 0x205F, 0x3000]
NOT_SPACES = [0x1C, 0x1F, 0x7F, 0x200B, 0xFEFF, 0x180E, 0x00, 0x08, 0x0E]
NOT_DIGITS = [0xB2, 0x2460, 0x1369, 0x2170, 0x3007, 0x4E00, 0x2F, 0x3A, 0x65F, 0x66A, 0x1D7CD, 0x1FBFA]


def _oracle_den(s):
    """independent reading of the documentation of int() and of re's \\d (unicodedata + an ASCII-only expression; neither
    pydl, nor int(), nor the model): ('int', i) | ('nmp', n, m, p) | None"""
    import re
    import sys
    import unicodedata

    def norm(ch):
        d = unicodedata.decimal(ch, None)
        return '?' if d is None else str(d)

    def space(ch):
        return ch in ' \t\n\r\x0b\x0c' if ord(ch) < 128 else ch.isspace()
    a, b = 0, len(s)
    while a < b and space(s[a]):
        a += 1
    while b > a and space(s[b - 1]):
        b -= 1
    t = ''.join(ch if ch in '+-_' else norm(ch) for ch in s[a:b])
    lim = sys.get_int_max_str_digits()       # documented: a literal with more digits is a ValueError
    if re.fullmatch(r'[+-]?[0-9]+(_[0-9]+)*', t, re.A) and sum(ch.isdigit() for ch in t) <= lim:
        sign = -1 if t[0] == '-' else 1
        v = 0
        for ch in t.lstrip('+-'):
            if ch != '_':
                v = v * 10 + (ord(ch) - 48)
        return ('int', sign * v)
    t = ''.join(ch if ch in 'v_' else norm(ch) for ch in s)
    m = re.match(r'v([0-9]+)_([0-9]+)_([0-9]+)', t, re.A)
    if m and s[:1] == 'v' and all(len(g) <= lim for g in m.groups()):
        n, mm, pp = (sum((ord(c) - 48) * 10 ** k for k, c in enumerate(reversed(g))) for g in m.groups())
        return ('nmp', n, mm, pp)
    return None


def _user_strings(ctx):
    """(kind, string): the shapes the brief names, a grammar of integer literals and version strings with every
    decoration int() / \\d accept, and one-character mutations of them"""
    rng = ctx.rng

    def digits(v, width=0, block=None):
        z = rng.choice(ND_ZEROS_SAMPLE) if block is None else block
        return ''.join(chr((z if (block is not None or rng.random() < 0.8) else rng.choice(ND_ZEROS_SAMPLE)) + int(c))
                       for c in str(v).zfill(width))

    def ws():
        return ''.join(chr(rng.choice(SPACES)) for _ in range(rng.choice([0, 0, 1, 1, 2, 3])))
    out = [('named', x) for x in
           ['v5_7_0', '26', 'v05_007_000', ' 26 ', '+26', '-26', '-0', '+0', '1_000', '1__0', '_1', '1_', '١٢',
            'v٥_7_0', 'v5_7_0_1', 'V5_7_0', '', '  ', '+ 2', '0x10', '0_7', '007', '\t26\n', '\xa026　', '\x1c26',
            '99999999999999999999999', '9223372036854775808', '18446744073709551616', '-99999999999999999999999',
            'v5_7_0\n', 'v5_7_0 ', ' v5_7_0', 'v5_100_0', 'v6_99_99', 'v6_63_83', 'v6_63_84', 'v5_7_٣x', '26.0', '1e3',
            'v5_7', '2 6', '1\x002', 'v' + '5' * 4301 + '_1_1', '1' * 4301, '1' * 4300, '0' * 4400 + '7', '\xb2', '①',
            'v5_\xb2_0', '+_1', '++1', '-+1', '1_0_0', 'v5_7_0v5_7_0', '\U0001d7d0\U0001d7d4', '﻿26', '​26', '\x8526',
            'v5_7_0_', 'v5_7__0', 'v5__7_0', 'v_5_7_0', 'v5_7_0x', 'v-5_7_0', 'v+5_7_0', 'v5_-7_0', 'v 5_7_0', 'v5 _7_0',
            '16383', '16384', '1_6_3_8_3', '-1', '+16383', ' +16_383 ', '0_0', '00', '-00', 'v5_0_0', 'v05_00_00', 'v6_0_0',
            'v4_99_99', 'v7_0_0', 'v5_99_99', 'v5_099_0099', 'v5_7_0 26', '26 v5_7_0', '26v5_7_0', 'vv5_7_0', '٣', '+', '-', '_',
            'v', 'v5', 'v5_', 'v5_7_', '\n', '26\x00', '\x0026', 'v5_7_0\x00']]
    for _ in range(ctx.n(1500, 60000)):
        kind = rng.randrange(6)
        if kind == 0:       # an integer literal with every decoration
            v = rng.choice([rng.randrange(0, 16384), rng.randrange(0, 40), rng.randrange(16380, 16390), rng.getrandbits(rng.randrange(1, 80))])
            body = digits(v, rng.choice([0, 0, 3, 6]), rng.choice([48, 48, None]))
            if rng.random() < 0.4 and len(body) > 1:
                for _k in range(rng.randrange(1, 3)):
                    i = rng.randrange(1, len(body))
                    body = body[:i] + '_' + body[i:]
            st = ws() + rng.choice(['', '', '+', '-']) + body + ws()
            out.append(('int-literal', st))
        elif kind == 1:     # a version string with decorations / suffix
            n, m, p = rng.choice([5, 5, 6, 6, 4, 7, 15]), rng.randrange(0, 110), rng.randrange(0, 110)
            blk = rng.choice([48, 48, 48, None])
            st = 'v' + digits(n, rng.choice([0, 0, 2]), blk) + '_' + digits(m, rng.choice([0, 0, 3]), blk) + '_' + digits(p, rng.choice([0, 0, 3]), blk)
            st += rng.choice(['', '', '', '_1', ' ', '\n', 'x', '-extra', '.fits', '_', chr(rng.choice(NOT_DIGITS))])
            out.append(('version', st))
        else:               # one or two character edits of a good string
            base = rng.choice(['v5_7_0', 'v6_12_34', '26', '1_000', ' 700 ', '+16383', 'v5_13_2', '٧٠٠'])
            alphabet = [ord(c) for c in 'vV_+- 0159x.'] + SPACES + NOT_SPACES + NOT_DIGITS + [z + rng.randrange(10) for z in ND_ZEROS_SAMPLE]
            st = base
            for _k in range(rng.choice([1, 1, 2])):
                i = rng.randrange(len(st) + 1)
                op = rng.randrange(3)
                ch = chr(rng.choice(alphabet))
                st = st[:i] + ch + st[i:] if op == 0 else st[:i] + st[i + 1:] if op == 1 else st[:i] + ch + st[i + 1:]
            out.append(('edit', st))
    return out


def _features(s):
    f = []
    if s and s != s.strip():
        f.append('ws')
    if any(c in s for c in '+-'):
        f.append('sign')
    if '_' in s and not s.startswith('v'):
        f.append('underscore')
    if any(ord(c) > 127 for c in s):
        f.append('non-ascii')
    return '+'.join(f) or 'plain'


def _run2d_user_strings(ctx, strings=None):
    """stream `specstr`: sdss_specobjid(plate, fiber, mjd, <any string>) against packSpecStr; the oracle reads the string by
    the documentation of int() / \\d on its own and demands the documented layout, a ValueError, the canonical string
    from the unpacker and the same ID when that canonical string is packed again"""
    rng = ctx.rng
    strings = strings if strings is not None else _user_strings(ctx)
    cases = []
    for kind, st in strings:
        t = rng.choice([[4055, 408, 55359, 0, 0], [rng.randrange(a, b) for _, a, b in SPEC_RANGES]])
        c = {'stream': 'specstr', 'kind': kind, 'plate': t[0], 'fiber': t[1], 'mjd': t[2], 'cs': [ord(ch) for ch in st]}
        mode = rng.randrange(8)
        if mode == 0:
            c['line'] = t[4]
        elif mode == 1:
            c['index'] = t[4]
        elif mode == 2 and kind != 'named':
            c['line'], c['index'] = t[4], 0
        cases.append(c)
    lines = [dict({'p': 'C06', 'op': 'specstr', 'line': None, 'index': None}, **{k: v for k, v in c.items() if k not in ('stream', 'kind')}) for c in cases]
    lines2 = [{'p': 'C06', 'op': 'run2dfull', 'cs': c['cs']} for c in cases]
    model = core.driver_parallel(lines)
    model2 = core.driver_parallel(lines2)
    for c, m, m2 in zip(cases, model, model2):
        st = ''.join(chr(x) for x in c['cs'])
        impl = _impl_specli(dict(c, run2d=st))
        ctx.seen(c)
        ctx.count('specstr:%s:den-%s:%s' % (c['kind'], m2['den'], 'err:' + impl['err'] if 'err' in impl else 'ok' if 'ok' in impl else 'other'))
        ctx.count('specstr-features:' + _features(st) + (':accepted' if 'ok' in impl else ':refused'))
        if impl != m:
            ctx.disagree('specstr', c, impl, m)
        den = _oracle_den(st)
        if (den[0] if den else 'none') != m2['den']:
            # the model and the independent reading of the string differ: a broken tie, reported as a disagreement
            ctx.disagree('specstr-denotation', c, {'oracle-den': den}, m2)
        if den is None:
            r2v = None
        elif den[0] == 'int':
            r2v = den[1]
        else:
            r2v = (den[1] - 5) * 10000 + den[2] * 100 + den[3] if (5 <= den[1] <= 6 and den[2] <= 99 and den[3] <= 99) else None
        mr = m2['r'].get('ok') if isinstance(m2.get('r'), dict) else None
        if (r2v if r2v is None or abs(r2v) < 2**70 else 'huge') != mr:
            ctx.disagree('specstr-value', c, {'oracle-run2d': r2v if r2v is None or abs(r2v) < 2**70 else 'huge'}, m2)
        lv = c.get('line', c.get('index', 0))
        want = None
        if not ('line' in c and 'index' in c) and r2v is not None:
            want = _layout([c['plate'], c['fiber'], c['mjd'], r2v, lv], SPEC_RANGES, SPEC_SHIFT)
        one = dict(c)
        if want is None:
            if impl != {'err': 'ValueError'}:
                ctx.violate('specstr:not-refused-with-ValueError', 'run2d string %r: expected ValueError, got %s' % (st, impl), one)
            continue
        if impl == {'err': 'ValueError'} and not (st.isascii() and _parse_run2d_oracle(st) is not None):
            # the statement names the plain-digit and the vN_M_P form; refusing a DECORATED spelling (white space, sign,
            # underscores, non-ASCII digits) with ValueError breaks no clause of it.  It still differs from the model:
            # reported above as a disagreement, not as a violation of the property.
            ctx.count('specstr:decorated-spelling-refused')
            continue
        if impl != {'ok': want}:
            ctx.violate('specstr:layout', 'run2d string %r (denotes %s): got %s, documented layout %s' % (st, den, impl, want), one)
            continue
        back = _impl_unspec([want], False)[0]
        canon = 'v%d_%d_%d' % (r2v // 10000 + 5, (r2v % 10000) // 100, r2v % 100)
        if back['f'] != [c['plate'], c['fiber'], c['mjd'], r2v, lv] or back['s'] != canon:
            ctx.violate('specstr:roundtrip', 'run2d string %r packed, unpacked as %s (canonical %s)' % (st, back, canon), one)
        elif m2.get('canon') != canon:
            ctx.disagree('specstr-canon', c, canon, m2.get('canon'))
        else:
            again = _impl_specli(dict(c, run2d=back['s']))
            if again != impl:
                ctx.violate('specstr:canonical-repack', 'run2d %r -> ID %s, canonical string %r -> %s' % (st, impl, back['s'], again), one)


# ---------------------------------------------------------------- extension: columns of every integer type, mixed
DTYPES = ['int8', 'uint8', 'int16', 'uint16', 'int32', 'uint32', 'int64', 'uint64']


def _impl_cols(kind, dts, rows):
    from pydl.pydlutils.sdss import sdss_objid, sdss_specobjid
    cols = [np.array([r[k] for r in rows], dtype=np.dtype(dt)) for k, dt in enumerate(dts)]
    try:
        if kind == 'objid':
            r = sdss_objid(cols[2], cols[3], cols[5], cols[6], rerun=cols[1], skyversion=cols[0], firstfield=cols[4])
        else:
            r = sdss_specobjid(cols[0], cols[1], cols[2], cols[3], line=cols[4])
        return {'ok': [int(x) % 2**64 for x in np.atleast_1d(r)]}
    except Exception as e:
        return {'err': core.exc_kind(e)}


def _cols(ctx, only=None):
    """stream `cols`: every column in its own integer type (8/16/32/64 bits, signed or not), values anywhere in the type
    (in range, just outside, the type's extremes); model = packObjidCols / packSpecCols on BitVec, oracle = the documented
    layout of the NUMBERS the elements denote"""
    rng = ctx.rng
    cases = []
    if only is not None:
        cases = [only]
    for kind, ranges in ([] if only is not None else [('objid', OBJ_RANGES), ('spec', SPEC_RANGES)]):
        for it in range(ctx.n(700, 20000)):
            mode = it % 4
            dts = [rng.choice(DTYPES)] * len(ranges) if mode == 0 else [rng.choice(DTYPES) for _ in ranges]
            rows = []
            for _ in range(rng.choice([1, 1, 2, 5])):
                row = []
                for (name, a, b), dt in zip(ranges, dts):
                    info = np.iinfo(np.dtype(dt))
                    pool = [v for v in (a, b - 1, (a + b) // 2) if info.min <= v <= info.max]
                    if mode == 3 or not pool or rng.random() < (0.08 if mode != 2 else 0.0):
                        # anything the type can hold: extremes, just outside the range, values that wrap when 50000 is removed
                        pool2 = [info.min, info.max, a - 1, b, 0, 100, 847, 848, 15535, 15536, 32767, 49999, 65535, b + 50000, rng.randrange(info.min, info.max + 1)]
                        pool2 = [v for v in pool2 if info.min <= v <= info.max]
                        row.append(rng.choice(pool2))
                    else:
                        row.append(rng.choice(pool + [rng.randrange(max(a, info.min), min(b - 1, info.max) + 1)] * 3))
                rows.append(row)
            cases.append({'stream': 'cols', 'kind': kind, 'dtypes': dts, 'rows': rows})
    lines = [{'p': 'C06', 'op': 'cols', 'kind': c['kind'], 'rows': c['rows'],
              'types': [[0 if dt.startswith('u') else 1, np.dtype(dt).itemsize * 8] for dt in c['dtypes']]} for c in cases]
    model = core.driver_parallel(lines)
    for c, m in zip(cases, model):
        impl = _impl_cols(c['kind'], c['dtypes'], c['rows'])
        ranges, shift = (OBJ_RANGES, OBJ_SHIFT) if c['kind'] == 'objid' else (SPEC_RANGES, SPEC_SHIFT)
        want = [_layout(r, ranges, shift) for r in c['rows']]
        bad = any(w is None for w in want)
        ctx.seen(c)
        ctx.count('cols:%s:%s:%s' % (c['kind'], 'same-type' if len(set(c['dtypes'])) == 1 else 'mixed', 'refused' if 'err' in impl else 'ok'))
        for dt in set(c['dtypes']):
            ctx.count('cols-type:%s:%s' % (c['kind'], dt))
        if impl != m:
            ctx.disagree('cols', c, impl, m)
        if bad:
            if impl != {'err': 'ValueError'}:
                one = _min_cols(c, ranges, shift)
                ctx.violate('cols:%s:out-of-range-not-ValueError:%s' % (c['kind'], impl.get('err', 'accepted')),
                            'out-of-range field (column types %s) not refused with ValueError: got %s' % (one['dtypes'], _impl_cols(one['kind'], one['dtypes'], one['rows'])), one)
        elif impl != {'ok': want}:
            ctx.violate('cols:%s:layout' % c['kind'], 'column types %s: got %s, documented layout %s' % (c['dtypes'], impl, want), c)


def _min_cols(c, ranges, shift):
    for r in c['rows']:
        if _layout(r, ranges, shift) is None and _impl_cols(c['kind'], c['dtypes'], [r]) != {'err': 'ValueError'}:
            return dict(c, rows=[r])
    return c


# ---------------------------------------------------------------- extension: the other function that range-checks objID fields
def _astrombad(ctx):
    """stream `astrombad`: sdss_astrombad(run, camcol, field) refuses exactly what okAstrombad refuses - and (real code only)
    exactly what sdss_objid(run, camcol, field, 0) refuses: the two functions agree on which identifiers exist.  The bad-field
    list is an empty table (no file, no network): only the range checks in front of it are exercised."""
    from pydl.pydlutils import sdss as S
    rng = ctx.rng
    rows = []
    for name, a, b in (('run', 0, 2**16), ('camcol', 1, 7), ('field', 0, 2**12)):
        k = ['run', 'camcol', 'field'].index(name)
        for v in [a - 1, a, a + 1, b - 1, b, b + 1, -1, 0, 2**31, -2**40, rng.randrange(a, b)]:
            for base in ([0, 1, 0], [2**16 - 1, 6, 2**12 - 1], [rng.randrange(0, 2**16), rng.randrange(1, 7), rng.randrange(0, 2**12)]):
                r = list(base)
                r[k] = v
                rows.append(r)
    for _ in range(ctx.n(300, 5000)):
        rows.append([rng.randrange(-2, 2**16 + 2), rng.randrange(0, 8), rng.randrange(-2, 2**12 + 2)])
    model = core.driver([{'p': 'C06', 'op': 'astrombad', 'rows': rows}])[0]
    saved = S.opbadfields
    S.opbadfields = np.zeros(0, dtype=[('run', 'i4'), ('firstfield', 'i4'), ('lastfield', 'i4')])
    try:
        for r, m in zip(rows, model):
            c = {'stream': 'astrombad', 'row': r}
            outs = []
            for arr in (False, True):
                try:
                    args = [np.array([v], dtype=np.int64) for v in r] if arr else r
                    S.sdss_astrombad(*args)
                    outs.append(True)
                except Exception as e:
                    outs.append(core.exc_kind(e))
            try:
                S.sdss_objid(r[0], r[1], r[2], 0)
                packable = True
            except Exception as e:
                packable = core.exc_kind(e)
            ctx.seen(c)
            ctx.count('astrombad:' + ('accepted' if outs[0] is True else 'refused:' + str(outs[0])))
            want = True if m else 'ValueError'
            if outs != [want, want]:
                ctx.disagree('astrombad', c, outs, want)
            if packable != outs[0]:
                ctx.disagree('astrombad-vs-objid', c, outs[0], {'sdss_objid': packable})
    finally:
        S.opbadfields = saved


# ---------------------------------------------------------------- the check
def _regenerate(ctx):
    """translator: constants of the four functions -> Gen/C06Consts.lean, re-checked against the model's tables"""
    from harness.xlate import c06_consts
    try:
        path, ths = c06_consts.generate(core.REPO, core.LEAN / 'PydlVerif' / 'Gen')
    except Exception as e:
        # The translator is an ADDITIONAL tie: it reads shifts / masks / ranges only from the code shape it knows.  A
        # rewrite it cannot read is not evidence against the property - the correspondence below (per-field sweeps, every
        # boundary, all conventions) is the tie that still checks those constants on this run.  Recorded, not an obligation.
        ctx.count('translator:source-shape-not-recognised')
        ctx.notes.append('constants translator could not read the current source (%s: %s); the constants are tied by the '
                         'correspondence streams on this run' % (type(e).__name__, e))
        return
    core.gen_obligations(ctx, 'PydlVerif.Gen.C06Consts', path, ths)


def _empty(ctx):
    """the elementwise map on no elements: a zero-length array of IDs / field tuples gives a zero-length answer (objids_is_map
    at n = 0), not an exception"""
    from pydl.pydlutils.sdss import sdss_objid, sdss_specobjid, unwrap_specobjid
    from pydl.photoop.photoobj import unwrap_objid
    e = np.array([], dtype=np.int64)
    calls = {'sdss_objid': lambda: sdss_objid(e, e, e, e), 'sdss_objid(all fields)': lambda: sdss_objid(e, e, e, e, rerun=e, skyversion=e, firstfield=e),
             'sdss_specobjid': lambda: sdss_specobjid(e, e, e, e), 'unwrap_objid': lambda: unwrap_objid(e),
             'unwrap_specobjid': lambda: unwrap_specobjid(np.array([], dtype=np.uint64))}
    for name, f in calls.items():
        c = {'stream': 'empty', 'call': name}
        ctx.seen(c)
        ctx.count('empty:' + name)
        try:
            r = f()
            if len(r) != 0:
                ctx.violate('empty:' + name, '%s of zero-length arrays returns %d elements' % (name, len(r)), c)
        except Exception as ex:
            ctx.violate('empty:' + name + ':exception', '%s of zero-length arrays raises %s: %s' % (name, type(ex).__name__, str(ex)[:100]), c)


def run(ctx):
    _regenerate(ctx)
    core.audit(ctx, LEAN_MODULES, THEOREMS)
    # one sequential call first: when the driver executable has to be relinked, the parallel calls below would race for it
    core.driver([{'p': 'C06', 'op': 'run2d', 's': '0'}])
    _objid(ctx)
    _unobjid(ctx)
    _spec(ctx)
    _unspec(ctx)
    _empty(ctx)
    _run2d_user_strings(ctx)
    _cols(ctx)
    _astrombad(ctx)


def _objid(ctx, tuples=None):
    tuples = tuples if tuples is not None else _obj_tuples(ctx)
    lines, cases = [], []
    # scalar calls one by one, array calls in blocks that are entirely in range plus singletons
    for kind, t in tuples:
        cases.append({'stream': 'objid', 'kind': kind, 'scalar': True, 'f': [t]})
    good = [t for k, t in tuples if _layout(t, OBJ_RANGES, OBJ_SHIFT) is not None]
    bad = [t for k, t in tuples if _layout(t, OBJ_RANGES, OBJ_SHIFT) is None]
    for i in range(0, len(good), 257):
        cases.append({'stream': 'objid', 'kind': 'array', 'scalar': False, 'f': good[i:i + 257]})
    # the catalogue columns these IDs are built from are stored as 16/32-bit integers
    for j, dt in enumerate(['int32', 'int16', 'uint16', 'uint32', 'uint64', 'int32', 'int64'] * 6):
        blk = [t for t in good[j * 53:j * 53 + 40] if _fits([t], dt)] or [t for t in good if _fits([t], dt)][:5]
        if blk:
            cases.append({'stream': 'objid', 'kind': 'array-' + dt, 'scalar': False, 'dtype': dt, 'f': blk})
    for j, t in enumerate(bad):
        blk = good[(7 * j) % max(1, len(good)):][:5]
        pos = j % (len(blk) + 1)
        cases.append({'stream': 'objid', 'kind': 'array-bad', 'scalar': False, 'f': blk[:pos] + [t] + blk[pos:]})
    for c in cases:
        lines.append({'p': 'C06', 'op': 'objid', 'f': c['f']})
    model = core.driver_parallel(lines)
    for c, m in zip(cases, model):
        impl = _impl_objid(c['f'], c['scalar'], c.get('dtype', 'int64'))
        ctx.seen(c)
        ctx.count('objid:' + c['kind'] + (':err' if 'err' in impl else ':ok'))
        if impl != m:
            ctx.disagree('objid', c, impl, m)
        # property oracle
        want = [_layout(t, OBJ_RANGES, OBJ_SHIFT) for t in c['f']]
        if any(w is None for w in want):
            if impl != {'err': 'ValueError'}:
                ctx.violate('objid:out-of-range-not-ValueError:' + c['kind'].split('-')[-1],
                            'out-of-range field not refused with ValueError: got %s' % impl, c)
        else:
            if impl != {'ok': want}:
                if 'dtype' in c:
                    c = dict(c, f=[next((t for t, w in zip(c['f'], want) if _impl_objid([t], False, c['dtype']) != {'ok': [w]}), c['f'][0])])
                ctx.violate('objid:layout' + (':' + c['dtype'] if c.get('dtype', 'int64') != 'int64' else ''), 'packed objID differs from the documented layout: got %s want %s' % (impl, want), c)
            else:
                back = _impl_unobjid(want, False)
                if back != [list(t) for t in c['f']]:
                    ctx.violate('objid:roundtrip', 'unwrap_objid(sdss_objid(f)) != f', c)


def _unobjid(ctx):
    rng = ctx.rng
    vs = [rng.getrandbits(64) for _ in range(ctx.n(2000, 100000))] + [rng.getrandbits(63) for _ in range(ctx.n(2000, 100000))]
    vs += [0, 1, 2**63 - 1, 2**63, 2**64 - 1] + [1 << k for k in range(64)] + [(1 << k) - 1 for k in range(1, 65)]
    for i in range(0, len(vs), 500):
        blk = vs[i:i + 500 - (i // 500) % 3]
        m = core.driver([{'p': 'C06', 'op': 'unobjid', 'v': blk}])[0]
        for as_str in (False, True, 'bytes'):
            b2 = [v for v in blk if v < 2**63] if as_str else blk
            mm = m if not as_str else [x for x, v in zip(m, blk) if v < 2**63]
            impl = _impl_unobjid(b2, as_str)
            c = {'stream': 'unobjid', 'as_str': as_str, 'v': b2}
            ctx.seen(c)
            ctx.count('unobjid:' + ('bytes' if as_str == 'bytes' else 'str' if as_str else 'int64'), len(b2))
            if impl != mm:
                k = next(i for i in range(len(b2)) if impl[i] != mm[i])
                ctx.disagree('unobjid', {'stream': 'unobjid', 'as_str': as_str, 'v': [b2[k]]}, impl[k], mm[k])
            for v, got in zip(b2, impl):
                want = _fields_of(v, OBJ_RANGES, OBJ_SHIFT)
                if got != want:
                    ctx.violate('unobjid:fields', 'unwrap_objid(%d) = %s, bit layout says %s' % (v, got, want),
                                {'stream': 'unobjid', 'as_str': as_str, 'v': [v]})
                    break


def _spec(ctx):
    rng = ctx.rng
    tuples = _spec_tuples(ctx)
    cases = []
    for kind, t in tuples:
        c = {'stream': 'specli', 'kind': kind, 'plate': t[0], 'fiber': t[1], 'mjd': t[2], 'run2d': t[3]}
        mode = rng.randrange(4)
        if mode == 0:
            c['line'] = t[4]
        elif mode == 1:
            c['index'] = t[4]
        elif mode == 2:
            c['line'] = t[4]
            c['index'] = rng.choice([0, 1, t[4]])
        else:
            if t[4] != 0 and kind.endswith('line'):
                c['line'] = t[4]
        if rng.random() < 0.3:      # (a negative number written as a decimal string is refused like the number)
            c['run2d'] = str(t[3])
            c['kind'] += ':digits'
        cases.append(c)
    base = [4055, 408, 55359, 0, 0]
    for s in _run2d_strings(ctx):
        t = rng.choice([base, [rng.randrange(a, b) for _, a, b in SPEC_RANGES]])
        c = {'stream': 'specli', 'kind': 'run2d-string', 'plate': t[0], 'fiber': t[1], 'mjd': t[2], 'run2d': s}
        if rng.random() < 0.3:
            c['line'] = t[4]
        cases.append(c)
    lines = [dict({'p': 'C06', 'op': 'specli', 'line': None, 'index': None},
                  **{k: v for k, v in c.items() if k not in ('stream', 'kind')}) for c in cases]
    model = core.driver_parallel(lines)
    for c, m in zip(cases, model):
        impl = _impl_specli(c)
        ctx.seen(c)
        ctx.count('spec:' + c['kind'] + (':err' if 'err' in impl else ':ok'))
        if impl != m:
            ctx.disagree('specli', c, impl, m)
        r2 = c['run2d']
        r2v = _parse_run2d_oracle(r2) if isinstance(r2, str) else r2
        if 'line' in c and 'index' in c:
            want = None
        elif r2v is None:
            want = None
        else:
            want = _layout([c['plate'], c['fiber'], c['mjd'], r2v, c.get('line', c.get('index', 0))], SPEC_RANGES, SPEC_SHIFT)
        if want is None:
            if impl != {'err': 'ValueError'}:
                sig = 'spec:not-refused-with-ValueError:' + ('run2d-string' if isinstance(r2, str) and not r2.isdigit() else c['kind'].split(':')[0].split('-')[-1])
                ctx.violate(sig, 'expected ValueError, got %s' % impl, c)
        else:
            if impl != {'ok': want}:
                ctx.violate('spec:layout', 'specObjID differs from the documented layout: got %s want %s' % (impl, want), c)
            else:
                back = _impl_unspec([want], False)[0]
                if back['f'] != [c['plate'], c['fiber'], c['mjd'], r2v, c.get('line', c.get('index', 0))]:
                    ctx.violate('spec:roundtrip', 'unwrap_specobjid(sdss_specobjid(f)) != f: %s' % back, c)
                if isinstance(r2, str) and r2.startswith('v'):
                    import re
                    canon = 'v%d_%d_%d' % tuple(int(g) for g in re.match(r'v(\d+)_(\d+)_(\d+)', r2).groups())
                    if back['s'] != canon:
                        ctx.violate('spec:run2d-string-roundtrip', 'run2d %r packed and unpacked as %r' % (r2, back['s']), c)
    # array convention: true MJD in arrays as well
    good = [t for k, t in tuples if _layout(t, SPEC_RANGES, SPEC_SHIFT) is not None]
    bad = [t for k, t in tuples if _layout(t, SPEC_RANGES, SPEC_SHIFT) is None]
    acases = [{'stream': 'spec', 'kind': 'array', 'f': good[i:i + 257]} for i in range(0, len(good), 257)]
    for j, t in enumerate(bad):
        blk = good[(7 * j) % max(1, len(good)):][:4]
        pos = j % (len(blk) + 1)
        acases.append({'stream': 'spec', 'kind': 'array-bad', 'f': blk[:pos] + [t] + blk[pos:]})
    # catalogue columns are stored as 16/32-bit integers (plate, fiber, mjd fit into int32; all but mjd into int16)
    for j, dt in enumerate(['int32', 'uint32', 'int32', 'uint64', 'int16', 'uint16'] * 6):
        blk = [t for t in good[j * 41:j * 41 + 30] if _fits([t], dt)] or [t for t in good if _fits([t], dt)][:5]
        if blk:
            acases.append({'stream': 'spec', 'kind': 'array-' + dt, 'dtype': dt, 'f': blk})
    model = core.driver_parallel([{'p': 'C06', 'op': 'spec', 'f': c['f']} for c in acases])
    model_any = core.driver_parallel([{'p': 'C06', 'op': 'specs', 'f': c['f']} for c in acases])     # packSpecs: `.any()` per column
    for c, m, m_any in zip(acases, model, model_any):
        impl = _impl_spec_array(c['f'], c.get('dtype', 'int64'))
        ctx.seen(c)
        ctx.count('spec:' + c['kind'] + (':err' if 'err' in impl else ':ok'))
        if impl != m:
            ctx.disagree('spec-array', c, impl, m)
        if impl != m_any:
            ctx.disagree('spec-array-any', c, impl, m_any)
        want = [_layout(t, SPEC_RANGES, SPEC_SHIFT) for t in c['f']]
        if any(w is None for w in want):
            if impl != {'err': 'ValueError'}:
                ctx.violate('spec-array:not-refused-with-ValueError', 'expected ValueError, got %s' % impl, c)
        elif impl != {'ok': want}:
            ctx.violate('spec-array:layout' + (':' + c['dtype'] if 'dtype' in c else ''), 'array call differs from the documented layout (true MJD in both conventions)', _min_array_case(c, want))


def _min_array_case(c, want):
    for t, w in zip(c['f'], want):
        if _impl_spec_array([t], c.get('dtype', 'int64')) != {'ok': [w]}:
            return dict(c, f=[t])
    return c


def _unspec(ctx):
    rng = ctx.rng
    vs = [rng.getrandbits(64) for _ in range(ctx.n(3000, 150000))]
    vs += [0, 1, 2**63 - 1, 2**63, 2**64 - 1] + [1 << k for k in range(64)] + [(1 << k) - 1 for k in range(1, 65)]
    vs += [(r << 10) | (rng.getrandbits(40) << 24) | rng.getrandbits(10) for r in range(0, 16384)]  # every run2d value
    for i in range(0, len(vs), 500):
        blk = vs[i:i + 500 - (i // 500) % 3]
        m = core.driver([{'p': 'C06', 'op': 'unspec', 'v': blk}])[0]
        for as_str in (False, True, 'bytes'):
            impl = _impl_unspec(blk, as_str)
            c = {'stream': 'unspec', 'as_str': as_str, 'v': blk}
            ctx.seen(c)
            ctx.count('unspec:' + ('bytes' if as_str == 'bytes' else 'str' if as_str else 'uint64'), len(blk))
            dis = False
            for k, (v, got, mm) in enumerate(zip(blk, impl, m)):
                one = {'stream': 'unspec', 'as_str': as_str, 'v': [v]}
                if (got['f'] != mm['f'] or got['s'] != mm['s'] or (len(got['f']) == 5 and got['index'] != mm['f'][4])) and not dis:
                    ctx.disagree('unspec', one, got, mm)
                    dis = True      # one report per block; the oracle below still judges every element
                want = _fields_of(v, SPEC_RANGES, SPEC_SHIFT)
                r = want[3]
                ws = 'v%d_%d_%d' % (r // 10000 + 5, (r % 10000) // 100, r % 100)
                if got['f'] != want or got['s'] != ws:
                    ctx.violate('unspec:fields', 'unwrap_specobjid(%d) = %s, bit layout says %s %s' % (v, got, want, ws), one)
                    break


def replay(ctx, case):
    _regenerate(ctx)
    core.audit(ctx, LEAN_MODULES, THEOREMS)
    s = case.get('stream')
    if s == 'empty':
        _empty(ctx)
    elif s == 'objid':
        _objid(ctx, [(case.get('kind', 'replay'), t) for t in case['f']])
    elif s == 'cols':
        _cols(ctx, case)
    elif s == 'specstr':
        _run2d_user_strings(ctx, [(case.get('kind', 'replay'), ''.join(chr(x) for x in case['cs']))])
    else:
        run(ctx)

LEVEL_TEXT = ('Machine-checked Lean 4 theorems over an executable model of the four ID functions: documented bit layout, '
              'pack/unpack bijection for objID (bit 63 clear, camcol 1..6) and specObjID (all 64-bit values), refusal of every '
              'out-of-range field, array = map of scalar for both functions and "the array call raises iff some element would", '
              'vN_M_P formula inverse and injectivity - for all field tuples, no enumeration. '
              'Text level for EVERY run2d string (int() with white space, sign, underscores, all Unicode decimal digits, digit limit; then the '
              'prefix expression with Unicode \\d): what an accepted string denotes, same ID iff same number, pack(s) = pack(canonical string of the unpacker). '
              'Fixed-width level: for columns of any integer width <= 64, signed or not, mixed, the machine path (casts, wrapping '
              'MJD offset, 64-bit shifts) is proved equal to the path on the numbers. '
              'The model is tied to /repo on every run by I/O correspondence (per-field sweeps, boundaries, random tuples, '
              'scalar/array/string conventions, arbitrary strings, all dtypes) and independent bit-string and string oracles.')
LEVEL_NOTE = ('Trusted: Lean kernel, axioms propext/Classical.choice/Quot.sound at most, the hand-written model (validated only by the '
              'correspondence sample), numpy string->int casts and numpy cast / comparison semantics (compared). The text level is now proved for '
              'every string a caller can write (str without lone surrogates), relative to three interpreter tables (decimal digits, white space of '
              'int(), digit limit) that are regenerated from the running interpreter on every run. Nothing is _partial. '
              'String arrays for run2d are outside the statement. No code outside the four functions decodes an ID; the one other function that '
              'range-checks ID fields (sdss_astrombad) is proved and compared consistent.')

"""C07 - bitmask names <-> values for any maskbits file (DESIGN §5 C07)."""
import os
import itertools
import numpy as np
from harness import core

ID = 'C07'
LEAN_MODULES = ['PydlVerif.Props.C07']
P = 'PydlVerif.C07.'
THEOREMS = [P + t for t in (
    'flagval_or', 'flagval_perm', 'flagname_spec', 'name_val_name', 'val_name_val',
    'case_insensitive', 'upper_idem', 'alias_same', 'setMaskbits_wf',
    'flagval_errors', 'flagname_errors', 'flagname_zero', 'flagval_nil', 'flagexist_spec', 'flagexist_flagval')]
RULE = ('generated maskbits files (1-6 groups, 1-64 labels per group on sparse bits 0..63 with 63/0/31/32 favoured, rows shuffled and '
        'interleaved, 0-3 aliases incl. alias of alias; a second stream breaks the file assumptions: repeated (flag,label) rows, two labels '
        'on one bit, bits 64..70, lower-case names in the file, aliases that overwrite groups / repeat / name unknown groups), written as '
        'yanny text and read by the real set_maskbits; per file: sdss_flagval on subsets in random order and case (str or list, with unknown '
        'labels / groups, repeats, empty list), sdss_flagname on values made of defined bits, undefined bits, random 64-bit words, 0, single '
        'bits, bit 63, passed as int / numpy.uint64 / numpy.int64 (two\'s complement), concat on/off, sdss_flagexist in its four return '
        'shapes; thorough adds all subsets x all orders and all defined-bit words (+ undefined bits) of groups with <= 4 labels. '
        'A case (file + one query) is non-trivial when the query reaches a dict lookup; distinct = distinct (file, query) payloads')
TRUSTED = ['hand-written model lean/PydlVerif/Model/Flags.lean tied to the code by the I/O correspondence of this run',
           'the yanny reader as used by set_maskbits (raw=True) on the generated files (its output dict is compared to the model on every file)',
           'Python str.upper on ASCII names = Char.toUpper per character']
ASSUMPTIONS = ['group / label / alias names are ASCII identifiers [A-Za-z][A-Za-z0-9_]* of at most 19 / 29 characters',
               'files of the property carry upper-case group and label names (as sdssMaskbits.par does), bits 0..63, one label per bit and '
               'one row per (group, label); alias names differ from each other and from group names (other files: correspondence only)',
               'bit numbers in files are >= 0 (a negative bit makes sdss_flagval raise OverflowError; outside the statement)',
               'flagvalue is a Python int, numpy.int64 or numpy.uint64; ints outside [0, 2^64) raise OverflowError (compared, outside the statement)',
               'bitname is a str or a list of str']

TYPEDEFS = {
    'maskbits': ('typedef struct {\n    char flag[20]; # Flag name\n    short bit; # Bit number, 0-indexed\n'
                 '    char label[30]; # Bit label\n    char description[100]; # text description\n} maskbits;\n'),
    'alias_fa': ('typedef struct {\n    char flag[20]; # Flag (real) name\n    char alias[20]; # Alias\n'
                 '    char description[100]; # text description\n} maskalias;\n'),
    'alias_af': 'typedef struct {\n    char alias[20];\n    char flag[20];\n} maskalias;\n',
}
GROUP_POOL = ['TARGET', 'TTARGET', 'SPPIXMASK', 'ZWARNING', 'BOSS_TARGET1', 'ANCILLARY_TARGET1', 'RESOLVE_STATUS', 'OBJECT1',
              'OBJECT2', 'CALIB_STATUS', 'IMAGE_STATUS', 'M_EYEBALL', 'APOGEE_ASPCAPFLAG', 'SEGUE1_TARGET2', 'Q_EYEBALL']
LABEL_POOL = ['QSO_HIZ', 'QSO_CAP', 'GALAXY', 'GALAXY_RED', 'STAR_BHB', 'NOPLUG', 'BADTRACE', 'NODATA', 'COMBINEREJ', 'BADSKYCHI',
              'REDMONSTER', 'SURVEY_PRIMARY', 'BRIGHT', 'EDGE', 'BLENDED', 'CHILD', 'PEAKCENTER', 'NODEBLEND', 'SKY', 'LITTLE_COVERAGE',
              'SMALL_DELTA_CHI2', 'NEGATIVE_MODEL', 'MANY_OUTLIERS', 'Z_FITLIMIT', 'UNPLUGGED', 'ELG', 'BLAZGX', 'BRIGHTGAL']
ALPHA = 'ABCDEFGHIJKLMNOPQRSTUVWXYZ'
_UP = {ord(c): ord(c) - 32 for c in 'abcdefghijklmnopqrstuvwxyz'}


def _up(s):
    """ASCII upper-casing for the oracle (independent of str.upper)"""
    return s.translate(_UP)


# ---------------------------------------------------------------- generators
def _ident(rng, maxlen):
    n = rng.choice([1, 2, 3, 5, 8, maxlen])
    return rng.choice(ALPHA) + ''.join(rng.choice(ALPHA + '0123456789_') for _ in range(n - 1))


def _names(rng, pool, k, maxlen):
    out = []
    while len(out) < k:
        s = rng.choice(pool) if rng.random() < 0.6 else _ident(rng, maxlen)
        if s not in out:
            out.append(s)
    return out


def _bits(rng, k):
    fav = [b for b in (63, 0, 31, 32, 62, 1) if rng.random() < 0.5]
    rest = [b for b in range(64) if b not in fav]
    rng.shuffle(rest)
    bs = (fav + rest)[:k]
    rng.shuffle(bs)
    return bs


def gen_file(rng, wf=True, small=False):
    """A maskbits file as data: rows [flag, bit, label], aliases [alias, flag]."""
    ng = rng.choice([1, 1, 2, 3, 4, 6]) if not small else rng.choice([1, 2])
    groups = _names(rng, GROUP_POOL, ng, 19)
    per = []
    for g in groups:
        k = rng.choice([1, 2, 3, 4]) if small else rng.choice([1, 2, 3, 5, 8, 12, 20, 40, 64])
        labels = _names(rng, LABEL_POOL, k, 29)
        per.append([[g, b, l] for b, l in zip(_bits(rng, k), labels)])
    # interleave the groups' rows, keeping each group's own order
    rows = []
    idx = [0] * ng
    order = [i for i, p in enumerate(per) for _ in p]
    rng.shuffle(order)
    for i in order:
        rows.append(per[i][idx[i]])
        idx[i] += 1
    aliases = []
    na = rng.choice([0, 0, 1, 2, 3])
    known = list(groups)
    for _ in range(na):
        a = _names(rng, ['PRIMTARGET', 'LEGACY_TARGET1', 'SECTARGET', 'BOSSTILE_STATUS'], 1, 19)[0]
        if a in known:
            continue
        aliases.append([a, rng.choice(known)])
        known.append(a)
    if not wf:
        for _ in range(rng.choice([1, 2, 3])):
            kind = rng.choice(['relabel', 'samebit', 'highbit', 'lower', 'alias-unknown', 'alias-over', 'alias-dup', 'alias-late'])
            r = rng.choice(rows)
            if kind == 'relabel':      # same (flag, label) again with another bit: the later row wins, position kept
                rows.insert(rng.randrange(len(rows) + 1), [r[0], rng.randrange(64), r[2]])
            elif kind == 'samebit':    # a second label on the same bit: the first in dict order is reported
                rows.insert(rng.randrange(len(rows) + 1), [r[0], r[1], _ident(rng, 8)])
            elif kind == 'highbit':    # 2**bit wraps to 0 in uint64
                rows.append([r[0], rng.randrange(64, 71), _ident(rng, 8)])
            elif kind == 'lower':      # unreachable names
                rows.append([rng.choice([r[0], r[0].lower(), 'MixedGroup']), rng.randrange(64), rng.choice(['lower_l', r[2].lower(), 'Mixed'])])
            elif kind == 'alias-unknown':
                aliases.insert(rng.randrange(len(aliases) + 1), ['AL_' + _ident(rng, 3), 'NO_SUCH_GROUP'])
            elif kind == 'alias-over' and len(groups) > 1:
                aliases.append([groups[0], groups[1]])
            elif kind == 'alias-dup' and aliases:
                aliases.append([aliases[0][0], rng.choice(groups)])
            elif kind == 'alias-late' and aliases:
                aliases.insert(0, ['EARLY', aliases[-1][0]])
    return {'rows': rows, 'aliases': aliases}


def file_text(rng, f):
    """yanny text of the file; maskbits and maskalias lines interleaved (yanny collects per table)."""
    af = rng.random() < 0.5
    head = ['#\n# generated maskbits file\n#\n', TYPEDEFS['maskbits'], '\n']
    if f['aliases'] or rng.random() < 0.5:
        head += [TYPEDEFS['alias_af' if af else 'alias_fa'], '\n']
    body = []
    for flag, bit, label in f['rows']:
        desc = ' '.join(rng.choice(['sky', 'fiber', 'bad', 'target', 'QSO', 'x', '(any)', 'r-band']) for _ in range(rng.randrange(4)))
        if rng.random() < 0.08:
            # hand-edited files leave the trailing description out altogether; the label is still defined
            body.append('maskbits %s %d %s\n' % (flag, bit, label))
            continue
        body.append('maskbits %s %s%d %s "%s"\n' % (flag, ' ' * rng.randrange(3), bit, label + ' ' * rng.randrange(4), desc))
    al = [('maskalias %s %s\n' % (a, t)) if af else ('maskalias %s %s "%s is a synonym for %s."\n' % (t, a, a, t)) for a, t in f['aliases']]
    # aliases keep their relative order, but may sit anywhere between the rows
    pos = sorted(rng.randrange(len(body) + 1) for _ in al) if rng.random() < 0.5 else [len(body)] * len(al)
    out = []
    k = 0
    for i, line in enumerate(body + [None]):
        while k < len(al) and pos[k] == i:
            out.append(al[k])
            k += 1
        if line is not None:
            out.append(line)
    if rng.random() < 0.25:
        # TAB-separated columns (files exported from a spreadsheet / written with '\t'.join): any white space separates yanny words;
        # blanks inside the quoted descriptions stay (seeded change C07-22)
        def tabs(line):
            i = line.find('"')
            lead, rest = (line, '') if i < 0 else (line[:i], line[i:])
            return '\t'.join(lead.split(' ')) .replace('\t\t', '\t ') + rest if lead.startswith(('maskbits ', 'maskalias ')) else line
        out = [tabs(l) for l in out]
    text = ''.join(head + out)
    _FILE_NO[0] += 1
    if _FILE_NO[0] % 3 == 0:
        text = text.rstrip('\n')       # an editor that does not end the last line: that line is still a row of the table
    return text


_FILE_NO = [0]


def _case(rng, s):
    m = rng.randrange(4)
    if m == 0:
        return s
    if m == 1:
        return s.lower()
    if m == 2:
        return s.capitalize()
    return ''.join(c.lower() if rng.random() < 0.5 else c.upper() for c in s)


def gen_queries(rng, f, n):
    groups = []
    for r in f['rows']:
        if r[0] not in groups:
            groups.append(r[0])
    targets = groups + [a for a, _ in f['aliases']]
    labels_of = {g: [r[2] for r in f['rows'] if r[0] == g] for g in groups}
    bits_of = {g: sorted({r[1] for r in f['rows'] if r[0] == g and r[1] < 64}) for g in groups}
    amap = {}
    for a, t in f['aliases']:
        amap[a] = amap.get(t, t)
    qs = []
    for _ in range(n):
        t = rng.choice(targets) if rng.random() < 0.9 else rng.choice(['NOSUCH', 'TARGETX', 'X'])
        base = amap.get(t, t)
        labs = labels_of.get(base) or labels_of[groups[0]]
        bits = bits_of.get(base) or bits_of[groups[0]] or [0]
        g = _case(rng, t)
        kind = rng.choice(['val', 'val', 'name', 'name', 'exist'])
        if kind in ('val', 'exist'):
            k = rng.choice([0, 1, 1, 2, 3, len(labs), rng.randrange(len(labs) + 1)])
            names = rng.sample(labs, min(k, len(labs)))
            u = rng.random()
            if u < 0.12:
                # unknown labels, incl. the empty string, a blank, a padded label and two labels joined by a blank (what
                # sdss_flagname(concat=True) prints is NOT a label: seeded change C07-23)
                names.insert(rng.randrange(len(names) + 1), rng.choice(['NOT_A_LABEL', 'Q', labs[0] + 'X', '', ' ', ' ' + labs[0], labs[-1] + ' ',
                                                                         labs[0] + ' ' + labs[-1]]))
            elif u < 0.2 and names:
                names.insert(rng.randrange(len(names) + 1), rng.choice(names))
            names = [_case(rng, x) for x in names]
            if len(names) == 1 and rng.random() < 0.5:
                names = names[0]
            q = {'t': kind, 'g': g, 'names': names}
            if kind == 'exist':
                q['fe'] = rng.random() < 0.5
                q['we'] = rng.random() < 0.5
        else:
            m = rng.randrange(8)
            if m == 0:
                v = rng.choice([0, 0, 1, 2**63, 2**64 - 1, 2**63 - 1])
            elif m == 1:
                v = 1 << rng.randrange(64)
            elif m == 2:
                v = rng.getrandbits(64)
            elif m in (3, 4):
                v = sum(1 << b for b in bits if rng.random() < 0.5)
            else:
                v = sum(1 << b for b in bits if rng.random() < 0.5) | (rng.getrandbits(64) & rng.getrandbits(64) & rng.getrandbits(64))
            if rng.random() < 0.25:
                v |= 1 << 63
            k = rng.choice(['int', 'u64', 'i64'])
            if k == 'i64' and v >= 2**63:
                v -= 2**64
            if rng.random() < 0.02:
                k, v = 'int', rng.choice([-1, 2**64, -2**63, 2**64 + 5, -v - 1])
            q = {'t': 'name', 'g': g, 'v': {'k': k, 'v': v}, 'concat': rng.random() < 0.2}
        qs.append(q)
    return qs


def exhaustive_queries(rng, f):
    """all subsets x all orders, all defined-bit words (+ undefined bits) for groups of <= 4 labels"""
    qs = []
    groups = sorted({r[0] for r in f['rows']})
    for g in groups:
        rows = [r for r in f['rows'] if r[0] == g]
        if len(rows) > 4:
            continue
        targets = [g] + [a for a, t in f['aliases'] if t == g]
        labs = [r[2] for r in rows]
        bits = [r[1] for r in rows]
        undefined = [b for b in (0, 1, 31, 32, 62, 63) if b not in bits]
        for k in range(len(labs) + 1):
            for sub in itertools.permutations(labs, k):
                qs.append({'t': 'val', 'g': _case(rng, rng.choice(targets)), 'names': [_case(rng, x) for x in sub]})
        for k in range(len(labs) + 1):
            for sub in itertools.combinations(bits, k):
                v = sum(1 << b for b in sub)
                for extra in [0] + [1 << b for b in undefined]:
                    w = v | extra
                    kk = rng.choice(['int', 'u64', 'i64'])
                    qs.append({'t': 'name', 'g': _case(rng, rng.choice(targets)),
                               'v': {'k': kk, 'v': w - 2**64 if (kk == 'i64' and w >= 2**63) else w}, 'concat': False})
            for sub in itertools.combinations(labs, k):
                qs.append({'t': 'exist', 'g': _case(rng, rng.choice(targets)), 'names': [_case(rng, x) for x in sub] + (['NOPE'] if rng.random() < 0.3 else []),
                           'fe': rng.random() < 0.5, 'we': True})
    return qs


# ---------------------------------------------------------------- the real code
def _canon(x):
    if isinstance(x, (tuple, list)):
        return [_canon(y) for y in x]
    if isinstance(x, (bool, np.bool_)):
        return bool(x)
    if isinstance(x, (int, np.integer)):
        return int(x)
    return x


def impl_load(ctx, text):
    """write the file, read it with the real set_maskbits and install the cache"""
    import pydl.pydlutils.sdss as S
    path = os.path.join(ctx.tmpdir(), 'maskbits-%d.par' % os.getpid())
    with open(path, 'w') as fh:
        fh.write(text)
    try:
        mb = S.set_maskbits(maskbits_file=path)
    except Exception as e:
        return {'err': core.exc_kind(e)}
    S.maskbits = mb
    return {'ok': [[g, [[l, _canon(b)] for l, b in d.items()]] for g, d in mb.items()]}


def impl_query(q):
    import pydl.pydlutils.sdss as S
    try:
        if q['t'] == 'val':
            r = S.sdss_flagval(q['g'], q['names'])
            if type(r) is not np.uint64:
                return {'ok': int(r), 'type': type(r).__name__}
            return {'ok': int(r)}
        if q['t'] == 'name':
            k, v = q['v']['k'], q['v']['v']
            x = v if k == 'int' else (np.int64(v) if k == 'i64' else np.uint64(v))
            return {'ok': _canon(S.sdss_flagname(q['g'], x, concat=q['concat']))}
        r = S.sdss_flagexist(q['g'], q['names'], flagexist=q['fe'], whichexist=q['we'])
        return {'ok': _canon(r)}
    except Exception as e:
        return {'err': core.exc_kind(e)}


# ---------------------------------------------------------------- oracle (independent of pydl and of the model)
def file_is_wf(f):
    """the files the statement speaks about: upper-case names, bits 0..63, one row per (group,label) and per (group,bit),
    alias names fresh, alias targets defined before"""
    seen_l, seen_b, groups = set(), set(), set()
    for g, b, l in f['rows']:
        if _up(g) != g or _up(l) != l or not (0 <= b < 64) or (g, l) in seen_l or (g, b) in seen_b:
            return False
        seen_l.add((g, l))
        seen_b.add((g, b))
        groups.add(g)
    known = set(groups)
    for a, t in f['aliases']:
        if _up(a) != a or a in known or t not in known:
            return False
        known.add(a)
    return True


def spec_of(f):
    """{NAME: [(bit, label) ascending]} straight from the rows of a WF file; aliases point at the same table"""
    tab = {}
    for g, b, l in f['rows']:
        tab.setdefault(g, []).append((b, l))
    for g in tab:
        tab[g].sort()
    for a, t in f['aliases']:
        tab[a] = tab[t]
    return tab


def oracle(spec, q):
    """expected canonical output of one query by the statement, or None when the statement does not speak"""
    tab = spec.get(_up(q['g']))
    if q['t'] == 'name':
        k, v = q['v']['k'], q['v']['v']
        if k == 'int' and not (0 <= v < 2**64):
            return None
        u = v % 2**64
        if u == 0:
            names = []
        elif tab is None:
            return {'err': 'KeyError'}
        else:
            names = [l for b, l in tab if (u >> b) & 1]
        return {'ok': ' '.join(names) if q['concat'] else names}
    names = [q['names']] if isinstance(q['names'], str) else list(q['names'])
    names = [_up(x) for x in names]
    if q['t'] == 'val':
        if not names:
            return {'ok': 0}
        if tab is None:
            return {'err': 'KeyError'}
        bit = {l: b for b, l in tab}
        if any(x not in bit for x in names):
            return {'err': 'KeyError'}
        if len(set(names)) != len(names):
            return None           # repeated labels: not "a set of distinct labels"
        v = 0
        for x in names:
            v |= 1 << bit[x]
        return {'ok': v}
    which = [tab is not None and any(l == x for _, l in tab) for x in names]
    l = tab is not None and all(which)
    if q['fe'] and q['we']:
        return {'ok': [l, tab is not None, which]}
    if q['fe']:
        return {'ok': [l, tab is not None]}
    if q['we']:
        return {'ok': [l, which]}
    return {'ok': l}


def oracle_signature(q, want, got):
    if q['t'] == 'name':
        bit63 = ':bit63' if (q['v']['v'] % 2**64) >> 63 else ''
        kind = q['v']['k']
        if 'err' in got:
            return 'flagname:%s-on-%s%s' % (got['err'], kind, bit63)
        return 'flagname:wrong-names:%s%s' % (kind, bit63)
    if q['t'] == 'val':
        if 'err' in got:
            return 'flagval:unexpected-%s' % got['err']
        if 'err' in want:
            return 'flagval:no-KeyError'
        return 'flagval:wrong-value' if 'type' not in got else 'flagval:not-uint64'
    return 'flagexist:%s' % ('raised-' + got['err'] if 'err' in got else 'wrong-report')


def roundtrips(ctx, spec, f, q, got):
    """names -> value -> names and value -> names -> value through the real code only"""
    tab = spec.get(_up(q['g']))
    if tab is None or 'ok' not in got:
        return
    if q['t'] == 'val':
        names = [q['names']] if isinstance(q['names'], str) else list(q['names'])
        names = [_up(x) for x in names]
        if len(set(names)) != len(names):
            return
        k = ctx.rng.choice(['int', 'u64', 'i64'])
        v = got['ok']
        back = impl_query({'t': 'name', 'g': q['g'], 'v': {'k': k, 'v': v - 2**64 if (k == 'i64' and v >= 2**63) else v}, 'concat': False})
        order = {l: b for b, l in tab}
        if back != {'ok': sorted(names, key=lambda x: order[x])}:
            _report(ctx, 'roundtrip:names-value-names:' + k, 'flagname(flagval(%s)) = %s' % (names, back), f, q, None)
        ctx.count('oracle:roundtrip-nvn')
    elif q['t'] == 'name' and not q['concat']:
        u = q['v']['v'] % 2**64
        back = impl_query({'t': 'val', 'g': q['g'], 'names': got['ok']})
        mask = sum(1 << b for b, _ in tab)
        if back != {'ok': u & mask}:
            _report(ctx, 'roundtrip:value-names-value', 'flagval(flagname(%d)) = %s, defined bits %d' % (u, back, u & mask), f, q, None)
        ctx.count('oracle:roundtrip-vnv')


# ---------------------------------------------------------------- the check
MAX_SHRINK_PER_SIGNATURE = 2
MAX_VIOLATIONS_PER_SIGNATURE = 25


def _report(ctx, sig, what, f, q, want):
    """record a violation; the first few of each signature are shrunk, later ones only counted"""
    seen = ctx.coverage.get('violations:' + sig, 0)
    ctx.count('violations:' + sig)
    if seen >= MAX_VIOLATIONS_PER_SIGNATURE:
        return False
    if seen < MAX_SHRINK_PER_SIGNATURE and want is not None:
        ctx.violate(sig, what, _shrink(ctx, f, q, want))
        return True
    ctx.violate(sig, what, {'file': f, 'qs': [q]})
    return False


def _shrink(ctx, f, q, want):
    """smallest WF sub-file on which the real code still misses the oracle for q"""
    def fails(rows):
        g = {'rows': rows, 'aliases': f['aliases']}
        if not rows or not file_is_wf(g):
            return False
        ld = impl_load(ctx, file_text(ctx.rng, g))
        if 'ok' not in ld:
            return False
        w = oracle(spec_of(g), q)
        return w is not None and _strip(impl_query(q)) != w
    rows = core.shrink_list(f['rows'], fails, minlen=1)
    return {'file': {'rows': rows, 'aliases': f['aliases']}, 'qs': [q]}


def _strip(got):
    return {k: v for k, v in got.items() if k != 'type'}


def run_files(ctx, files, stream, use_model=True):
    """files: list of (file, queries, text). Correspondence on all, oracle on the WF ones."""
    import pydl.pydlutils.sdss as S
    saved = S.maskbits
    try:
        model = None
        if use_model:
            lines = [{'p': 'C07', 'op': 'q', 'rows': f['rows'], 'aliases': f['aliases'], 'qs': qs} for f, qs, _ in files]
            model = core.driver_parallel(lines, chunk=max(50, len(lines) // 8 + 1))
        for i, (f, qs, text) in enumerate(files):
            wf = file_is_wf(f)
            ld = impl_load(ctx, text)
            m = model[i] if model is not None else None
            fcase = {'stream': stream, 'file': f, 'text': text}
            if 'err' in ld:
                ctx.seen(dict(fcase, qs=[]))
                ctx.count('%s:set_maskbits:%s' % (stream, ld['err']))
                if m is not None and m != ld:
                    ctx.disagree('set_maskbits', fcase, ld, m)
                if wf:
                    ctx.violate('set_maskbits:%s' % ld['err'], 'set_maskbits raised on a well-formed file', fcase)
                continue
            ctx.count('%s:set_maskbits:ok' % stream)
            ctx.count('%s:groups=%d' % (stream, len({r[0] for r in f['rows']})))
            ctx.count('%s:aliases=%d' % (stream, len(f['aliases'])))
            if m is not None and ('db' not in m or m['db'] != ld['ok']):
                ctx.disagree('set_maskbits', fcase, ld, m.get('db', m))
            spec = spec_of(f) if wf else None
            if wf:
                # the cache itself: every group / alias has exactly the rows' label->bit map
                got_db = {g: sorted((b, l) for l, b in d) for g, d in ld['ok']}
                if got_db != {g: list(t) for g, t in spec.items()}:
                    ctx.violate('set_maskbits:wrong-cache', 'cache differs from the rows of the file', fcase)
            mo = m.get('out') if (m is not None and 'out' in m) else None
            for k, q in enumerate(qs):
                got = impl_query(q)
                case = {'stream': stream, 'file': f, 'qs': [q]}
                nontrivial = not (q['t'] != 'name' and q['names'] == [])
                ctx.seen(case, nontrivial)
                ctx.count('%s:%s:%s' % (stream, q['t'] + (':' + q['v']['k'] if q['t'] == 'name' else ''), got.get('err', 'ok')))
                if q['t'] == 'name' and (q['v']['v'] % 2**64) >> 63:
                    ctx.count('%s:name:bit63-set' % stream)
                if mo is not None and _strip(got) != mo[k]:
                    ctx.count('disagreements:' + q['t'])
                    if ctx.coverage['disagreements:' + q['t']] <= 50:
                        ctx.disagree(q['t'], case, got, mo[k])
                if spec is not None:
                    want = oracle(spec, q)
                    if want is None:
                        ctx.count('oracle:not-in-statement')
                        continue
                    ctx.count('oracle:checked')
                    if got != want:
                        if _report(ctx, oracle_signature(q, want, got), 'query %s: got %s, statement says %s' % (q, got, want), f, q, want):
                            impl_load(ctx, text)     # the shrinker replaced the cache
                    else:
                        roundtrips(ctx, spec, f, q, got)
    finally:
        S.maskbits = saved


def _make(ctx, nfiles, nq, wf, small=False, exhaustive=False):
    out = []
    for _ in range(nfiles):
        f = gen_file(ctx.rng, wf=wf, small=small)
        qs = gen_queries(ctx.rng, f, nq)
        if exhaustive:
            qs = exhaustive_queries(ctx.rng, f) + qs
        out.append((f, qs, file_text(ctx.rng, f)))
    return out


def _fixed(ctx):
    """hand-written corner files: all 64 bits, one label on bit 63, the shape of the repo's test file"""
    full = {'rows': [['FULL', b, 'B%d' % b] for b in reversed(range(64))], 'aliases': [['ALLBITS', 'FULL'], ['ALL2', 'ALLBITS']]}
    top = {'rows': [['TOP', 63, 'SIGN'], ['TOP', 0, 'LOW'], ['OTHER', 63, 'SIGN']], 'aliases': [['T', 'TOP']]}
    out = []
    for f in (full, top):
        qs = gen_queries(ctx.rng, f, 150)
        qs += [{'t': 'name', 'g': g, 'v': {'k': k, 'v': v}, 'concat': c}
               for g in ('full', 'ALL2', 'top', 't', 'nosuch') for c in (False, True)
               for k, v in (('int', 2**64 - 1), ('u64', 2**64 - 1), ('i64', -1), ('i64', -2**63), ('u64', 2**63), ('int', 2**63),
                            ('int', 0), ('i64', 0), ('u64', 0), ('int', 1), ('int', -1), ('int', 2**64))]
        qs += [{'t': 'val', 'g': g, 'names': n} for g in ('top', 'T', 'other', 'full', 'nosuch')
               for n in ('sign', ['SIGN', 'low'], ['low', 'Sign'], [], ['b63', 'b0'], 'b63', ['sign', 'sign'])]
        out.append((f, qs, file_text(ctx.rng, f)))
    return out


def _leanchecker(ctx):
    """thorough tier: re-check the compiled property module with the external kernel checker"""
    rc, out = core._run(['lake', 'env', 'leanchecker'] + LEAN_MODULES, cwd=core.LEAN, timeout=1800)
    ctx.oblige('leanchecker ' + ' '.join(LEAN_MODULES), rc == 0, 'audit', out)
    return rc == 0


def _empty_table(ctx):
    """a definition file without any maskbits row is a (degenerate) definition file: every group is unknown - KeyError for the
    conversions, False from the existence query - and nothing else happens (no other table is looked for)"""
    import pydl.pydlutils.sdss as S
    from unittest import mock
    saved = S.maskbits
    text = '#\n# no flags defined yet\n#\n' + TYPEDEFS['maskbits'] + '\n'
    case = {'stream': 'empty-table', 'text': text}
    ctx.seen(case)
    try:
        ld = impl_load(ctx, text)
        if ld != {'ok': []}:
            ctx.violate('empty-table:load', 'set_maskbits of a file without rows gives %s' % ld, case)
            return

        def no_network(*a, **k):
            raise RuntimeError('the harness allows no download')
        with mock.patch('astropy.utils.data.download_file', no_network), mock.patch.object(S, 'download_file', no_network, create=True):
            got = [impl_query({'t': 'val', 'g': 'TARGET', 'names': ['QSO']}),
                   impl_query({'t': 'name', 'g': 'TARGET', 'v': {'k': 'int', 'v': 3}, 'concat': False}),
                   impl_query({'t': 'exist', 'g': 'TARGET', 'names': ['QSO'], 'fe': False, 'we': False}),
                   impl_query({'t': 'name', 'g': 'TARGET', 'v': {'k': 'int', 'v': 0}, 'concat': False})]
        ctx.count('empty-table:queries', len(got))
        exist_false = 'ok' in got[2] and not any(bool(x) for x in np.ravel(np.array(got[2]['ok'], dtype=object)))
        if got[0] != {'err': 'KeyError'} or got[1] != {'err': 'KeyError'} or not exist_false or got[3] != {'ok': []}:
            ctx.violate('empty-table:queries', 'with an empty table: flagval %s, flagname %s, flagexist %s, flagname(0) %s' % tuple(got), case)
    finally:
        S.maskbits = saved


def run(ctx):
    ok = core.audit(ctx, LEAN_MODULES, THEOREMS)
    if ok and ctx.tier == 'thorough':
        ok = _leanchecker(ctx)
    try:
        _empty_table(ctx)
        run_files(ctx, _fixed(ctx), 'fixed')
        run_files(ctx, _make(ctx, ctx.n(300, 5000), ctx.n(60, 80), wf=True), 'wf')
        run_files(ctx, _make(ctx, ctx.n(150, 2400), ctx.n(40, 60), wf=False), 'nonwf')
        run_files(ctx, _make(ctx, ctx.n(60, 2500), 10, wf=True, small=True, exhaustive=True), 'small-exhaustive')
    except core.DriverError as e:
        ctx.oblige('lean driver', False, 'build', str(e))
        ok = False
    if not ok or ctx.disagreements:
        # the proof or the correspondence is broken: directed search on the real code with the oracle only,
        # around the files that disagreed and on fresh well-formed files
        near = []
        for d in ctx.disagreements[:50]:
            f = d['case'].get('file')
            if f and file_is_wf(f):
                near.append((f, exhaustive_queries(ctx.rng, f)[:2000] + gen_queries(ctx.rng, f, 300), file_text(ctx.rng, f)))
        run_files(ctx, near, 'search-near', use_model=False)
        run_files(ctx, _make(ctx, ctx.n(200, 3000), 80, wf=True), 'search-wf', use_model=False)
        run_files(ctx, _make(ctx, ctx.n(50, 1000), 10, wf=True, small=True, exhaustive=True), 'search-small', use_model=False)


def replay(ctx, case):
    core.audit(ctx, LEAN_MODULES, THEOREMS)
    f = case['file']
    text = case.get('text') or file_text(ctx.rng, f)
    run_files(ctx, [(f, case.get('qs', []), text)], 'replay')


LEVEL_TEXT = ('Machine-checked Lean 4 theorems over an executable model of set_maskbits / sdss_flagval / sdss_flagname / sdss_flagexist '
              '(association lists, BitVec 64): for every cache and every group that is well formed (upper-case distinct labels, bits < 64, '
              'one label per bit) names->value is the OR of 2^bit in any order, value->names is exactly the labels of the defined set bits '
              'in ascending bit order, both round trips are identities on defined bits, queries depend on names only through upper-casing, '
              'an alias is the group it aliases, KeyError arises exactly when a conversion needs a missing group or label, flagexist is '
              'total and agrees with flagval; well-formed rows give a well-formed cache. The model is tied to the repository on every run by '
              'I/O correspondence on generated maskbits files read by the real set_maskbits, plus an independent statement-level oracle.')
LEVEL_NOTE = ('Trusted: Lean kernel, axioms propext/Classical.choice/Quot.sound at most, the hand-written model (validated only by the '
              'correspondence sample), the yanny reader on the generated files, str.upper = per-character ASCII upper-casing. '
              'numpy scalar behaviour (uint64 wrap-around, casts of int64, OverflowError for out-of-range Python ints) is modelled and compared, '
              'not proved. Files that break the assumptions (repeated rows, two labels per bit, bits >= 64, lower-case names) are covered by '
              'correspondence only.')

"""C08 - B-spline evaluation equals the Cox-de Boor spline of its knots and coefficients (DESIGN §5 C08).

Streams (real pydl code next to the Lean model lean/PydlVerif/Model/BSpline.lean):
  knots   bspline(x, nord, <option>).breakpoints          vs mkKnots            (<= 2^-23*scale, bit-exact counted)
  eval    intrv / bsplvn / action / value of one object   vs BS.intrv/.bsplvn/.action/.value at Float
          (indx, lower, upper, mask exact; bsplvn bit-exact; value within tolerance - np.dot) and at Rat
          (interval decisions exact, values within tolerance, value == pointwise splineAt exactly)
  intrv   the public intrv/bsplvn on points in arbitrary order (stateful scan)
  cdb     model-internal: bsplvn1 == coxDeBoorAt == coxDeBoor at Rat on the run's inputs
Oracle (independent of pydl and of the model): scipy.interpolate.BSpline (both one-sided limits at knots), an
exact rational textbook recursion at non-knot points, partition of unity, non-negativity, mask = outside the
breakpoint range, caller order, knot-vector shape.
"""
import math
from fractions import Fraction
import copy
import numpy as np
from harness import core

ID = 'C08'
LEAN_MODULES = ['PydlVerif.Props.C08', 'PydlVerif.Lemmas.BSplineRows', 'PydlVerif.Lemmas.BSplineValue',
                'PydlVerif.Lemmas.BSplineKnots']
P = 'PydlVerif.C08.'
THEOREMS = [P + t for t in (
    'mkKnots_shape_partial', 'intrv_pointwise', 'intrv_bracket', 'intrv_mono', 'bsplvn_nonneg', 'bsplvn_sum_one',
    'bsplvn_length', 'bsplvn_eq_coxDeBoorAt', 'bsplvn_eq_coxDeBoor', 'value_spec_partial', 'value_perm', 'mask_outside',
    # extension round: RowsOf discharged, bridge to the executed BS.value, every breakpoint option, headline
    'lowerUpper_spec', 'rowsOf_lowerUpper', 'lowerUpper_first_last', 'rowsOf_action', 'action_first_last',
    'value_spec', 'value_perm_action', 'action_eq', 'value_eq', 'padBkpt_eq', 'padBkpt_shape', 'shortBkpt_facts',
    'mkKnots_shape', 'splineAt_eq_coxDeBoorAt', 'splineAt_eq_coxDeBoor', 'value_is_spline')]
RULE = ('cases = (data abscissae: uniform/random/clustered/duplicated/constant, sorted or shuffled, several scales) x '
        '(order 1..6) x (breakpoint option bkpt/placed/bkspace/nbkpts/everyn with values inside, at and outside the '
        'sensible range, bkspread) x (evaluation points: inside, exactly on knots, one ulp inside/outside both ends, '
        'far outside, duplicated, in sorted/reversed/shuffled order) x random coefficients; plus the bounded family '
        'all (nx, everyn) with nx <= 24 (quick) / 60 (thorough). A case is non-trivial when the constructor returns '
        'a knot vector or raises, distinct = distinct case payloads')
TRUSTED = ['hand-written model lean/PydlVerif/Model/BSpline.lean tied to the code by the I/O correspondence of this run',
           'np.argsort returns a sorting permutation (handed to the model as a parameter, checked by the harness)',
           'binary64->binary32 rounding (Lean Float.toFloat32) where the code stores dtype="f"',
           'np.dot (BLAS) compared within tolerance', 'scipy.interpolate.BSpline as the independent oracle']
ASSUMPTIONS = ['x is a non-empty float64 array of finite values; x2=None, npoly=1 (1-D B-splines)',
               'explicit bkpt / placed are sorted; everyn is used with sorted x and 2*everyn <= x.size (at least two breakpoints); bkspace > 0; bkspread >= 0',
               'evaluation theorems assume non-decreasing knots with t[nord-1] < t[nord] (otherwise the code divides 0/0 at x = t[nord-1]); '
               'the data range is covered to single-precision rounding only on the everyn path (dtype "f" storage)',
               'at a knot of multiplicity >= order the value is the left limit (right limit at the first breakpoint); the oracle accepts either limit']

F32 = 2.0 ** -23


# ---------------------------------------------------------------- helpers
def fb(a):
    return [core.f2b(v) for v in np.asarray(a, dtype='d').ravel()]


def bf_(bits):
    return np.array([core.b2f(b) for b in bits], dtype='d')


def canon(v):
    """float -> comparable token (bit pattern, NaNs identified)"""
    v = float(v)
    if math.isnan(v):
        return 'nan'
    return core.f2b(v)


def ratf(q):
    """[num, den] -> Fraction"""
    return Fraction(int(q[0]), int(q[1]))


def closeS(a, b, scale):
    if math.isnan(a) or math.isnan(b):
        return math.isnan(a) and math.isnan(b)
    if math.isinf(a) or math.isinf(b):
        return a == b
    if not math.isfinite(scale):      # rows with inf/nan basis values (0/0 on coincident knots)
        scale = 0.0
    return abs(a - b) <= 1e-9 * max(1.0, abs(a), abs(b)) + 1e-11 * scale


# ---------------------------------------------------------------- real code
def impl_ctor(case):
    """bspline(x, nord, **opts) -> {'ok': breakpoints bits, 'dtype': ...} or {'err': kind}"""
    from pydl.pydlutils.bspline import bspline
    x = bf_(case['x'])
    o = case['opts']
    kw = {}
    if o.get('bkpt') is not None:
        kw['bkpt'] = bf_(o['bkpt']).astype('f' if o.get('bkptF32') else 'd')
    if o.get('placed') is not None:
        kw['placed'] = bf_(o['placed'])
    if o.get('bkspace') is not None:
        kw['bkspace'] = core.b2f(o['bkspace'])
    if o.get('nbkpts') is not None:
        kw['nbkpts'] = o['nbkpts']
    if o.get('everyn') is not None:
        kw['everyn'] = o['everyn']
    try:
        with np.errstate(all='ignore'):
            b = bspline(x, nord=case['nord'], bkspread=core.b2f(o['bkspread']), **kw)
    except Exception as e:
        return {'err': core.exc_kind(e)}, None
    out = {'ok': fb(b.breakpoints), 'dtype': str(b.breakpoints.dtype)}
    # the object must own its knots: the caller's arrays are neither modified by the constructor nor kept as the knot vector
    for name, arr, orig in (('x', x, case['x']), ('bkpt', kw.get('bkpt'), o.get('bkpt')), ('placed', kw.get('placed'), o.get('placed'))):
        if arr is None:
            continue
        if not o.get('bkptF32') or name != 'bkpt':
            if fb(arr) != list(orig):
                out['modified'] = name
        snap = fb(b.breakpoints)
        arr *= 3.0
        arr += 17.0
        if fb(b.breakpoints) != snap:
            out['aliased'] = name
    return out, b


def make_obj(case):
    """object with the given stored breakpoints / mask / coeff (bypassing the option logic)"""
    from pydl.pydlutils.bspline import bspline
    t = bf_(case['bk'])
    if case.get('bkF32'):
        t = t.astype('f')
    b = bspline.__new__(bspline)
    b.breakpoints = t
    b.nord = case['nord']
    b.npoly = 1
    b.mask = np.array(case['mask'], dtype=bool)
    # an integer-typed coefficient vector (np.arange(nc), a row of an integer identity) is a coefficient vector too
    b.coeff = bf_(case['coeff']).astype(case.get('coeffdtype', 'float64'))
    b.icoeff = np.zeros_like(b.coeff)
    b.xmin, b.xmax, b.funcname = 0.0, 1.0, 'legendre'
    # whatever else the constructor of the current source sets up (bookkeeping attributes) comes from a regularly built object
    for k_, v_ in _template_attrs().items():
        if k_ not in b.__dict__:
            setattr(b, k_, copy.deepcopy(v_))
    return b


_TEMPLATE = {}


def _template_attrs():
    if 'attrs' not in _TEMPLATE:
        from pydl.pydlutils.bspline import bspline
        try:
            _TEMPLATE['attrs'] = dict(bspline(np.arange(12.0), nord=4, nbkpts=4).__dict__)
        except Exception:
            _TEMPLATE['attrs'] = {}
    return _TEMPLATE['attrs']


def impl_eval(case):
    b = make_obj(case)
    x = bf_(case['x'])
    perm = np.array(case['perm'], dtype=int)
    out = {}
    try:
        with np.errstate(all='ignore'):
            xw = x[perm] if x.size else x
            indx = b.intrv(xw)
            try:
                bfv = [[canon(v) for v in r] for r in b.bsplvn(xw, indx)]
            except IndexError:
                bfv = 'IndexError'
            act = b.action(xw)
            # value() calls argsort itself; hand it the same permutation
            y, m = _value_with_perm(b, x, perm)
            # history: the same object asked again with the same work array, re-ordered in place by the caller ("evaluating at
            # points given in any order returns, in the caller's order, ..."): plain ndarray, value() sorts for itself
            hist = None
            if x.size >= 2:
                buf = np.array(x, dtype='d')
                y1, m1 = b.value(buf)
                buf[:] = buf[::-1].copy()
                y2, m2 = b.value(buf)
                y3, m3 = make_obj(case).value(np.array(buf))
                if not (np.array_equal(np.asarray(y2), np.asarray(y3), equal_nan=True) and np.array_equal(np.asarray(m2), np.asarray(m3))):
                    hist = 'value() of a work array re-ordered in place differs from the same points in a fresh array / fresh object'
                # second calling convention: the action matrix of the (sorted) points handed over by the caller
                if hist is None:
                    pre = b.action(np.sort(buf))
                    if not isinstance(pre[0], int):
                        y4, m4 = b.value(buf, action=pre[0], lower=pre[1], upper=pre[2])
                        if not (np.array_equal(np.asarray(y4), np.asarray(y3), equal_nan=True) and np.array_equal(np.asarray(m4), np.asarray(m3))):
                            hist = 'value(x, action=A, lower=L, upper=U) with A, L, U = action(sort(x)) differs from value(x) (points not in increasing order)'
                # evaluations at another precision first (float32 points, then the float64 points) on one object
                if hist is None:
                    bb = make_obj(case)
                    bb.value(buf.astype('f4'))
                    y5, m5 = bb.value(buf)
                    if not (np.array_equal(np.asarray(y5), np.asarray(y3), equal_nan=True) and np.array_equal(np.asarray(m5), np.asarray(m3))):
                        hist = 'value() at float64 points after an evaluation at float32 points on the same object differs from a fresh object'
        out = {'indx': [int(i) for i in indx], 'bf': bfv,
               'action': not isinstance(act[0], int),
               'lower': [] if isinstance(act[0], int) else [int(v) for v in act[1]],
               'upper': [] if isinstance(act[0], int) else [int(v) for v in act[2]],
               'y': [float(v) for v in y], 'mask': [bool(v) for v in m]}
        if hist:
            out['history'] = hist
        return {'ok': out}
    except Exception as e:
        return {'err': core.exc_kind(e)}


class _PermArray(np.ndarray):
    """float64 array whose argsort() returns a prescribed sorting permutation (so that the model
    can be given exactly the permutation the real value() used, including for ties)"""
    _perm = None

    def argsort(self, *a, **k):
        return np.array(self._perm, dtype=np.intp)


def _value_with_perm(b, x, perm):
    xa = np.array(x, dtype='d').view(_PermArray)
    xa._perm = perm
    y, m = b.value(xa)
    return np.asarray(y), np.asarray(m)


def impl_intrv(case):
    b = make_obj(case)
    x = bf_(case['x'])
    try:
        with np.errstate(all='ignore'):
            indx = b.intrv(x)
            bfv = b.bsplvn(x, indx)
        return {'ok': {'indx': [int(i) for i in indx], 'bf': [[canon(v) for v in r] for r in bfv]}}
    except Exception as e:
        return {'err': core.exc_kind(e)}


# ---------------------------------------------------------------- oracle pieces (no pydl, no model)
def exact_spline(t, k, c, x):
    """textbook Cox-de Boor recursion in exact rational arithmetic at a point that is not a knot"""
    T = [Fraction(float(v)) for v in t]
    X = Fraction(float(x))
    N = len(T)
    B = [Fraction(1) if T[j] <= X < T[j + 1] else Fraction(0) for j in range(N - 1)]
    for q in range(2, k + 1):
        nb = []
        for j in range(N - q):
            a = Fraction(0)
            if T[j + q - 1] > T[j]:
                a += (X - T[j]) / (T[j + q - 1] - T[j]) * B[j]
            if T[j + q] > T[j + 1]:
                a += (T[j + q] - X) / (T[j + q] - T[j + 1]) * B[j + 1]
            nb.append(a)
        B = nb
    return sum(Fraction(float(cj)) * B[j] for j, cj in enumerate(c)), B


def scipy_both(t, k, c, x):
    """right-continuous and left-continuous scipy evaluation"""
    from scipy.interpolate import BSpline
    t = np.asarray(t, dtype='d')
    c = np.asarray(c, dtype='d')
    r = BSpline(t, c, k - 1, extrapolate=True)(x)
    l = BSpline(-t[::-1], c[::-1], k - 1, extrapolate=True)(-np.asarray(x))
    return r, l


# ---------------------------------------------------------------- generators
def gen_x(rng, nx):
    scale = rng.choice([(0.0, 1.0), (-5.0, 10.0), (3500.0, 6000.0), (0.1, 3.6), (-1000.0, 250.0), (1.0, 2.0 ** -3)])
    lo, span = scale
    kind = rng.choice(['uniform', 'random', 'random', 'clustered', 'dup', 'const'] if nx > 1 else ['random'])
    if kind == 'uniform':
        x = [lo + span * i / max(1, nx - 1) for i in range(nx)]
    elif kind == 'random':
        x = sorted(lo + span * rng.random() for _ in range(nx))
    elif kind == 'clustered':
        cs = [rng.random() for _ in range(rng.randrange(1, 4))]
        x = sorted(lo + span * min(1.0, max(0.0, rng.choice(cs) + 0.03 * rng.gauss(0, 1))) for _ in range(nx))
    elif kind == 'dup':
        base = [lo + span * rng.random() for _ in range(max(1, nx // 3))]
        x = sorted(rng.choice(base) for _ in range(nx))
    else:
        x = [lo + span * 0.25] * nx
    return kind, x


def gen_ctor(rng, force_opt=None):
    k = rng.choice([1, 2, 3, 4, 4, 5, 6])
    nx = rng.choice([1, 2, 3, 5, 8, 13, 21, 34, rng.randrange(2, 70)])
    kind, x = gen_x(rng, nx)
    lo, hi = min(x), max(x)
    span = hi - lo if hi > lo else 1.0
    opt = force_opt or rng.choice(['bkpt', 'placed', 'bkspace', 'nbkpts', 'everyn', 'everyn', 'none'] if rng.random() < 0.1
                                  else ['bkpt', 'placed', 'bkspace', 'nbkpts', 'everyn'])
    o = {'bkspread': core.f2b(rng.choice([1.0, 1.0, 1.0, 0.5, 2.0, 0.1, 1.7, 0.0]))}
    domain = True
    shuffled = False
    if opt == 'bkpt':
        m = rng.choice([1, 2, 2, 3, 4, 6, 9, 12])
        mode = rng.choice(['inside', 'cover', 'wide', 'dups', 'unsorted'] if rng.random() < 0.3 else ['inside', 'cover', 'wide'])
        if mode == 'inside':
            b = sorted(lo + span * rng.random() for _ in range(m))
        elif mode == 'cover':
            b = sorted([lo, hi] + [lo + span * rng.random() for _ in range(max(0, m - 2))])
        elif mode == 'wide':
            b = sorted(lo - 0.3 * span + 1.6 * span * rng.random() for _ in range(m))
        elif mode == 'dups':
            base = [lo + span * rng.random() for _ in range(max(1, m // 2))]
            b = sorted(rng.choice(base) for _ in range(m))
        else:
            b = [lo + span * rng.random() for _ in range(m)]
            domain = b == sorted(b)
        if m < 2:
            domain = False
        o['bkptF32'] = rng.random() < 0.2
        if o['bkptF32']:
            b = [float(np.float32(v)) for v in b]
            domain = domain and b == sorted(b)
        o['bkpt'] = fb(b)
    elif opt == 'placed':
        m = rng.choice([0, 1, 2, 3, 5, 8])
        p = sorted(lo - 0.2 * span + 1.4 * span * rng.random() for _ in range(m))
        if m and rng.random() < 0.3:
            p[0] = lo
        if m and rng.random() < 0.3:
            p[-1] = hi
        o['placed'] = fb(p)
    elif opt == 'bkspace':
        r = rng.random()
        if r < 0.08:
            s = 0.0
            domain = False
        elif r < 0.16:
            s = -span / 3
            domain = False
        elif r < 0.3:
            s = span / rng.randrange(1, 9)       # at the int() threshold on purpose
        elif r < 0.4:
            s = span * rng.uniform(1.0, 3.0)
        else:
            s = span / rng.uniform(0.6, 14.0)
        o['bkspace'] = core.f2b(s)
    elif opt == 'nbkpts':
        o['nbkpts'] = rng.choice([-1, 0, 1, 2, 2, 3, 4, 5, 7, 10, 15])
    elif opt == 'everyn':
        r = rng.random()
        e = 0 if r < 0.03 else (-2 if r < 0.06 else rng.randrange(1, nx + 3))
        o['everyn'] = e
        domain = e >= 1 and 2 * e <= nx
        if rng.random() < 0.1 and nx > 2:
            rng.shuffle(x)
            shuffled = x != sorted(x)
            domain = domain and not shuffled
    if opt != 'everyn' and rng.random() < 0.5:
        rng.shuffle(x)
    if core.b2f(o['bkspread']) < 0 or opt == 'none':
        domain = False
    return {'stream': 'ctor', 'nord': k, 'x': fb(x), 'opts': o, 'opt': opt, 'xkind': kind, 'domain': domain}


def gen_points(rng, t, k, n_in, data=None):
    """evaluation points for knots t (float64 values), order k"""
    N = len(t)
    n = N - k
    lo, hi = (t[k - 1], t[n]) if n >= k - 1 and N >= k else (t[0], t[-1])
    span = hi - lo if hi > lo else 1.0
    pts = [lo + span * rng.random() for _ in range(n_in)]
    pts += [t[rng.randrange(N)] for _ in range(rng.randrange(0, 6))]
    ends = [lo, hi, np.nextafter(lo, -np.inf), np.nextafter(lo, np.inf), np.nextafter(hi, -np.inf), np.nextafter(hi, np.inf)]
    pts += [float(v) for v in rng.sample(ends, rng.randrange(0, 7))]
    pts += [lo - span * rng.uniform(0, 1.2) for _ in range(rng.randrange(0, 3))]
    pts += [hi + span * rng.uniform(0, 1.2) for _ in range(rng.randrange(0, 3))]
    if data is not None and rng.random() < 0.5:
        pts += list(data)[:40]
    if pts and rng.random() < 0.4:
        pts += [rng.choice(pts) for _ in range(rng.randrange(1, 4))]
    order = rng.choice(['sorted', 'reversed', 'shuffled', 'shuffled'])
    if order == 'sorted':
        pts.sort()
    elif order == 'reversed':
        pts.sort(reverse=True)
    else:
        rng.shuffle(pts)
    return order, [float(p) for p in pts]


def gen_coeff(rng, nc):
    mode = rng.choice(['normal', 'int', 'ones', 'big', 'zeros', 'onehot'])
    if mode == 'zeros':          # a freshly constructed spline: the validity mask does not depend on the coefficients
        return [0.0] * nc
    if mode == 'onehot':
        v = [0.0] * nc
        if nc:
            v[rng.randrange(nc)] = 1.0
        return v
    if mode == 'normal':
        return [rng.gauss(0, 1) for _ in range(nc)]
    if mode == 'int':
        return [float(rng.randrange(-9, 10)) for _ in range(nc)]
    if mode == 'ones':
        return [1.0] * nc
    return [rng.gauss(0, 300) for _ in range(nc)]


def eval_case(rng, t, k, f32, data=None, mask=None, n_in=None):
    N = len(t)
    nc = max(0, N - k)
    order, pts = gen_points(rng, t, k, n_in if n_in is not None else rng.choice([0, 1, 3, 10, 25]), data)
    x = np.array(pts, dtype='d')
    # any sorting permutation is allowed: numpy's default, a stable one, or ties reversed
    pk = rng.choice(['quicksort', 'stable', 'tiesrev'])
    if pk == 'tiesrev' and x.size:
        perm = np.lexsort((-np.arange(x.size), x))
    else:
        perm = x.argsort(kind='stable' if pk == 'stable' else 'quicksort')
    cf = gen_coeff(rng, nc)
    case = {'stream': 'eval', 'nord': k, 'bk': fb(t), 'bkF32': bool(f32), 'mask': [True] * N if mask is None else mask,
            'coeff': fb(cf), 'x': fb(x), 'perm': [int(p) for p in perm], 'order': order, 'permkind': pk}
    if all(float(c).is_integer() and abs(c) < 2**31 for c in cf) and rng.random() < 0.5:
        case['coeffdtype'] = rng.choice(['int64', 'int32'])
    return case


def gen_direct_knots(rng):
    """knot vectors given directly (not through the constructor): irregular, repeated interior knots, masked breakpoints"""
    k = rng.choice([1, 2, 3, 4, 4, 5, 6])
    m = rng.choice([2, 2, 3, 4, 6, 9, 14])
    # (wavelengths in metres, times in days since an epoch: the unit of the abscissa is the caller's business)
    lo, span = rng.choice([(0.0, 1.0), (-3.0, 7.0), (4000.0, 2500.0), (3.5e-7, 6.0e-7), (0.0, 2.0 ** -30), (1.0e9, 3.0e8)])
    inner = sorted(lo + span * rng.random() for _ in range(m))
    mode = rng.choice(['simple', 'simple', 'repeat-interior', 'repeat-first', 'clamped', 'short'])
    if mode == 'repeat-interior' and m >= 4:
        j = rng.randrange(1, m - 2)
        inner[j + 1] = inner[j]
    if mode == 'repeat-first' and m >= 2:
        inner[1] = inner[0]
    sp = (inner[1] - inner[0]) if mode != 'clamped' else 0.0
    if mode == 'repeat-first':
        sp = span / m
    t = [inner[0] - sp * i for i in range(k - 1, 0, -1)] + inner + [inner[-1] + sp * i for i in range(1, k)]
    if mode == 'short':
        t = t[:rng.randrange(1, max(2, 2 * k))]
    return k, t, mode


# ---------------------------------------------------------------- checking one case
def knots_model_line(case, num='float'):
    return {'p': 'C08', 'op': 'knots', 'num': num, 'x': case['x'], 'nord': case['nord'],
            'opts': {kk: case['opts'].get(kk) for kk in ('bkpt', 'bkptF32', 'placed', 'bkspace', 'nbkpts', 'everyn', 'bkspread')}}


def eval_model_line(case, num='float', op='eval'):
    l = {'p': 'C08', 'op': op, 'num': num, 'nord': case['nord'], 'bk': case['bk'], 'mask': case['mask'],
         'coeff': case['coeff'], 'x': case['x']}
    if op == 'eval':
        l['perm'] = case['perm']
    return l


def check_ctor(ctx, case, impl, model, model_rat=None):
    """correspondence + shape oracle for one constructor case"""
    opt = case['opt']
    ctx.seen(case)
    ctx.count('ctor:%s:%s' % (opt, 'err:' + impl['err'] if 'err' in impl else 'ok:' + impl['dtype']))
    x = bf_(case['x'])
    k = case['nord']
    if impl.get('modified'):
        # observed on the unchanged tree: the min/max patching writes into the caller's bkpt array.  The statement of C08
        # does not speak about the caller's arrays, so this is counted, not judged.
        ctx.count('ctor:constructor-patched-the-callers-%s-array' % impl['modified'])
    if impl.get('aliased'):
        ctx.violate('ctor:knots-alias-caller-array:' + impl['aliased'],
                    'the knot vector of the object changes when the caller later changes its %s array (nord=%d, option %s)' % (
                        impl['aliased'], k, opt), case)
    # --- correspondence
    if 'err' in impl or 'err' in model:
        if impl.get('err') != model.get('err'):
            ctx.disagree('knots', case, impl, model)
    else:
        a, m = bf_(impl['ok']), bf_(model['ok'])
        if len(a) != len(m):
            ctx.disagree('knots', case, impl, model)
        else:
            scale = max(1e-300, float(np.max(np.abs(a))) if len(a) else 0.0)
            if not np.all(np.abs(a - m) <= 8 * F32 * scale) or (impl['dtype'] == 'float64' and impl['ok'] != model['ok']):
                ctx.disagree('knots', case, impl, model)
            ctx.count('knots:bit-exact' if impl['ok'] == model['ok'] else 'knots:within-f32')
            if model_rat is not None and 'ok' in model_rat:
                r = [float(ratf(q)) for q in model_rat['ok']]
                if len(r) != len(a):
                    ctx.count('knots:rat-threshold(int(rangex/bkspace) decided differently in exact arithmetic)')
                elif not np.all(np.abs(a - np.array(r)) <= 8 * F32 * scale):
                    ctx.disagree('knots-rat', case, impl, {'ok': r})
                else:
                    ctx.count('knots:rat-within-f32')
    # --- property oracle: shape of the knot vector (in the domain of the statement)
    if not case['domain']:
        return
    sig = None
    if 'err' in impl:
        sig, what = 'ctor:%s:%s' % (impl['err'], opt), 'bspline(x, nord=%d, %s) raises %s' % (k, opt, impl['err'])
    else:
        t = bf_(impl['ok'])
        N = len(t)
        scale = max(float(np.max(np.abs(t))), 1e-300)
        tol = 2 * F32 * scale
        if np.any(np.diff(t) < 0):
            sig, what = 'knots:not-nondecreasing:' + opt, 'knot vector decreases: %s' % t.tolist()
        elif N < 2 * k or not (t[k - 1] <= x.min() + tol and t[N - k] >= x.max() - tol):
            sig, what = 'knots:range-not-covered:' + opt, 'breakpoint range [%r, %r] does not cover data [%r, %r]' % (
                t[k - 1] if N >= k else None, t[N - k] if N >= k else None, x.min(), x.max())
        elif opt != 'bkpt' and not (abs(t[k - 1] - x.min()) <= tol and abs(t[N - k] - x.max()) <= tol):
            sig, what = 'knots:padding:' + opt, 'first/last breakpoint are not min/max of x with nord-1 knots beyond'
        elif opt == 'bkpt' and N != len(case['opts']['bkpt']) + 2 * (k - 1):
            sig, what = 'knots:padding:' + opt, 'not nord-1 extra knots on each side'
        elif opt == 'bkpt':
            # mkKnots_shape for an explicit sorted bkpt: first = min(bkpt[0], min x), last = max(bkpt[-1], max x),
            # the interior breakpoints are the given ones
            b = bf_(case['opts']['bkpt'])
            if not (abs(t[k - 1] - min(b[0], x.min())) <= tol and abs(t[N - k] - max(b[-1], x.max())) <= tol
                    and np.array_equal(t[k:N - k], b[1:-1])):
                sig, what = 'knots:patching:' + opt, 'bkpt %s, data [%r, %r]: breakpoints %s' % (
                    b.tolist(), x.min(), x.max(), t[k - 1:N - k + 1].tolist())
        elif opt == 'nbkpts' and N != max(2, case['opts']['nbkpts']) + 2 * (k - 1):
            sig, what = 'knots:count:' + opt, 'nbkpts breakpoints requested, %d knots' % N
    if sig:
        def fails(xs):
            c2 = dict(case, x=xs)
            r = impl_ctor(c2)[0]
            if 'err' in impl:
                return r.get('err') == impl['err']
            return False
        small = dict(case, x=core.shrink_list(case['x'], fails, 1)) if 'err' in impl and opt != 'everyn' else case
        ctx.violate(sig, what, small)


def check_eval(ctx, case, impl, model, model_rat):
    ctx.seen(case)
    k = case['nord']
    t = bf_(case['bk'])
    if case.get('bkF32'):
        t = t.astype('f').astype('d')
    x = bf_(case['x'])
    perm = np.array(case['perm'], dtype=int)
    N = len(t)
    n = N - k
    allgood = all(case['mask'])
    ctx.count('eval:%s:k=%d:%s' % ('err:' + impl['err'] if 'err' in impl else 'ok', k, 'unmasked' if allgood else 'masked'))
    if 'coeffdtype' in case:
        ctx.count('eval:coeff-dtype:' + case['coeffdtype'])
    # ---- what both parts need
    if 'err' in impl:
        if 'err' not in model or impl.get('err') != model.get('err'):
            ctx.disagree('eval', case, impl, model)
        if allgood and N >= 2 * k and not np.any(np.diff(t) < 0) and t[k - 1] < t[k] and len(x) > 0 and len(case['coeff']) == n:
            # inside the domain of the statement (legal knots, nothing masked, one coefficient per basis function) evaluation
            # returns values and a mask - for points outside the breakpoint range too - and does not raise
            ctx.violate('eval:raises:' + impl['err'], 'value() raises %s on a legal knot vector (points inside and slightly outside the range)' % impl['err'], case)
        return
    I = impl['ok']
    if I.get('history'):
        ctx.violate('eval:history', I.pop('history'), case)
    if isinstance(I['bf'], str):
        M = model.get('ok', {})
        if 'err' in model or I['bf'] != M.get('bf') or any(I[key] != M.get(key) for key in ('indx', 'action', 'lower', 'upper', 'mask')) or \
                [core.f2b(v) for v in I['y']] != M.get('y'):
            ctx.disagree('eval:short', case, I, model)
        ctx.count('eval:bsplvn-IndexError')
        return
    bfI = np.array([[np.nan if v == 'nan' else core.b2f(v) for v in r] for r in I['bf']], dtype='d').reshape(len(I['indx']), k)
    cf = bf_(case['coeff'])
    rowscale = np.zeros(len(x))
    if len(x):
        big = float(np.max(np.abs(cf))) if len(cf) else 0.0
        rs = np.nansum(np.abs(bfI), axis=1) * big
        rowscale[perm] = rs

    # ---- correspondence at Float (a disagreement never suppresses the property oracle below)
    def _corr():
        if 'err' in model:
            ctx.disagree('eval', case, impl, model)
            return
        M = model['ok']
        if isinstance(M['bf'], str):
            ctx.disagree('eval:short', case, I, M)
            return
        for key in ('indx', 'action', 'lower', 'upper', 'mask'):
            if I[key] != M[key]:
                ctx.disagree('eval:' + key, case, {key: I[key]}, {key: M[key]})
                return
        if I['action'] and I['indx'] == sorted(I['indx']):
            # RowsOf / action_first_last (proved for the model's action) re-checked on what the real action() returned:
            # rows lower[i]..upper[i] = rows of interval i+k-1, an interval without a point has the empty range 0..-1
            for i, (lo_, up_) in enumerate(zip(I['lower'], I['upper'])):
                rows = [p for p in range(len(I['indx'])) if lo_ <= p <= up_]
                if rows != [p for p, v in enumerate(I['indx']) if v - k + 1 == i] or (not rows and (lo_, up_) != (0, -1)):
                    ctx.disagree('hypothesis:RowsOf', case, {'lower': I['lower'], 'upper': I['upper']}, {'indx': I['indx']})
                    return
            ctx.count('eval:RowsOf-checked')
        mbf = [[canon(core.b2f(v)) for v in r] for r in M['bf']]
        if I['bf'] != mbf:
            ctx.disagree('eval:bsplvn(bit-exact)', case, {'bf': I['bf']}, {'bf': mbf})
            return
        my = [core.b2f(v) for v in M['y']]
        for p, (a, b_) in enumerate(zip(I['y'], my)):
            if not closeS(a, b_, rowscale[p]):
                ctx.disagree('eval:value', dict(case, at=p), {'y': a}, {'y': b_})
                return
        # ---- exact run: interval decisions identical, values within tolerance, value == pointwise spline
        if model_rat is not None:
            if 'err' in model_rat:
                ctx.disagree('eval-rat', case, impl, model_rat)
                return
            Rr = model_rat['ok']
            for key in ('indx', 'lower', 'upper', 'mask'):
                if I[key] != Rr[key]:
                    ctx.disagree('eval-rat:' + key, case, {key: I[key]}, {key: Rr[key]})
                    return
            finite = bool(np.all(np.isfinite(bfI)))
            if finite:
                ry = [ratf(q) for q in Rr['y']]
                for p, (a, q) in enumerate(zip(I['y'], ry)):
                    if not closeS(a, float(q), rowscale[p]):
                        ctx.disagree('eval-rat:value', dict(case, at=p), {'y': a}, {'y': float(q)})
                        return
                if Rr['action'] and Rr['y'] != Rr['spline']:
                    ctx.disagree('model:value==splineAt(exact)', case, {'y': Rr['y'][:4]}, {'spline': Rr['spline'][:4]})
                ctx.count('eval:rat-run')
    _corr()
    # ---- property oracle (domain of the statement: nothing masked, knots non-decreasing, first interval non-empty)
    if not allgood or N < 2 * k or np.any(np.diff(t) < 0) or not (t[k - 1] < t[k]) or len(x) == 0:
        ctx.count('eval:outside-oracle-domain')
        return
    y = np.array(I['y'])
    msk = np.array(I['mask'])
    lo, hi = t[k - 1], t[n]
    inside = ~((x < lo) | (x > hi))
    if not np.array_equal(msk, inside):
        p = int(np.nonzero(msk != inside)[0][0])
        ctx.violate('mask:wrong', 'mask[%d]=%s for x=%r, breakpoint range [%r, %r]' % (p, msk[p], x[p], lo, hi), dict(case, at=p))
    xs = x[perm]
    ins_sorted = inside[perm]
    if np.any(bfI[ins_sorted] < 0):
        ctx.violate('basis:negative', 'bsplvn returns a negative basis value inside the breakpoint range', case)
    sums = bfI[ins_sorted].sum(axis=1)
    if sums.size and np.max(np.abs(sums - 1.0)) > 1e-11:
        ctx.violate('basis:sum', 'basis values do not sum to one: %r' % float(sums[np.argmax(np.abs(sums - 1))]), case)
    try:
        yr, yl = scipy_both(t, k, cf, x)
    except Exception as e:      # scipy refuses the knot vector: use the exact recursion only
        ctx.count('oracle:scipy-refused:' + type(e).__name__)
        yr = yl = None
    cs = max(1.0, float(np.max(np.abs(cf))) if len(cf) else 1.0)
    if yr is not None:
        for p in np.nonzero(inside)[0]:
            if not (abs(y[p] - yr[p]) <= 1e-9 * cs or abs(y[p] - yl[p]) <= 1e-9 * cs):
                ctx.violate('value:differs-from-BSpline', 'value(%r)=%r, scipy BSpline gives %r (right) / %r (left limit)' % (
                    x[p], y[p], yr[p], yl[p]), dict(case, at=int(p)))
                break
        ctx.count('oracle:scipy-points', int(inside.sum()))
    # exact textbook recursion at up to 4 non-knot points
    nk = [p for p in np.nonzero(inside)[0] if x[p] not in t][:4]
    for p in nk:
        ex, B = exact_spline(t, k, cf, x[p])
        if abs(y[p] - float(ex)) > 1e-9 * cs:
            ctx.violate('value:differs-from-CoxDeBoor', 'value(%r)=%r, exact recursion gives %r' % (x[p], y[p], float(ex)), dict(case, at=int(p)))
            break
        ctx.count('oracle:exact-points')
    # caller order: a permuted call returns the permuted result
    if len(x) > 1:
        sg = np.array(ctx_perm(case, len(x)))
        b = make_obj(case)
        with np.errstate(all='ignore'):
            y2, m2 = b.value(x[sg].copy())
        if not (np.array_equal(m2, msk[sg]) and all(closeS(float(a), float(b_), rowscale[sg][q]) for q, (a, b_) in enumerate(zip(y2, y[sg])))):
            ctx.violate('value:order-dependent', 'value(x[s]) != value(x)[s]', dict(case, s=[int(v) for v in sg]))


def ctx_perm(case, n):
    """a permutation derived from the case (so that replays are deterministic)"""
    import random
    r = random.Random(sum(case['x'][:3]) + n)
    s = list(range(n))
    r.shuffle(s)
    return s


# ---------------------------------------------------------------- the check
def run(ctx):
    core.audit(ctx, LEAN_MODULES, THEOREMS)
    rng = ctx.rng
    ctor = [gen_ctor(rng) for _ in range(ctx.n(1200, 12000))]
    # bounded family: every (nx, everyn) and (nx, nbkpts)
    top = ctx.n(24, 60)
    for nx in range(1, top + 1):
        x = [0.5 + 0.25 * i for i in range(nx)]
        for e in range(1, nx + 2):
            ctor.append({'stream': 'ctor', 'nord': 1 + (nx + e) % 6, 'x': fb(x), 'opts': {'everyn': e, 'bkspread': core.f2b(1.0)},
                         'opt': 'everyn', 'xkind': 'grid', 'domain': 2 * e <= nx})
    run_ctor(ctx, ctor)


def run_ctor(ctx, ctor, eval_too=True):
    rng = ctx.rng
    impls = [impl_ctor(c) for c in ctor]
    models = core.driver_parallel([knots_model_line(c) for c in ctor])
    rat_every = ctx.n(4, 1)
    rat_idx = [i for i in range(len(ctor)) if i % rat_every == 0]
    rats = dict(zip(rat_idx, core.driver_parallel([knots_model_line(ctor[i], 'rat') for i in rat_idx])))
    evals = []
    for i, (c, (impl, obj), m) in enumerate(zip(ctor, impls, models)):
        check_ctor(ctx, c, impl, m, rats.get(i))
        if obj is not None and eval_too and c['xkind'] != 'grid':
            t = np.asarray(obj.breakpoints)
            evals.append(eval_case(rng, [float(v) for v in t], c['nord'], t.dtype == np.float32, data=bf_(c['x'])))
    if not eval_too:
        return
    # directly specified knot vectors, some with masked breakpoints
    for _ in range(ctx.n(600, 6000)):
        k, t, mode = gen_direct_knots(rng)
        mask = None
        if rng.random() < 0.25 and len(t) > 2:
            mask = [True] * len(t)
            for _j in range(rng.randrange(1, 4)):
                mask[rng.randrange(len(t))] = False
        e = eval_case(rng, t, k, False, mask=mask)
        e['kmode'] = mode
        evals.append(e)
    run_evals(ctx, evals)
    # the public intrv / bsplvn on points in arbitrary order
    ic = []
    for e in evals[::ctx.n(5, 3)]:
        xs = list(e['x'])
        rng.shuffle(xs)
        ic.append(dict(e, stream='intrv', x=xs))
    im = core.driver_parallel([eval_model_line(c, 'float', 'intrv') for c in ic])
    for c, m in zip(ic, im):
        impl = impl_intrv(c)
        ctx.seen(c)
        ctx.count('intrv-unsorted:' + ('err' if 'err' in impl else 'ok'))
        mm = m if 'err' in m else {'ok': {'indx': m['ok']['indx'], 'bf': [[canon(core.b2f(v)) for v in r] for r in m['ok']['bf']]}}
        if impl != mm:
            ctx.disagree('intrv-unsorted', c, impl, mm)
    run_cdb(ctx, evals[::ctx.n(6, 3)])
    if ctx.disagreements:
        directed_search(ctx)


def run_evals(ctx, evals):
    models = core.driver_parallel([eval_model_line(c) for c in evals], chunk=400)
    rat_every = ctx.n(3, 1)
    rat_idx = [i for i in range(len(evals)) if i % rat_every == 0]
    rats = dict(zip(rat_idx, core.driver_parallel([eval_model_line(evals[i], 'rat') for i in rat_idx], workers=16, chunk=40)))
    for i, (c, m) in enumerate(zip(evals, models)):
        check_eval(ctx, c, impl_eval(c), m, rats.get(i))


def run_cdb(ctx, evals):
    """model-internal: the theorem bsplvn = Cox-de Boor re-checked exactly on the run's inputs"""
    cases = []
    for e in evals:
        t = bf_(e['bk'])
        k = e['nord']
        if e.get('bkF32') or not all(e['mask']) or len(t) < 2 * k or np.any(np.diff(t) < 0) or not t[k - 1] < t[k]:
            continue
        x = bf_(e['x'])
        x = x[(x >= t[k - 1]) & (x <= t[len(t) - k])][:12]
        if len(x):
            cases.append({'p': 'C08', 'op': 'cdb', 'num': 'rat', 'bk': e['bk'], 'nord': k, 'x': fb(x)})
    out = core.driver_parallel(cases, workers=16, chunk=40)
    for c, o in zip(cases, out):
        t = bf_(c['bk'])
        for xb, r in zip(c['x'], o):
            ctx.count('cdb:points')
            x = core.b2f(xb)
            if r['at'] != r['bf']:
                ctx.disagree('model:bsplvn==coxDeBoorAt(exact)', dict(c, x=[xb]), r['bf'], r['at'])
                return
            if x < t[r['i'] + 1] and r['cdb'] != r['bf']:
                ctx.disagree('model:bsplvn==coxDeBoor(exact)', dict(c, x=[xb]), r['bf'], r['cdb'])
                return


def directed_search(ctx):
    """the correspondence is broken: look for an input on which the real code breaks the property
    (oracle-only cases around the disagreeing configurations)"""
    rng = ctx.rng
    seen = 0
    for d in ctx.disagreements[:10]:
        c = d['case']
        if c.get('stream') == 'ctor':
            for _ in range(40):
                c2 = gen_ctor(rng, force_opt=c['opt'])
                impl, obj = impl_ctor(c2)
                check_ctor(ctx, c2, impl, impl if 'err' in impl else {'ok': impl['ok']})
                seen += 1
        elif c.get('stream') == 'eval':
            t = bf_(c['bk'])
            for _ in range(20):
                e = eval_case(rng, [float(v) for v in t], c['nord'], c.get('bkF32'), mask=c['mask'])
                impl = impl_eval(e)
                # oracle only: the implementation is compared with itself on the model side
                if 'ok' in impl:
                    fake = {'ok': dict(impl['ok'], bf=[[0 if v == 'nan' else v for v in r] for r in impl['ok']['bf']],
                                       y=[core.f2b(v) for v in impl['ok']['y']])}
                    n0 = len(ctx.disagreements)
                    check_eval(ctx, e, impl, fake, None)
                    del ctx.disagreements[n0:]
                seen += 1
    ctx.notes.append('directed failing-input search ran on %d oracle-only cases' % seen)


def replay(ctx, case):
    core.audit(ctx, LEAN_MODULES, THEOREMS)
    case = {k: v for k, v in case.items() if k not in ('at', 's')}
    if case.get('stream') == 'ctor':
        run_ctor(ctx, [case], eval_too=False)
    elif case.get('stream') == 'eval':
        run_evals(ctx, [case])
    else:
        run(ctx)


LEVEL_TEXT = ('Machine-checked Lean 4 theorems over an executable model of bspline.__init__/intrv/bsplvn/action/value, for all '
              'knot vectors, orders, points and coefficient vectors over any ordered field. Headline (value_is_spline, about the model '
              'function BS.value that the driver executes - bridge value_eq by unfolding, valid for the Float and Rat runs too): for '
              'points in any order and any sorting permutation, order k >= 1, >= 2k unmasked non-decreasing knots with t[k-1] < t[k], '
              'value() succeeds, the mask is False exactly outside the breakpoint range and inside it y[p] = sum_j coeff[j]*B_{j,k}(x_p), '
              'the Cox-de Boor B-spline of the knots (textbook coxDeBoor when x_p is not a breakpoint, its left limit there). Parts: the '
              'interval search brackets every point and never stops at an empty interior interval; the basis values are >= 0, sum to one '
              'and ARE the Cox-de Boor functions (full de Boor triangle); the uniq-based lower/upper of action() delimit exactly the rows '
              'of each interval - first and last position, empty range 0..-1 for an interval without a point (rowsOf_action, '
              'action_first_last: the former hypothesis RowsOf is now proved); evaluation commutes with re-ordering. Constructor '
              '(mkKnots_shape, every option: sorted bkpt with min/max patching incl. the last-of-equal-maxima rule, placed, bkspace, nbkpts, '
              'everyn with clipped subscripts): the knot vector is non-decreasing, has nord-1 extra knots per side and its breakpoints run '
              'from min x to max x exactly (explicit bkpt: from min(bkpt[0], min x) to max(bkpt[-1], max x), interior unchanged). '
              'The model is tied to the repository on every run by I/O correspondence (bsplvn and all knot vectors bit-exact, indices and '
              'masks exact, values within 1e-9, an exact rational run of the same inputs) and by an independent oracle '
              '(scipy BSpline, exact textbook recursion, partition of unity, knot-vector shape, RowsOf on the real action() output).')
LEVEL_NOTE = ('No _partial theorem is left (value_spec_partial / mkKnots_shape_partial are kept under their names as the general lemmas the '
              'full theorems value_spec / mkKnots_shape use). Theorems are over exact ordered fields: float rounding (dtype f storage of the '
              'knots - min x / max x are then covered to single-precision rounding only -, np.dot summation order) is outside them and '
              'is covered by the bit-exact / tolerance correspondence and the oracle. Domain of mkKnots_shape (BkDomain): explicit bkpt / '
              'placed sorted, bkpt with >= 2 entries, bkspace != 0, everyn > 0 with 2*everyn <= nx and sorted x, bkspread >= 0; outside it '
              '(one breakpoint, unsorted input) the code is only compared with the model. At a breakpoint the value is the left limit of '
              'the spline (right limit at the first breakpoint), equal to the textbook value unless the knot has multiplicity >= order. '
              'Trusted: Lean kernel, the hand-written model, argsort contract, scipy as oracle.')

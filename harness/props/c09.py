"""C09 - B-spline fit is the weighted least-squares optimum; failure is a status code (DESIGN §5 C09).

Streams (real pydl code next to the Lean model lean/PydlVerif/Model/BSplineFit.lean):
  fit       bspline.fit(x, y, invvar) on one object: status, mask exact; coeff, yfit within tolerance
            (the model's Cholesky kernels - Model/BandChol.lean bandFactor/bandSolve (cholV Float.sqrt), for which the factor + solve
            contract is a Lean theorem - stand in for LAPACK, a parameter of the model);
            the model's assembled alpha/beta against an independently built A^T W A / A^T W y
  refit     ill-posed problems: fit is called again while it answers -1 (as iterfit does), every round compared
  chol      cholesky_band / cholesky_solve on SPD, indefinite, non-finite banded matrices
  fitq      EXACT run: the same model fit in rational arithmetic (driver op fitq, the square-root-free banded LDL^T
            kernels kernelsLdlt of Model/BandChol.lean = the kernels of theorem fit_is_optimum_ldlt) on small well-posed cases; status, coeff, yfit, alpha, beta must EQUAL an independent exact
            solution of the normal equations (Cox-de Boor design matrix, A^T W A, Gaussian elimination, all in
            fractions.Fraction); the real float fit must be within tolerance of that exact solution
Oracle (no pydl, no model): dense weighted lstsq on the design matrix from scipy.interpolate.BSpline.design_matrix
(left-continuous convention through the mirrored knot vector), objective comparison, zero-weight invariance,
linearity in y, polynomial reproduction, residuals |LL^T-A|, |Ax-b|, leading-minor test for the reported column,
"status code, never an exception / non-finite coefficient" for every ill-posed class.
"""
import math
import os
import traceback
import copy
import numpy as np
from harness import core

ID = 'C09'
LEAN_MODULES = ['PydlVerif.Props.C09']
P = 'PydlVerif.C09.'
THEOREMS = [P + t for t in (
    'assemble_is_normal', 'normal_of_band', 'CholContract.solves', 'fit_optimum_design', 'design_row_is_spline', 'fit_optimum',
    'fit_normal', 'fit_zero_weight', 'fit_linear', 'fit_exact', 'poly_reproduction',
    'insideIdx_range', 'maskpoints_status', 'fit_too_few', 'choleskyBand_screen', 'choleskyBand_total', 'fit_status', 'fit_status0',
    # extension round: `Rows` discharged (C08 rowsOf_action), Marsden / all degrees, the statement about `fit` itself
    'rows_action', 'assemble_is_normal_action', 'fit_optimum_sorted', 'fit_normal_sorted', 'fit_zero_weight_sorted', 'fit_linear_sorted',
    'fit_exact_sorted', 'marsden', 'monomial_reproduction', 'poly_in_span', 'spline_of_poly', 'poly_reproduction_all',
    'poly_reproduction_sorted', 'fit_optimum_solves', 'fit_is_optimum', 'putGood_get', 'fit_obj_fields', 'fit_is_optimum_obj',
    'exact_of_optimum', 'fit_reproduces_poly',
    # extension round 2: the factor + solve contract PROVED for the textbook banded kernels of Model/BandChol.lean (what the driver runs)
    'ldlt_factor_spec', 'ldlt_factor_iff_pivots', 'ldlt_factor_iff_pos_def', 'chol_factor_iff_pos_def', 'ldlt_solve_spec', 'ldlt_solves',
    'LdltContract.solves', 'ldlt_contract_kernel', 'chol_contract_kernel', 'cholesky_band_ldlt', 'cholesky_band_ldlt_iff_pos_def',
    'cholesky_solves_ldlt', 'hsolve_ldlt', 'fit_is_optimum_ldlt', 'fit_is_optimum_obj_ldlt', 'fit_reproduces_poly_ldlt',
    'fit_is_optimum_chol', 'fit_ldlt_status0_pivots', 'fit_ldlt_status0_pos_def',
    # extension round 3: x2 / npoly >= 1 (Model/BSplineFit2.lean): the npoly-blocked assembly is the normal system of the tensor basis
    'assembleP_one', 'assembleP_is_normal', 'tensor_design', 'assembleP_is_normal_tensor', 'fit2_optimum_design', 'fit2_optimum_solves',
    'tensor_row_is_spline', 'fit2_system_solved_ldlt', 'fit2_solved_is_optimum_partial', 'maskpointsP_status')]
RULE = ('2-D cases (streams action2d / fit2d / fit2q, harness/props/c09_2d.py) = (order 1..4) x (npoly 2..4) x (funcname poly, poly1, chebyshev, '
        'legendre) x (sorted x, random x2 on three scales, xmin/xmax = data range / default 0..1 / wider) x (y from the tensor space, smooth, '
        'random) x (invvar as in 1-D) x (masked breakpoints, gaps, zero-weight stretches, constant x2) + 8 fixed cases; value(x, x2) is asked at '
        'new unsorted points after every successful fit; the first 8 (thorough 150) well-posed cases with <= 45 points and <= 16 unknowns are '
        'run again through the model in exact rational arithmetic. 1-D: fit cases = (order 1..6) x (sorted abscissae: uniform/random/clustered/duplicated, several scales) x (breakpoints from '
        'bkspace/nbkpts/everyn/explicit bkpt through the real constructor) x (y: polynomial below/at the order, smooth+noise, random) x '
        '(invvar: ones, random positive, with zeros, zero over a stretch, all zero); ill-posed cases = gaps wider than the spacing, '
        'emptied segments, fewer points than coefficients, masked breakpoints, refitted while the status is -1; chol cases = banded '
        'SPD matrices of bandwidth 1..6 and size 1..30, the same made indefinite at a chosen column, with non-positive diagonal, '
        'with NaN/inf entries. A case is non-trivial when fit reaches the assembly (nn >= nord) or cholesky_band gets a matrix; '
        'distinct = distinct case payloads. Exact run (fitq): the first 60 (thorough: 1500) generated fit cases that are well-posed '
        '(class well of the independent analysis) with at most 40 points and 12 coefficients are run again through the model in '
        'exact rational arithmetic and compared with an exact Fraction solution of the normal equations')
TRUSTED = ['hand-written model lean/PydlVerif/Model/BSplineFit.lean (on Model/BSpline.lean of C08) tied to the code by the I/O correspondence of this run',
           'scipy.linalg.cholesky_banded / cho_solve_banded (LAPACK) are parameters of the model with the contract L L^T = A, A x = b '
           '(for LAPACK itself assumed, sampled here through the residuals); the Lean driver runs in their place the textbook banded '
           'kernels of Model/BandChol.lean (Cholesky with Float.sqrt), for which the contract is PROVED over every ordered field with a '
           'square root (chol_contract_kernel); LAPACK against these kernels is compared within tolerance',
           'np.argsort returns a sorting permutation; np.dot / sum (BLAS order) compared within tolerance',
           'scipy.interpolate.BSpline.design_matrix and numpy.linalg.lstsq as the independent oracle',
           'exact run: the kernel parameter of the Rat interpretation is the banded LDL^T pair kernelsLdlt of Model/BandChol.lean, for which '
           'L D L^T = A and A x = b are PROVED (ldlt_contract_kernel, fit_is_optimum_ldlt) over every ordered field; what stays trusted is that '
           'core Rat arithmetic is the field Q (the theorems are stated for the field interpretation fieldScalar K of the Scalar operations); '
           'the result is in addition checked on every case against exact Gaussian elimination in Python fractions.Fraction on an independently '
           'built design matrix; the fallback loop of cholesky_band (needs sqrt) is never run exactly']
ASSUMPTIONS = ['1-D streams: x2=None, npoly=1; 2-D streams: npoly 2..4, x2 finite, xmin < xmax, funcname one of poly/poly1/chebyshev/legendre; '
               'xdata sorted, finite float64; ydata finite; invvar >= 0 finite',
               'scipy.special.legendre(k)/chebyt(k) deliver the coefficients of P_k/T_k (the model uses the three-term recurrence on '
               'coefficient lists and Horner evaluation; compared within tolerance, and exactly against Fractions in stream fit2q)',
               'the first nord breakpoints are never masked (true for every mask that maskpoints produces)',
               '"every segment supported by data" is taken as: every diagonal entry of A^T W A exceeds 1000 x the code threshold '
               '1e-10*sum(invvar)/n and cond(A^T W A) < 1e8; problems between that and "some column has no weighted data at all" '
               'are only required not to raise and not to return non-finite coefficients']


# ---------------------------------------------------------------- helpers
def fb(a):
    return [core.f2b(v) for v in np.asarray(a, dtype='d').ravel()]


def bf_(bits):
    return np.array([core.b2f(b) for b in bits], dtype='d')


def frame_of(e):
    """innermost pydl function in the traceback of e"""
    name = '?'
    for fs in traceback.extract_tb(e.__traceback__):
        if '/pydl/' in fs.filename:
            name = fs.name
    return name


def make_obj(case):
    from pydl.pydlutils.bspline import bspline
    b = bspline.__new__(bspline)
    b.breakpoints = bf_(case['bk'])
    b.nord = case['nord']
    b.npoly = 1
    b.mask = np.array(case['mask'], dtype=bool)
    b.coeff = bf_(case['coeff'])
    b.icoeff = np.zeros_like(b.coeff)
    b.xmin, b.xmax, b.funcname = 0.0, 1.0, 'legendre'
    # whatever else the constructor of the current source sets up (bookkeeping attributes) comes from a regularly built object
    if 'attrs' not in _TEMPLATE:
        try:
            _TEMPLATE['attrs'] = dict(bspline(np.arange(12.0), nord=4, nbkpts=4).__dict__)
        except Exception:
            _TEMPLATE['attrs'] = {}
    for k_, v_ in _TEMPLATE['attrs'].items():
        if k_ not in b.__dict__:
            setattr(b, k_, copy.deepcopy(v_))
    return b


_TEMPLATE = {}


def impl_fit(case, y=None):
    b = make_obj(case)
    x, w = bf_(case['x']), bf_(case['w'])
    yy = bf_(case['y']) if y is None else np.asarray(y, dtype='d')
    try:
        with np.errstate(all='ignore'):
            st, yfit = b.fit(x, yy, w)
        out = {'status': int(st), 'yfit': [float(v) for v in yfit], 'coeff': [float(v) for v in b.coeff],
               'mask': [bool(v) for v in b.mask]}
        if int(st) == -1 and y is None:
            # history (what iterfit does): the SAME object is asked again with the SAME array objects; the answer must be the
            # one a fresh object in the same state gives for fresh copies of the arrays
            try:
                with np.errstate(all='ignore'):
                    b2 = make_obj(dict(case, mask=out['mask'], coeff=fb(out['coeff'])))
                    st2, yf2 = b2.fit(x.copy(), yy.copy(), w.copy())
                    st1, yf1 = b.fit(x, yy, w)
                same = int(st1) == int(st2) and np.array_equal(np.asarray(b.coeff), np.asarray(b2.coeff), equal_nan=True) and \
                    np.array_equal(np.asarray(b.mask), np.asarray(b2.mask))
                if not same:
                    out['history'] = 'second fit() on the same object and arrays gives status %d, a fresh object in the same state %d (coefficients %s)' % (
                        int(st1), int(st2), 'equal' if np.array_equal(np.asarray(b.coeff), np.asarray(b2.coeff), equal_nan=True) else 'differ')
            except Exception as e:
                out['history'] = 'second fit() on the same object raises %s' % core.exc_kind(e)
        if int(st) == 0 and y is None:
            # precision of the abscissae: the same (float32-representable) positions handed over as a float32 array and as a float64
            # array are the same data; the solve is in double precision either way (seeded change C09-22)
            try:
                x32 = x.astype('f4')
                if np.all(np.diff(x32.astype('d')) >= 0) and np.isfinite(x32).all():
                    with np.errstate(all='ignore'):
                        b32, b64 = make_obj(case), make_obj(case)
                        s32, _ = b32.fit(x32, yy.copy(), w.copy())
                        s64, _ = b64.fit(x32.astype('d'), yy.copy(), w.copy())
                    if int(s32) == 0 and int(s64) == 0:
                        c32, c64 = np.asarray(b32.coeff, dtype='d'), np.asarray(b64.coeff, dtype='d')
                        sc = float(np.max(np.abs(c64))) if c64.size else 0.0
                        dv = float(np.max(np.abs(c32 - c64))) if c64.size else 0.0
                        out['x32'] = dv / sc if sc > 0 else dv
            except Exception as e:
                out['x32'] = 'raises %s' % core.exc_kind(e)
        return {'ok': out}
    except Exception as e:
        return {'err': core.exc_kind(e), 'frame': frame_of(e)}


def fit_line(case):
    x = bf_(case['x'])
    return {'p': 'C09', 'op': 'fit', 'nord': case['nord'], 'bk': case['bk'], 'mask': case['mask'], 'coeff': case['coeff'],
            'x': case['x'], 'y': case['y'], 'w': case['w'], 'perm': [int(p) for p in x.argsort()]}


# ---------------------------------------------------------------- oracle pieces (no pydl, no model)
def design(t, k, x):
    """design matrix A[i][c] = B_c(x_i) of order k on knots t, left-continuous at interior knots (the convention of
    the code: a point on a breakpoint belongs to the segment on its left, the first breakpoint to the first segment)"""
    from scipy.interpolate import BSpline
    t = np.asarray(t, dtype='d')
    A = BSpline.design_matrix(-np.asarray(x, dtype='d'), -t[::-1], k - 1).toarray()
    return A[:, ::-1]


def analyse(case):
    """independent description of the least-squares problem of a fit case; None when it is outside the domain"""
    k = case['nord']
    bk, mask = bf_(case['bk']), np.array(case['mask'], dtype=bool)
    x, y, w = bf_(case['x']), bf_(case['y']), bf_(case['w'])
    t = bk[mask]
    n = len(t) - k
    if mask[k:].sum() < k:
        return {'cls': 'too-few-breakpoints'}
    if not mask[:k].all() or n < k or np.any(np.diff(t) < 0) or not t[k - 1] < t[k] or x.size == 0 or \
            x.min() < t[k - 1] or x.max() > t[n] or np.any(np.diff(x) < 0):
        return {'cls': 'outside'}
    try:
        A = design(t, k, x)
    except Exception as e:
        return {'cls': 'outside', 'why': type(e).__name__}
    G = A.T @ (A * w[:, None])
    rhs = A.T @ (w * y)
    d = np.diag(G)
    thr = 1e-10 * w.sum() / n
    info = {'A': A, 'G': G, 'rhs': rhs, 'n': n, 't': t, 'thr': thr, 'd': d}
    if np.any(d == 0):
        # a coefficient without any weighted datum: the fit is impossible
        info['cls'] = 'illposed' if not np.any((d > 0) & (d <= 1e3 * thr)) else 'marginal'
        return info
    if np.any(d <= 1e3 * thr):
        info['cls'] = 'marginal'
        return info
    cond = np.linalg.cond(G)
    info['cond'] = cond
    info['cls'] = 'well' if cond < 1e8 else 'marginal'
    if info['cls'] == 'well':
        sw = np.sqrt(w)
        info['c_ls'] = np.linalg.lstsq(A * sw[:, None], y * sw, rcond=None)[0]
    return info


def Q(A, w, y, c):
    r = y - A @ c
    return float(np.sum(w * r * r))


def vclose(a, b, rel, scale=1.0):
    a, b = np.asarray(a, dtype='d'), np.asarray(b, dtype='d')
    if a.shape != b.shape:
        return False
    if not (np.all(np.isfinite(a)) and np.all(np.isfinite(b))):
        return bool(np.array_equal(np.isnan(a), np.isnan(b)) and np.array_equal(a[np.isfinite(a)], b[np.isfinite(b)]))
    s = max(scale, float(np.max(np.abs(a))) if a.size else 0.0, float(np.max(np.abs(b))) if b.size else 0.0)
    return bool(np.all(np.abs(a - b) <= rel * s))


# ---------------------------------------------------------------- generators
def gen_x(rng, nx, lo, span):
    kind = rng.choice(['uniform', 'random', 'random', 'clustered', 'dup'])
    if kind == 'uniform':
        x = [lo + span * i / max(1, nx - 1) for i in range(nx)]
    elif kind == 'random':
        x = [lo + span * rng.random() for _ in range(nx)]
    elif kind == 'clustered':
        cs = [rng.random() for _ in range(rng.randrange(2, 5))]
        x = [lo + span * min(1.0, max(0.0, rng.choice(cs) + 0.05 * rng.gauss(0, 1))) for _ in range(nx)]
    else:
        base = [lo + span * rng.random() for _ in range(max(2, nx // 2))]
        x = [rng.choice(base) for _ in range(nx)]
    return kind, sorted(x)


def gen_y(rng, x, k, lo, span):
    u = (np.asarray(x) - lo) / span
    kind = rng.choice(['poly', 'poly', 'polyk', 'smooth', 'random'])
    if kind == 'poly':
        deg = rng.randrange(0, k)
        c = [rng.uniform(-2, 2) for _ in range(deg + 1)]
        y = sum(cj * u ** j for j, cj in enumerate(c))
        kind = 'poly<k'
    elif kind == 'polyk':
        y = u ** k + 0.3 * u
    elif kind == 'smooth':
        y = np.sin(5 * u + rng.random()) + 0.1 * np.array([rng.gauss(0, 1) for _ in x])
    else:
        y = np.array([rng.gauss(0, 3) for _ in x])
    return kind, np.asarray(y, dtype='d') * rng.choice([1.0, 1.0, 100.0, 1e-3])


def gen_w(rng, nx):
    kind = rng.choice(['ones', 'random', 'zeros-some', 'zeros-some', 'scaled'])
    if kind == 'ones':
        w = np.ones(nx)
    elif kind == 'random':
        w = np.array([rng.uniform(0.2, 5.0) for _ in range(nx)])
    elif kind == 'scaled':
        w = np.array([rng.uniform(0.5, 2.0) for _ in range(nx)]) * rng.choice([1e-4, 1e4])
    else:
        w = np.array([0.0 if rng.random() < 0.25 else rng.uniform(0.2, 5.0) for _ in range(nx)])
    return kind, w


def build_knots(rng, x, k):
    """breakpoints through the real constructor (verified by C08)"""
    from pydl.pydlutils.bspline import bspline
    xa = np.asarray(x, dtype='d')
    span = xa.max() - xa.min() or 1.0
    opt = rng.choice(['bkspace', 'nbkpts', 'everyn', 'bkpt'])
    kw = {}
    if opt == 'bkspace':
        kw['bkspace'] = span / rng.uniform(1.2, 8.0)
    elif opt == 'nbkpts':
        kw['nbkpts'] = rng.randrange(2, 10)
    elif opt == 'everyn':
        kw['everyn'] = rng.randrange(max(1, k // 2), max(2, len(x) // 2) + 1)
    else:
        m = rng.randrange(2, 8)
        kw['bkpt'] = np.array(sorted([xa.min(), xa.max()] + [xa.min() + span * rng.random() for _ in range(m - 2)]))
    with np.errstate(all='ignore'):
        b = bspline(xa, nord=k, **kw)
    return opt, np.asarray(b.breakpoints, dtype='d')


def gen_fit(rng, ill=None):
    k = rng.choice([1, 2, 3, 4, 4, 4, 5, 6])
    lo, span = rng.choice([(0.0, 1.0), (-5.0, 10.0), (3500.0, 6000.0), (0.1, 3.6)])
    nx = rng.choice([k + 1, 2 * k + 3, 12, 20, 35, 60, rng.randrange(4, 90)])
    xkind, x = gen_x(rng, nx, lo, span)
    if x[0] == x[-1]:
        x[-1] = x[0] + span
    illkind = 'none'
    if ill:
        illkind = rng.choice(['gap', 'gap', 'empty-segments', 'zero-weight-stretch', 'few-points', 'all-zero-weight', 'masked'])
    if illkind == 'few-points':
        x = sorted(rng.sample(x, min(len(x), rng.randrange(2, k + 2))))
        if x[0] == x[-1]:
            x[-1] = x[0] + span
    try:
        opt, bk = build_knots(rng, x, k)
    except Exception:
        return None
    # float32 breakpoints (everyn path) cover the data to single precision only: keep the data inside
    xa = np.clip(np.asarray(x), bk[k - 1], bk[len(bk) - k])
    if illkind == 'gap':
        # remove the data of a stretch wider than the breakpoint spacing
        sp = (bk[k] - bk[k - 1]) if len(bk) > k else span
        a = lo + span * rng.uniform(0.1, 0.6)
        width = max(sp * rng.uniform(1.5, 4.0), span * 0.15)
        keep = (xa < a) | (xa > a + width)
        keep[0] = keep[-1] = True
        xa = xa[keep]
    elif illkind == 'empty-segments':
        inner = bk[k - 1:len(bk) - k + 1]
        keep = np.ones(len(xa), dtype=bool)
        for _ in range(rng.randrange(1, 4)):
            if len(inner) > 2:
                j = rng.randrange(0, len(inner) - 1)
                keep &= ~((xa > inner[j]) & (xa <= inner[min(len(inner) - 1, j + rng.randrange(1, 4))]))
        keep[0] = keep[-1] = True
        xa = xa[keep]
    nx = len(xa)
    ykind, y = gen_y(rng, xa, k, lo, span)
    wkind, w = gen_w(rng, nx)
    if illkind == 'zero-weight-stretch':
        a = lo + span * rng.uniform(0.0, 0.6)
        w = np.where((xa >= a) & (xa <= a + span * rng.uniform(0.2, 0.5)), 0.0, w)
    elif illkind == 'all-zero-weight':
        w = np.zeros(nx)
    mask = [True] * len(bk)
    if illkind == 'masked':
        for _ in range(rng.randrange(1, max(2, len(bk)))):
            if len(bk) > k:
                mask[rng.randrange(k, len(bk))] = False
    nc = len(bk) - k
    coeff = [0.0] * nc if rng.random() < 0.7 else [rng.gauss(0, 1) for _ in range(nc)]
    return {'stream': 'fit', 'nord': k, 'bk': fb(bk), 'mask': mask, 'coeff': fb(coeff), 'x': fb(xa), 'y': fb(y), 'w': fb(w),
            'opt': opt, 'xkind': xkind, 'ykind': ykind, 'wkind': wkind, 'ill': illkind}


# ---------------------------------------------------------------- checking fit cases
def tol_of(info):
    return 1e-9 + 1e-13 * info.get('cond', 1.0)


def check_fit(ctx, case, impl, model, rnd=0):
    """correspondence with the model + the statement-level oracle for one call of fit"""
    ctx.seen(case)
    info = analyse(case)
    cls = info['cls']
    k = case['nord']
    ctx.count('fit:%s:%s:k=%d' % (cls, 'err:' + impl['err'] if 'err' in impl else 'status=%d' % impl['ok']['status'], k))
    if 'ok' in impl and impl['ok'].get('history'):
        if cls != 'outside':
            ctx.violate('fit:history', impl['ok']['history'], case)
        impl['ok'].pop('history')
    if 'ok' in impl and 'x32' in impl['ok']:
        q32 = impl['ok'].pop('x32')
        ctx.count('fit:x-float32:' + ('raises' if isinstance(q32, str) else 'rel-diff<=1e-12' if q32 <= 1e-12 else 'rel-diff<=1e-8' if q32 <= 1e-8 else 'rel-diff>1e-8'))
        # counted, not judged: the unchanged code evaluates the basis functions in the precision of x (534 of 650 cases differ by more than
        # 1e-8 on the unchanged tree), so a float32 stream cannot separate a single-precision solve from it (seeded change C09-22: missed)
    x, y, w = bf_(case['x']), bf_(case['y']), bf_(case['w'])
    # ---------------- oracle: a failure is a status code, never an exception (all classes inside the domain)
    if 'err' in impl:
        if cls != 'outside':
            def fails(idx):
                c2 = dict(case, x=[case['x'][i] for i in idx], y=[case['y'][i] for i in idx], w=[case['w'][i] for i in idx])
                r = impl_fit(c2)
                return r.get('err') == impl['err'] and r.get('frame') == impl['frame'] and analyse(c2)['cls'] != 'outside'
            idx = core.shrink_list(list(range(len(x))), fails, 1)
            small = dict(case, x=[case['x'][i] for i in idx], y=[case['y'][i] for i in idx], w=[case['w'][i] for i in idx])
            ctx.violate('fit:%s:%s' % (impl['err'], impl['frame']),
                        'bspline.fit raises %s in %s() on a %s problem instead of returning a status code' % (impl['err'], impl['frame'], cls), small)
        elif model is not None and model.get('err') != impl['err']:
            ctx.disagree('fit:error-kind', case, impl, model)
        return None
    I = impl['ok']
    st = I['status']
    coeff = np.array(I['coeff'])
    if cls == 'outside':
        pass
    else:
        if not np.all(np.isfinite(coeff)) or not np.all(np.isfinite(I['yfit'])):
            ctx.violate('fit:non-finite:status=%d' % st, 'fit returns status %d with non-finite coefficients / yfit (%s problem)' % (st, cls), case)
        old = np.array(case['mask'])
        new = np.array(I['mask'])
        if st not in (0, -1, -2):
            ctx.violate('fit:status:undocumented', 'status %r' % st, case)
        if st == -1 and not (np.all(new <= old) and new.sum() < old.sum() and new[np.nonzero(old)[0][:k]].all() and new[np.nonzero(old)[0][-k:]].all()):
            ctx.violate('fit:mask:-1-without-new-masked-breakpoint', 'status -1 but the breakpoint mask did not shrink (or an end knot was masked)', case)
        if st in (0, -2) and not np.array_equal(new, old):
            ctx.violate('fit:mask:changed-with-status-%d' % st, 'mask changed although status is %d' % st, case)
        if st != 0 and not np.array_equal(coeff, bf_(case['coeff'])):
            ctx.violate('fit:coeff:changed-on-failure', 'coefficients changed although status is %d' % st, case)
    if cls == 'too-few-breakpoints' and st != -2:
        ctx.violate('fit:status:too-few-breakpoints', 'fewer than nord good breakpoints but status %d' % st, case)
    if cls == 'illposed' and st not in (-1, -2):
        ctx.violate('fit:status:illposed-reported-as-%d' % st, 'a coefficient has no weighted data (diag of A^T W A is 0) but status is %d' % st, case)
    if cls == 'well':
        A, c_ls = info['A'], info['c_ls']
        tol = tol_of(info)
        gc = coeff[np.array(case['mask'])[k:]]
        if st != 0:
            ctx.violate('fit:status:well-posed-reported-as-%d' % st, 'every segment is supported (cond %.3g) but status is %d' % (info['cond'], st), case)
        else:
            ys = max(1e-300, float(np.max(np.abs(y))))
            if not vclose(gc, c_ls, tol * 10, ys):
                ctx.violate('fit:coeff:differs-from-lstsq', 'coefficients differ from the dense weighted lstsq solution by %.3g (cond %.3g)' % (
                    float(np.max(np.abs(gc - c_ls))), info['cond']), case)
            q1, q0 = Q(A, w, y, gc), Q(A, w, y, c_ls)
            if q1 > q0 + 1e-9 * float(np.sum(w * y * y)) + 1e-300:
                ctx.violate('fit:objective:not-minimal', 'sum invvar*(y-spline)^2 = %r > %r of the lstsq solution' % (q1, q0), case)
            if not vclose(I['yfit'], A @ gc, 1e-9, ys):
                ctx.violate('fit:yfit:not-the-spline', 'yfit differs from the spline of the returned coefficients at the data', case)
            if case.get('ykind') == 'poly<k' and not vclose(I['yfit'], y, tol * 100, ys):
                ctx.violate('fit:poly-reproduction', 'a polynomial of degree < nord is not reproduced: max error %.3g' % float(np.max(np.abs(np.array(I['yfit']) - y))), case)
            # zero-weight invariance and linearity (independent statements on the real code)
            if rnd == 0 and ctx.rng.random() < 0.5:
                r2 = np.random.RandomState(ctx.rng.randrange(2 ** 31))
                y2 = np.where(w == 0, y + r2.normal(0, 10, len(y)), y)
                o2 = impl_fit(case, y=y2)
                gm = np.array(case['mask'])[k:]
                if 'ok' not in o2 or not vclose(np.array(o2['ok']['coeff'])[gm], gc, 1e-12, ys):
                    ctx.violate('fit:zero-weight-dependence', 'coefficients change when y is altered at zero-weight points', case)
                if np.any(w == 0):
                    ctx.count('fit:zero-weight-points-altered')
                yb = r2.normal(0, 1, len(y)) * ys
                a_, b_ = r2.uniform(-2, 2), r2.uniform(-2, 2)
                ob, oc = impl_fit(case, y=yb), impl_fit(case, y=a_ * y + b_ * yb)
                if 'ok' not in ob or 'ok' not in oc or not vclose(np.array(oc['ok']['coeff'])[gm], a_ * gc + b_ * np.array(ob['ok']['coeff'])[gm], tol * 100, ys):
                    ctx.violate('fit:not-linear-in-y', 'fit(a*y1+b*y2) != a*fit(y1)+b*fit(y2)', case)
                ctx.count('fit:linearity-checked')
    # ---------------- correspondence with the model (classes where the Cholesky outcome is not a rounding matter)
    if model is None:
        return I
    if cls in ('marginal', 'outside'):
        ctx.count('fit:%s-not-compared' % cls)
        return I
    if 'err' in model:
        ctx.disagree('fit', case, impl, model)
        return I
    M = model['ok']
    if M['status'] != st or M['mask'] != I['mask']:
        ctx.disagree('fit:status/mask', case, {'status': st, 'mask': I['mask']}, {'status': M['status'], 'mask': M['mask']})
        return I
    tol = 100 * tol_of(info) if cls in ('well', 'illposed') else 1e-6
    ys = max(1e-300, float(np.max(np.abs(y))) if y.size else 1.0, float(np.max(np.abs(coeff))) if coeff.size else 1.0)
    if not vclose(bf_(M['coeff']), coeff, tol, ys):
        ctx.disagree('fit:coeff', case, {'coeff': I['coeff']}, {'coeff': bf_(M['coeff']).tolist()})
        return I
    if not vclose(bf_(M['yfit']), I['yfit'], tol, ys):
        ctx.disagree('fit:yfit', case, {'yfit': I['yfit']}, {'yfit': bf_(M['yfit']).tolist()})
        return I
    # the model's normal equations against the independently built ones (supports assemble_is_normal)
    if 'G' in info and M['alpha']:
        n, G = info['n'], info['G']
        al = np.array([bf_(r) for r in M['alpha']])
        ok = al.shape == (k, n + k)
        if ok:
            band = np.zeros((k, n + k))
            for r in range(k):
                band[r, :n - r] = np.diagonal(G, -r)
            gs = max(1e-300, float(np.max(np.abs(G))))
            ok = vclose(al, band, 1e-11, gs) and vclose(bf_(M['beta'])[:n], info['rhs'], 1e-11, max(1e-300, float(np.max(np.abs(info['rhs']))))) \
                and np.all(bf_(M['beta'])[n:] == 0)
        if not ok:
            ctx.disagree('model:alpha==AtWA', case, {'G': 'independent normal matrix'}, {'alpha': 'differs'})
        ctx.count('fit:model-normal-equations-checked')
    return I


def run_fit_rounds(ctx, cases, maxrounds=40):
    """fit, and while the answer is -1 fit again on the updated object (what iterfit does)"""
    live = list(cases)
    rnd = 0
    while live and rnd < maxrounds:
        impls = [impl_fit(c) for c in live]
        models = core.driver_parallel([fit_line(c) for c in live], chunk=300)
        nxt = []
        for c, im, mo in zip(live, impls, models):
            if 'driver_error' in mo:
                ctx.disagree('fit:driver', c, im, mo)
                continue
            I = check_fit(ctx, c, im, mo, rnd)
            if I is not None and I['status'] == -1:
                if I['mask'] == c['mask']:
                    continue        # already reported
                nxt.append(dict(c, mask=I['mask'], coeff=fb(I['coeff']), round=rnd + 1))
                ctx.count('refit:rounds')
            elif rnd > 0 and I is not None:
                ctx.count('refit:ends-with-status=%d' % I['status'])
        live = nxt
        rnd += 1
    if live:
        ctx.violate('fit:refit-does-not-terminate', 'status -1 for %d rounds' % maxrounds, live[0])


# ---------------------------------------------------------------- exact (rational) run of the model's fit
FITQ_MAX_NX, FITQ_MAX_N = 40, 12


def _fr(bits):
    """exact values of 64-bit patterns (finite doubles) as Fractions"""
    from fractions import Fraction
    return [Fraction(core.b2f(b)) for b in bits]


def _q(v):
    """[num, den] of the driver -> Fraction"""
    from fractions import Fraction
    return Fraction(int(v[0]), int(v[1]))


def design_exact(t, k, xs):
    """exact design matrix by the Cox-de Boor recursion in Fractions (no pydl, no model, no scipy):
    rows of (first column, the k values B_{i-k+1..i,k}(x)) with i the knot interval of x in the code's
    left-continuous convention (a point on an interior breakpoint belongs to the interval on its left, the first
    breakpoint t[k-1] to the first interval); 0/0 := 0"""
    from fractions import Fraction
    n = len(t) - k
    rows = []
    for x in xs:
        i = k - 1
        for j in range(k - 1, n):
            if t[j] < x:
                i = j
        # order 1: the indicator of interval i; then B_{j,m} = w_{j,m} B_{j,m-1} + (1 - w_{j+1,m}) B_{j+1,m-1}
        B = {i: Fraction(1)}
        for m in range(2, k + 1):
            Bn = {}
            for j in range(i - m + 1, i + 1):
                v = Fraction(0)
                a, b = B.get(j), B.get(j + 1)
                if a is not None and a != 0 and j >= 0 and t[j + m - 1] != t[j]:
                    v += (x - t[j]) / (t[j + m - 1] - t[j]) * a
                if b is not None and b != 0 and j + m < len(t) and t[j + m] != t[j + 1]:
                    v += (t[j + m] - x) / (t[j + m] - t[j + 1]) * b
                Bn[j] = v
            B = Bn
        rows.append((i - k + 1, [B.get(j, Fraction(0)) for j in range(i - k + 1, i + 1)]))
    return rows


def solve_exact(case):
    """the exact weighted least-squares problem of a fit case and its solution (Gaussian elimination in Fractions):
    dict with G (n x n), rhs, sol, rows; `pd` False when a pivot is not positive"""
    from fractions import Fraction
    k = case['nord']
    mask = case['mask']
    t = [v for v, m in zip(_fr(case['bk']), mask) if m]
    x, y, w = _fr(case['x']), _fr(case['y']), _fr(case['w'])
    n = len(t) - k
    rows = design_exact(t, k, x)
    G = [[Fraction(0)] * n for _ in range(n)]
    rhs = [Fraction(0)] * n
    for (c0, vals), yp, wp in zip(rows, y, w):
        if wp == 0:
            continue
        for a, va in enumerate(vals):
            if va == 0:
                continue
            wa = wp * va
            rhs[c0 + a] += wa * yp
            for b_, vb in enumerate(vals):
                G[c0 + a][c0 + b_] += wa * vb
    out = {'G': G, 'rhs': rhs, 'rows': rows, 'n': n, 'pd': True}
    M = [r[:] + [b_] for r, b_ in zip(G, rhs)]
    for j in range(n):
        if not M[j][j] > 0:
            out['pd'] = False
            return out
        for i in range(j + 1, n):
            if M[i][j] != 0:
                f = M[i][j] / M[j][j]
                for c in range(j, n + 1):
                    M[i][c] -= f * M[j][c]
    sol = [Fraction(0)] * n
    for i in range(n - 1, -1, -1):
        sol[i] = (M[i][n] - sum((M[i][c] * sol[c] for c in range(i + 1, n)), Fraction(0))) / M[i][i]
    out['sol'] = sol
    return out


def fitq_select(cases, cap):
    """small well-posed fit cases for the exact run"""
    out = []
    for c in cases:
        if len(out) >= cap:
            break
        if c.get('stream') != 'fit' or len(c['x']) > FITQ_MAX_NX or sum(c['mask']) - c['nord'] > FITQ_MAX_N:
            continue
        if analyse(c)['cls'] == 'well':
            out.append(dict(c, stream='fitq'))
    return out


def check_fitq(ctx, case, model):
    """one exact case: model (Rat) == independent exact oracle; real float fit close to the exact solution"""
    from fractions import Fraction
    ctx.seen(case)
    k = case['nord']
    info = analyse(case)
    if info['cls'] != 'well':
        ctx.count('fitq:not-well-skipped')
        return
    ex = solve_exact(case)
    n = ex['n']
    if not ex['pd']:
        ctx.count('fitq:oracle-not-positive-definite-skipped')
        return
    ctx.count('fitq:exact-cases')
    ctx.count('fitq:k=%d' % k)
    # ---------------- (i) + (ii): the exact model against the exact oracle
    if 'ok' not in model or not model.get('exact'):
        ctx.disagree('fitq:status', case, {'oracle': 'A^T W A positive definite, exact solution exists'},
                     {k_: v for k_, v in model.items() if k_ != 'ok'})
        return
    M = model['ok']
    if M['status'] != 0 or M['mask'] != case['mask']:
        ctx.disagree('fitq:status', case, {'status': 0, 'mask': 'unchanged'}, {'status': M['status'], 'mask': M['mask']})
        return
    gm = case['mask'][k:]
    mc = [_q(v) for v in M['coeff']]
    c_in = _fr(case['coeff'])
    good = [i for i, g in enumerate(gm) if g]
    sol = ex['sol']
    bits = max([v.denominator.bit_length() for v in sol] + [0])
    ctx.coverage['fitq:max-denominator-bits'] = max(ctx.coverage.get('fitq:max-denominator-bits', 0), bits)
    if len(mc) != len(c_in) or [mc[i] for i in good] != sol or any(mc[i] != c_in[i] for i in range(len(mc)) if not gm[i]):
        ctx.disagree('fitq:coeff-exact', case, {'coeff(oracle, exact, shown as float)': [float(v) for v in sol]},
                     {'coeff(model, exact, shown as float)': [float(v) for v in mc]})
        return
    # alpha = lower band of G (bw x (n+bw), zero beyond), beta = rhs padded with bw zeros
    G, rhs = ex['G'], ex['rhs']
    al = [[_q(v) for v in r] for r in M['alpha']]
    be = [_q(v) for v in M['beta']]
    band = [[G[c + r][c] if c + r < n else Fraction(0) for c in range(n + k)] for r in range(k)]
    if al != band or be != rhs + [Fraction(0)] * k:
        ctx.disagree('fitq:alpha-beta-exact', case, {'G': 'exact A^T W A / A^T W y of the oracle'}, {'alpha/beta': 'differ'})
        return
    # yfit of the model = the exact spline of the exact coefficients at the data
    yq = [sum((v * sol[c0 + a] for a, v in enumerate(vals)), Fraction(0)) for c0, vals in ex['rows']]
    my = [_q(v) for v in M['yfit']]
    if my != yq:
        ctx.disagree('fitq:yfit-exact', case, {'yfit(oracle)': [float(v) for v in yq]}, {'yfit(model)': [float(v) for v in my]})
        return
    ctx.count('fitq:model==oracle-exactly')
    # ---------------- (iii) the real float fit against the exact solution
    impl = impl_fit(case)
    if 'err' in impl or impl['ok']['status'] != 0:
        return      # reported by the fit stream (fit:<exception> / fit:status:well-posed-reported-as-..)
    y = bf_(case['y'])
    ys = max(1e-300, float(np.max(np.abs(y))))
    tol = 100 * tol_of(info)
    gc = np.array(impl['ok']['coeff'])[np.array(gm, dtype=bool)]
    solf = np.array([float(v) for v in sol])
    if not vclose(gc, solf, tol, ys):
        ctx.violate('fit:coeff:differs-from-exact-solution', 'coefficients differ from the exact (rational) solution of the normal '
                    'equations by %.3g (cond %.3g, tolerance %.3g relative to %.3g)' % (float(np.max(np.abs(gc - solf))), info['cond'], tol, ys), case)
    elif not vclose(impl['ok']['yfit'], [float(v) for v in yq], tol, ys):
        ctx.violate('fit:yfit:differs-from-exact-solution', 'yfit differs from the exact spline of the exact solution by %.3g' % float(
            np.max(np.abs(np.array(impl['ok']['yfit']) - np.array([float(v) for v in yq])))), case)
    else:
        ctx.count('fitq:float-fit-close-to-exact')
        err = float(np.max(np.abs(gc - solf))) / max(ys, float(np.max(np.abs(solf))))
        ctx.coverage['fitq:max-rel-error-of-float-fit'] = max(ctx.coverage.get('fitq:max-rel-error-of-float-fit', 0.0), err)


def run_fitq(ctx, cases):
    """exact run of the model's fit (op fitq) on small well-posed cases"""
    import sys
    if not cases:
        return
    lines = [dict(fit_line(c), op='fitq') for c in cases]
    old = sys.get_int_max_str_digits()
    sys.set_int_max_str_digits(0)       # the exact answers have numerators of several thousand digits
    try:
        models = core.driver_parallel(lines, workers=16, chunk=max(1, min(25, (len(lines) + 15) // 16)))
        for c, m in zip(cases, models):
            if 'driver_error' in m:
                ctx.disagree('fitq:driver', c, {}, m)
                continue
            check_fitq(ctx, c, m)
    finally:
        sys.set_int_max_str_digits(old)


# ---------------------------------------------------------------- cholesky_band / cholesky_solve
def band_of(A, bw):
    n = A.shape[0]
    l = np.zeros((bw, n + bw))
    for r in range(min(bw, n)):
        l[r, :n - r] = np.diagonal(A, -r)
    return l


def full_of(l, n):
    bw = l.shape[0]
    A = np.zeros((n, n))
    for r in range(bw):
        for c in range(n - r):
            A[c + r, c] = A[c, c + r] = l[r, c]
    return A


def pivots(A):
    """textbook Cholesky pivots of a dense symmetric matrix; index of the first non-positive one or None"""
    n = A.shape[0]
    L = np.zeros_like(A)
    for j in range(n):
        p = A[j, j] - np.dot(L[j, :j], L[j, :j])
        if not p > 0:
            return j, p
        L[j, j] = math.sqrt(p)
        for i in range(j + 1, n):
            L[i, j] = (A[i, j] - np.dot(L[i, :j], L[j, :j])) / L[j, j]
    return None, min(np.diag(L)) ** 2


def gen_chol(rng):
    bw = rng.randrange(1, 7)
    n = rng.choice([1, 2, 3, 5, 8, 13, 20, 30])
    L0 = np.zeros((n, n))
    for i in range(n):
        L0[i, i] = rng.uniform(0.6, 2.0)
        for r in range(1, bw):
            if i - r >= 0:
                L0[i, i - r] = rng.uniform(-0.6, 0.6)
    A = L0 @ L0.T
    kind = rng.choice(['spd', 'spd', 'spd', 'indefinite', 'indefinite', 'd7', 'nonpos-diag', 'mininf', 'nonfinite'])
    mininf = 0.0
    if kind == 'indefinite' and n >= 2 and bw >= 2:
        j = rng.randrange(1, n)
        # make pivot j clearly negative, keep the diagonal entry positive when possible
        piv = L0[j, j] ** 2
        A[j, j] -= piv * rng.uniform(1.5, 3.0)
    elif kind == 'd7' and n >= 2 and bw >= 2:
        A = np.eye(n)
        for i in range(n - 1):
            A[i + 1, i] = A[i, i + 1] = 2.0
    elif kind == 'nonpos-diag':
        for _ in range(rng.randrange(1, 3)):
            j = rng.randrange(n)
            A[j, j] = rng.choice([0.0, -1.0, -A[j, j]])
    elif kind == 'mininf':
        mininf = float(np.median(np.diag(A))) * rng.choice([0.5, 1.0, 1.5]) + 1e-3
    elif kind in ('indefinite', 'd7'):
        kind = 'spd'
    l = band_of(A, bw)
    if kind == 'nonfinite':
        r, c = rng.randrange(bw), rng.randrange(n + bw)
        l[r, c] = rng.choice([float('nan'), float('inf'), float('-inf')])
    b = [rng.gauss(0, 1) for _ in range(n)] + [0.0] * bw
    return {'stream': 'chol', 'kind': kind, 'bw': bw, 'n': n, 'l': [fb(r) for r in l], 'mininf': core.f2b(mininf), 'b': fb(b),
            'order': rng.choice(['C', 'C', 'F'])}


def impl_chol(case):
    from pydl.pydlutils.bspline import cholesky_band, cholesky_solve
    l = np.array([bf_(r) for r in case['l']])
    if case.get('order') == 'F':
        l = np.asfortranarray(l)        # the same matrix in column-major storage (a transposed view, an array from Fortran code)
    l0 = l.copy()
    try:
        with np.errstate(all='ignore'):
            e, L = cholesky_band(l, mininf=core.b2f(case['mininf']))
        if isinstance(e, (int, np.integer)) and e == -1:
            with np.errstate(all='ignore'):
                x = cholesky_solve(L, bf_(case['b']))
            return {'ok': {'status': -1, 'L': L, 'x': x, 'input_kept': bool(np.array_equal(l, l0, equal_nan=True))}}
        return {'ok': {'idx': [int(v) for v in np.atleast_1d(e)], 'scalar': not isinstance(e, np.ndarray),
                       'second_is_input': bool(np.array_equal(L, l0, equal_nan=True))}}
    except Exception as e:
        return {'err': core.exc_kind(e), 'frame': frame_of(e)}


def check_chol(ctx, case, impl, model):
    ctx.seen(case)
    bw, n = case['bw'], case['n']
    l = np.array([bf_(r) for r in case['l']])
    mininf = core.b2f(case['mininf'])
    ctx.count('chol:storage-order:' + case.get('order', 'C'))
    ctx.count('chol:%s:%s:bw=%d' % (case['kind'], 'err:' + impl['err'] if 'err' in impl else ('factor' if 'status' in impl['ok'] else 'bad'), bw))
    # ---- oracle
    finite = bool(np.all(np.isfinite(l)))
    A = full_of(np.where(np.isfinite(l), l, 0.0), n)
    neg = [int(i) for i in np.nonzero(l[0, :n] <= mininf)[0]]
    if 'err' in impl:
        ctx.violate('cholesky_band:%s:%s' % (impl['err'], impl['frame']),
                    'cholesky_band/cholesky_solve raises %s in %s() on a %s matrix instead of signalling through the return value' % (
                        impl['err'], impl['frame'], case['kind']), case)
    else:
        I = impl['ok']
        j, piv = (None, None)
        if finite and not neg:
            j, piv = pivots(A)
        scale = max(1e-300, float(np.max(np.abs(A))))
        clear = piv is not None and abs(piv) > 1e-6 * scale
        if 'status' in I and not I.get('input_kept', True):
            ctx.violate('cholesky_band:input-overwritten', 'after the call the matrix the caller holds is no longer A (it was used as scratch space): '
                        'L L^T = A and A x = b do not hold for the caller\'s array', case)
        if 'status' in I:
            if not finite or neg:
                ctx.violate('cholesky_band:bad-matrix-accepted', 'non-finite entry or diagonal <= mininf, but a factor is returned', case)
            elif j is not None and clear:
                ctx.violate('cholesky_band:indefinite-accepted', 'leading minor %d is not positive definite (pivot %r) but a factor is returned' % (j + 1, piv), case)
            elif j is None and clear:
                L = I['L']
                Lf = np.zeros((n, n))
                for r in range(bw):
                    for c in range(n - r):
                        Lf[c + r, c] = L[r, c]
                res = float(np.max(np.abs(Lf @ Lf.T - A))) if n else 0.0
                if L.shape != l.shape or np.any(L[:, n:] != 0) or not res <= 1e-12 * scale * max(1, n):
                    ctx.violate('cholesky_band:LLt!=A', 'max|L L^T - A| = %.3g' % res, case)
                x = I['x']
                b = bf_(case['b'])
                cond = np.linalg.cond(A) if n else 1.0
                r2 = float(np.max(np.abs(A @ x[:n] - b[:n]))) if n else 0.0
                if x.shape != b.shape or np.any(x[n:] != 0) or not r2 <= 1e-13 * cond * max(1.0, float(np.max(np.abs(b)))) * max(1, n):
                    ctx.violate('cholesky_solve:Ax!=b', 'max|A x - b| = %.3g (cond %.3g)' % (r2, cond), case)
                ctx.count('chol:residuals-checked')
        else:
            if finite and not neg and j is None and clear:
                ctx.violate('cholesky_band:spd-rejected', 'positive definite matrix (smallest pivot %r) reported as bad at %r' % (piv, I['idx']), case)
            if (not finite or neg) and (I['idx'] != neg or I['scalar']):
                ctx.violate('cholesky_band:wrong-bad-columns', 'diagonal <= mininf at %r, reported %r' % (neg, I['idx']), case)
            if finite and not neg and j is not None and clear and I['idx'] != [j]:
                ctx.violate('cholesky_band:wrong-failing-column', 'first non-positive-definite leading minor is %d, reported %r' % (j, I['idx']), case)
            if not I['second_is_input']:
                ctx.violate('cholesky_band:input-not-returned', 'on failure the second item is not the input matrix', case)
        if finite and not neg and not clear:
            ctx.count('chol:marginal-not-compared')
            return
    # ---- correspondence
    if 'err' in impl:
        return
    I = impl['ok']
    if 'err' in model:
        ctx.disagree('chol', case, {k: v for k, v in I.items() if k not in ('L', 'x')}, model)
        return
    M = model['ok']
    if ('status' in I) != ('status' in M):
        ctx.disagree('chol:kind', case, {k: v for k, v in I.items() if k not in ('L', 'x')}, {k: v for k, v in M.items() if k != 'L'})
    elif 'status' in I:
        ML = np.array([bf_(r) for r in M['L']])
        if not vclose(ML, I['L'], 1e-9 * max(1.0, np.linalg.cond(A) if n else 1.0) * 1e-3 + 1e-10):
            ctx.disagree('chol:L', case, {'L': I['L'].tolist()}, {'L': ML.tolist()})
    elif I['idx'] != M['idx'] or I['scalar'] != M['scalar']:
        ctx.disagree('chol:idx', case, {'idx': I['idx'], 'scalar': I['scalar']}, M)


def run_chol(ctx, cases):
    models = core.driver_parallel([{'p': 'C09', 'op': 'chol', 'l': c['l'], 'mininf': c['mininf']} for c in cases], chunk=500)
    for c, m in zip(cases, models):
        check_chol(ctx, c, impl_chol(c), m)


# ---------------------------------------------------------------- the check
def run(ctx):
    core.audit(ctx, LEAN_MODULES, THEOREMS)
    rng = ctx.rng
    fits = [c for c in (gen_fit(rng) for _ in range(ctx.n(500, 15000))) if c]
    ills = [c for c in (gen_fit(rng, ill=True) for _ in range(ctx.n(350, 10000))) if c]
    # the two defects of DESIGN §4 as directed cases
    x = np.concatenate([np.linspace(0, 1, 20), np.linspace(3, 4, 20)])
    from pydl.pydlutils.bspline import bspline
    b = bspline(x, nord=4, bkspace=0.3)
    ills.append({'stream': 'fit', 'nord': 4, 'bk': fb(b.breakpoints), 'mask': [True] * len(b.breakpoints), 'coeff': fb(np.zeros(len(b.breakpoints) - 4)),
                 'x': fb(x), 'y': fb(np.sin(x)), 'w': fb(np.ones_like(x)), 'ill': 'D6', 'ykind': 'smooth'})
    run_fit_rounds(ctx, fits + ills)
    chols = [gen_chol(rng) for _ in range(ctx.n(800, 25000))]
    l = np.zeros((2, 7))
    l[0, :5] = 1
    l[1, :4] = 2
    chols.append({'stream': 'chol', 'kind': 'd7', 'bw': 2, 'n': 5, 'l': [fb(r) for r in l], 'mininf': core.f2b(0.0), 'b': fb([1, 2, 3, 4, 5, 0, 0])})
    run_chol(ctx, chols)
    run_fitq(ctx, fitq_select(fits, ctx.n(60, 1500)))
    from harness.props import c09_2d
    c09_2d.run(ctx, use_model=not os.environ.get('C09_2D_NOMODEL'))
    if ctx.disagreements:
        directed_search(ctx)


def directed_search(ctx):
    """the correspondence is broken: oracle-only cases around the disagreeing configurations"""
    rng = ctx.rng
    seen = 0
    for d in ctx.disagreements[:8]:
        c = d['case']
        if c.get('stream') == 'fit':
            for _ in range(30):
                c2 = gen_fit(rng, ill=(c.get('ill', 'none') != 'none'))
                if c2:
                    c2['nord'] = c2['nord']
                    check_fit(ctx, c2, impl_fit(c2), None)
                    seen += 1
        elif c.get('stream') == 'chol':
            for _ in range(30):
                c2 = gen_chol(rng)
                n0 = len(ctx.disagreements)
                im = impl_chol(c2)
                if 'ok' in im:
                    fake = {'ok': ({'status': -1, 'L': [fb(r) for r in im['ok']['L']]} if 'status' in im['ok'] else
                                   {'idx': im['ok']['idx'], 'scalar': im['ok']['scalar']})}
                else:
                    fake = {'err': im['err']}
                check_chol(ctx, c2, im, fake)
                del ctx.disagreements[n0:]
                seen += 1
    ctx.notes.append('directed failing-input search ran on %d oracle-only cases' % seen)


def replay(ctx, case):
    core.audit(ctx, LEAN_MODULES, THEOREMS)
    if case.get('stream') == 'fit':
        run_fit_rounds(ctx, [case])
    elif case.get('stream') == 'chol':
        run_chol(ctx, [case])
    elif case.get('stream') == 'fitq':
        run_fitq(ctx, [case])
    elif case.get('stream') == 'fit2d':
        from harness.props import c09_2d
        c09_2d.run_fit2(ctx, [case])
    elif case.get('stream') == 'fit2q':
        from harness.props import c09_2d
        c09_2d.run_fit2q(ctx, [dict(case, stream='fit2d')])
    else:
        run(ctx)


LEVEL_TEXT = ('Extension 3 (x2 / npoly >= 1 now INSIDE the model, Model/BSplineFit2.lean: x2norm, the funcname expansion poly/poly1/chebyshev/legendre, '
              'the tensor action matrix, the npoly-blocked assembly itop = k*npoly, maskpoints with err//npoly, the coefficient store/read-back '
              'with the polynomial index fastest, fit2, value2): proved for EVERY npoly, order, size and ordered field - assembleP_is_normal (the '
              'blocked bi/bo scatter builds exactly the lower band of A^T W A and A^T W y of the blocked design matrix), tensor_design (for the '
              'action matrix action(x, x2) builds, column j*npoly+l of that design matrix is B_j(x_p)*P_l(x2_p)), assembleP_is_normal_tensor, '
              'assembleP_one (npoly = 1 gives the 1-D assembly), fit2_optimum_solves (a vector solving the assembled banded system minimises '
              'sum invvar*(y - sum_j sum_l c_jl B_j(x) P_l(x2))^2 over ALL coefficient vectors), tensor_row_is_spline (that model value is '
              'sum_l P_l(x2) * spline_l(x) with the C08 spline), fit2_system_solved_ldlt (with the proved L D L^T kernels, a factor answered by '
              'cholesky_band on the system normalSystemP materialises means cholesky_solve returns a solution of it - no solver hypothesis), '
              'fit2_solved_is_optimum_partial (their composition), maskpointsP_status. Tied to the code by streams action2d (oracle: independent '
              'tensor basis from numpy.polynomial + scipy design matrix), fit2d (real fit/value with npoly 2-4 and all four funcnames against the '
              'model op fit2 - status, mask exact, coefficients, yfit, value at new points, alpha/beta against an independent T^T W T - and against '
              'dense lstsq over the tensor basis) and fit2q (model in exact rationals = exact Gaussian elimination in Fractions). Four defects of '
              'the 2-D path were found and fixed (every 2-D fit raised). '
              'Machine-checked Lean 4 theorems over an executable model of bspline.fit / maskpoints / cholesky_band / cholesky_solve (1-D, '
              'npoly=1), for all knots, orders, data and weights over any ordered field: the bi/bo flat-index scatter of fit builds exactly '
              'the lower band of A^T W A and A^T W y (assemble_is_normal); hence, under the stated contract of the LAPACK kernels (L L^T = A, '
              'A x = b - a hypothesis), a status-0 fit satisfies the normal equations and minimises sum invvar*(y - spline(x))^2 over ALL '
              'coefficient vectors, spline being the function value() evaluates (C08: the Cox-de Boor spline); the assembled system does not see '
              'y at zero-weight points; the fit is linear in y; data from the spline space - in particular constants - are reproduced at every '
              'positively weighted point. Extension: for sorted abscissae the lower/upper bookkeeping of action() is PROVED to delimit the segments '
              '(rows_action, from C08 rowsOf_action), so fit_optimum_sorted / fit_normal_sorted / fit_zero_weight_sorted / fit_linear_sorted / '
              'fit_exact_sorted hold with the LAPACK contract as the only hypothesis; Marsden\'s identity is proved for the model\'s Cox-de Boor '
              'pieces (marsden), hence every polynomial of degree < nord lies in the spline space with explicit coefficients (monomial_reproduction, '
              'poly_in_span, spline_of_poly) and is reproduced by the fit at every positively weighted point (poly_reproduction_all/_sorted); '
              'fit_is_optimum / fit_is_optimum_obj / fit_reproduces_poly state optimality and polynomial reproduction about the model function '
              'fit itself: status 0 + "the vector cholesky_solve returned solves the system assembled in this call" => the object fit returns '
              '(coefficients read back through putGood/goodcoeff, the accessor of C08 value_is_spline) minimises the objective. Status table: fewer than nord good breakpoints -> -2 unchanged object; cholesky_band never fails and '
              'answers a factor, the screened column list (diagonal <= mininf or non-finite) or one fallback column j < n; maskpoints answers '
              '-1 (mask only shrinks, never the first/last nord good breakpoints) or -2 (mask unchanged); fit answers 0, -1 or -2 and on 0 '
              'stores the solution cholesky_solve returns for the assembled system. Tied to the repository on every run by I/O correspondence '
              '(status and masks exact, coefficients/yfit within tolerance, refit rounds, the model normal equations against an independent '
              'A^T W A) and by an independent oracle (scipy design matrix + dense lstsq, objective, zero-weight invariance, linearity, polynomial '
              'reproduction up to degree nord-1, Cholesky residuals, leading-minor test of the reported column, no exception / no non-finite '
              'coefficient on every ill-posed class), and by an EXACT run (stream fitq): the same model fit executed in rational arithmetic on small '
              'well-posed problems equals, number for number, an independent exact solution of the normal equations (Cox-de Boor recursion and '
              'Gaussian elimination in Fractions) - alpha, beta, coefficients and yfit - and the float fit of the real code lies within tolerance of it. '
              'Extension 2 (solver side): the kernels that the driver runs in place of LAPACK are now Lean definitions of the model layer '
              '(Model/BandChol.lean: left-looking banded factorisation bandFactor + forward/diagonal/back substitution bandSolve, in the square-root-free '
              'L D L^T form ldltV for the exact run and the Cholesky form cholV sqrt for the float run) and their contract is PROVED for every ordered '
              'field, every bandwidth and size: ldlt_factor_spec (a factor is answered exactly when all pivots are positive - ldlt_factor_iff_pivots - and '
              'then D > 0, L unit lower banded, L D L^T = A entrywise, zero outside the band), ldlt_solve_spec / ldlt_solves ((L D L^T) x = b, A x = b), '
              'ldlt_contract_kernel, chol_contract_kernel (CholContract itself for the Cholesky pair over a field with sqrt p * sqrt p = p), '
              'ldlt_factor_iff_pos_def / chol_factor_iff_pos_def (the factorisation succeeds EXACTLY on positive definite matrices); for the model '
              'functions: cholesky_band_ldlt (screen passed: the padded factor, or - pivot <= 0 = LinAlgError - the fallback answer, never a factor), '
              'cholesky_band_ldlt_iff_pos_def, cholesky_solves_ldlt; hence fit_is_optimum_ldlt / fit_is_optimum_obj_ldlt / fit_reproduces_poly_ldlt: '
              'the model fit run with these kernels (literally what stream fitq executes) returns, WHENEVER the status is 0, the minimiser of '
              'sum invvar*(y - spline(x))^2 - with NO solver hypothesis; status 0 implies that every pivot was positive and that A^T W A is positive '
              'definite (fit_ldlt_status0_pivots, fit_ldlt_status0_pos_def); fit_is_optimum_chol: the same for the Cholesky kernels when A^T W A is '
              'positive definite.')
LEVEL_NOTE = ('Partial: LAPACK itself (cholesky_banded / cho_solve_banded as called by the real code) remains a contract: the theorems with '
              'CholContract / hsolve assume that its answer solves the assembled banded system (sampled by the residual checks); what is now PROVED is '
              'that contract for the textbook banded kernels the Lean driver executes in its place (Model/BandChol.lean), and fit_is_optimum_ldlt has no '
              'solver hypothesis. Not proved: that LAPACK computes what these kernels compute (compared within tolerance on every run); floating-point '
              'behaviour of the Cholesky kernels (theorems are over exact ordered fields; Float.sqrt only satisfies sqrt p * sqrt p = p approximately); '
              'for the Cholesky kernels with a real sqrt the statement that the code\'s fallback loop fails whenever the kernel fails (so '
              'fit_is_optimum_chol assumes a positive definite normal matrix; in the L D L^T interpretation the fallback is cut off by sqrt := 0 and '
              'reports column 0, not the first failing column - which column is reported is checked by the oracle of stream chol only); that core Rat '
              'arithmetic is the field Q (theorems use the field interpretation of the Scalar operations). Rows is no longer a hypothesis for sorted abscissae (rows_action); the general forms over arbitrary '
              'lower/upper keep it. Polynomial reproduction is now proved for every degree < nord (Marsden), for knots non-decreasing with '
              't[nord-1] < t[nord] and points inside the breakpoint range. hsolve speaks of alpha/beta as the assemble functions, the kernel call '
              'gets the arrays normalSystem materialises from them; no end-to-end instance of fit_is_optimum is evaluated inside Lean (the field '
              'interpretation is noncomputable). 2-D path: the function-level statement about fit2 itself (status 0 => the stored coeff2 minimises the tensor objective) is NOT proved - fit2_solved_is_optimum_partial stops at the kernel call on normalSystemP; missing are the unfolding of fit2 to its status-0 branch with putGood2 / goodcoeff read-back, the list-level identification of the rows BS2.action returns with tensorAct of the bsplvn rows and polyBasis, and Rows from rows_action for the 2-D action (same lower/upper as 1-D); these are compared on every run (fit2d, fit2q). polyBasis is not proved to be the Legendre/Chebyshev polynomials (tensor theorems hold for any P). Theorems are over exact ordered fields: rounding, the '
              '1e-10 influence threshold near equality and near-singular systems (class "marginal": only no-exception / finite output is '
              'required) are outside them. Exact (Rat) run: only for small well-posed problems; the kernel parameter of the Rat interpretation is the '
              'proved banded L D L^T pair kernelsLdlt; the fallback loop of cholesky_band (needs sqrt) is never run exactly.')

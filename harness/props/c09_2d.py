"""C09, extension 3: the two-dimensional fit of pydl.pydlutils.bspline (x2 given, npoly > 1).

Streams `action2d` (oracle only: the matrix action(x, x2=...) returns against an independently built tensor basis),
`fit2d` (real fit / value with npoly 2-4 and every funcname, against the Lean model op `fit2` and against a dense
weighted least-squares problem over the tensor basis B_j(x) * P_l(x2)) and `fit2q` (the model run in exact rational
arithmetic against an exact solution in Fractions).  Nothing here uses pydl code or the model for the oracle.
"""
import copy
from fractions import Fraction
import numpy as np
from harness import core
from harness.props import c09 as base

FUNCS = ['poly', 'poly1', 'chebyshev', 'legendre']


# ---------------------------------------------------------------- real code
def make_obj2(case):
    b = base.make_obj(dict(case, coeff=[]))
    b.npoly = case['npoly']
    b.coeff = np.array([base.bf_(r) for r in case['coeff']], dtype='d').reshape(case['npoly'], -1)
    b.icoeff = np.zeros_like(b.coeff)
    b.xmin, b.xmax, b.funcname = core.b2f(case['xmin']), core.b2f(case['xmax']), case['func']
    return b


def impl_action2(case):
    b = make_obj2(case)
    x, x2 = base.bf_(case['x']), base.bf_(case['x2'])
    try:
        with np.errstate(all='ignore'):
            a, lo, up = b.action(x, x2=x2)
        return {'ok': {'action': np.asarray(a, dtype='d'), 'lower': [int(v) for v in lo], 'upper': [int(v) for v in up]}}
    except Exception as e:
        return {'err': core.exc_kind(e), 'frame': base.frame_of(e)}


def impl_fit2(case, y=None):
    b = make_obj2(case)
    x, x2, w = base.bf_(case['x']), base.bf_(case['x2']), base.bf_(case['w'])
    yy = base.bf_(case['y']) if y is None else np.asarray(y, dtype='d')
    try:
        with np.errstate(all='ignore'):
            st, yfit = b.fit(x, yy, w, x2=x2)
        out = {'status': int(st), 'yfit': [float(v) for v in yfit], 'coeff': [[float(v) for v in r] for r in np.asarray(b.coeff)],
               'mask': [bool(v) for v in b.mask]}
    except Exception as e:
        return {'err': core.exc_kind(e), 'frame': base.frame_of(e)}
    if out['status'] == 0 and case.get('xe'):
        try:
            with np.errstate(all='ignore'):
                v, m = b.value(base.bf_(case['xe']), x2=base.bf_(case['x2e']))
            out['val'] = [float(t) for t in v]
            out['valmask'] = [bool(t) for t in m]
        except Exception as e:
            out['val_err'] = core.exc_kind(e)
            out['val_frame'] = base.frame_of(e)
    return {'ok': out}


def fit2_line(case, op='fit2'):
    x = base.bf_(case['x'])
    return {'p': 'C09', 'op': op, 'nord': case['nord'], 'npoly': case['npoly'], 'func': case['func'], 'xmin': case['xmin'],
            'xmax': case['xmax'], 'bk': case['bk'], 'mask': case['mask'], 'coeff': case['coeff'], 'x': case['x'], 'x2': case['x2'],
            'y': case['y'], 'w': case['w'], 'perm': [int(p) for p in x.argsort(kind='stable')],
            'xe': case.get('xe', []), 'x2e': case.get('x2e', []),
            'perme': [int(p) for p in base.bf_(case.get('xe', [])).argsort()]}


# ---------------------------------------------------------------- oracle pieces (no pydl, no model)
def polys(func, npoly, x2, xmin, xmax):
    """P[p][l], l < npoly: the basis in the second variable (numpy.polynomial, not the pydl / scipy.special routines)"""
    t = 2.0 * (np.asarray(x2, dtype='d') - xmin) / (xmax - xmin) - 1.0
    if func == 'poly':
        return np.polynomial.polynomial.polyvander(t, npoly - 1)
    if func == 'poly1':
        return np.polynomial.polynomial.polyvander(t, npoly)[:, 1:]
    if func == 'chebyshev':
        return np.polynomial.chebyshev.chebvander(t, npoly - 1)
    if func == 'legendre':
        return np.polynomial.legendre.legvander(t, npoly - 1)
    raise ValueError(func)


def tensor(A, P):
    """T[p][j*npoly + l] = A[p][j] * P[p][l]"""
    return (A[:, :, None] * P[:, None, :]).reshape(A.shape[0], -1)


def analyse2(case):
    k, m = case['nord'], case['npoly']
    bk, mask = base.bf_(case['bk']), np.array(case['mask'], dtype=bool)
    x, x2, y, w = base.bf_(case['x']), base.bf_(case['x2']), base.bf_(case['y']), base.bf_(case['w'])
    xmin, xmax = core.b2f(case['xmin']), core.b2f(case['xmax'])
    t = bk[mask]
    n = len(t) - k
    if mask[k:].sum() < k:
        return {'cls': 'too-few-breakpoints'}
    if not mask[:k].all() or n < k or np.any(np.diff(t) < 0) or not t[k - 1] < t[k] or x.size == 0 or x.min() < t[k - 1] or \
            x.max() > t[n] or np.any(np.diff(x) < 0) or not xmin < xmax or x2.size != x.size or case['func'] not in FUNCS:
        return {'cls': 'outside'}
    try:
        A = base.design(t, k, x)
    except Exception as e:
        return {'cls': 'outside', 'why': type(e).__name__}
    P = polys(case['func'], m, x2, xmin, xmax)
    T = tensor(A, P)
    G = T.T @ (T * w[:, None])
    rhs = T.T @ (w * y)
    d = np.diag(G)
    thr = 1e-10 * w.sum() / (n * m)
    info = {'A': A, 'P': P, 'T': T, 'G': G, 'rhs': rhs, 'n': n, 't': t, 'thr': thr, 'd': d}
    if np.any(d == 0):
        info['cls'] = 'illposed' if not np.any((d > 0) & (d <= 1e3 * thr)) else 'marginal'
        return info
    if np.any(d <= 1e3 * thr):
        info['cls'] = 'marginal'
        return info
    cond = np.linalg.cond(G)
    info['cond'] = cond
    info['cls'] = 'well' if cond < 1e8 else 'marginal'
    if info['cls'] == 'well':
        sw = np.sqrt(w)
        info['c_ls'] = np.linalg.lstsq(T * sw[:, None], y * sw, rcond=None)[0]
    return info


def flat_of(coeff, case):
    """the coefficient vector z[j*npoly + l] = coeff[l][good j] of an (npoly, nc) coefficient array"""
    gm = np.array(case['mask'], dtype=bool)[case['nord']:]
    c = np.asarray(coeff, dtype='d').reshape(case['npoly'], -1)
    return c[:, gm].T.ravel()


# ---------------------------------------------------------------- generator
def gen_fit2(rng, ill=None):
    from pydl.pydlutils.bspline import bspline
    k = rng.choice([1, 2, 3, 4, 4])
    m = rng.choice([2, 2, 3, 4])
    func = rng.choice(FUNCS)
    lo, span = rng.choice([(0.0, 1.0), (-5.0, 10.0), (3500.0, 6000.0)])
    nx = rng.choice([30, 45, 60, rng.randrange(20, 90)])
    xkind, x = base.gen_x(rng, nx, lo, span)
    if xkind == 'dup':
        xkind, x = 'random', sorted(lo + span * rng.random() for _ in range(nx))
    if x[0] == x[-1]:
        x[-1] = x[0] + span
    xa = np.asarray(x, dtype='d')
    try:
        with np.errstate(all='ignore'):
            b = bspline(xa, nord=k, npoly=m, nbkpts=rng.randrange(2, 6))
    except Exception:
        return None
    bk = np.asarray(b.breakpoints, dtype='d')
    xa = np.clip(xa, bk[k - 1], bk[len(bk) - k])
    illkind = 'none'
    if ill:
        illkind = rng.choice(['gap', 'all-zero-weight', 'zero-weight-stretch', 'masked'])
    if illkind == 'gap' and len(bk) > 2 * k + 1:
        j = rng.randrange(k - 1, len(bk) - k)
        keep = ~((xa > bk[j]) & (xa <= bk[j + 1]))
        keep[0] = keep[-1] = True
        xa = xa[keep]
    nx = len(xa)
    lo2, span2 = rng.choice([(0.0, 1.0), (-1.0, 2.0), (100.0, 50.0)])
    x2 = np.array([lo2 + span2 * rng.random() for _ in range(nx)])
    if ill and rng.random() < 0.15:
        x2[:] = lo2 + 0.5 * span2
        illkind += '+const-x2'
    lim = rng.choice(['minmax', 'minmax', 'default', 'wide'])
    if lim == 'minmax':
        xmin, xmax = float(x2.min()), float(x2.max())
        if xmin == xmax:
            xmax = xmin + 1
    elif lim == 'default':
        xmin, xmax = 0.0, 1.0
    else:
        xmin, xmax = lo2 - 0.3 * span2, lo2 + 1.4 * span2
    u = (xa - lo) / span
    v = (x2 - lo2) / span2
    ykind = rng.choice(['tensor-poly', 'tensor-poly', 'smooth', 'random'])
    if ykind == 'tensor-poly':
        y = np.zeros(nx)
        for a in range(k):
            for c in range(m):
                y = y + rng.uniform(-2, 2) * u ** a * v ** c
        if func == 'poly1':
            y = y * (2.0 * (x2 - xmin) / (xmax - xmin) - 1.0)      # poly1 has no constant term
    elif ykind == 'smooth':
        y = np.sin(4 * u + rng.random()) * (1 + v) + 0.1 * np.array([rng.gauss(0, 1) for _ in range(nx)])
    else:
        y = np.array([rng.gauss(0, 3) for _ in range(nx)])
    y = y * rng.choice([1.0, 1.0, 100.0, 1e-3])
    wkind, w = base.gen_w(rng, nx)
    if illkind.startswith('zero-weight-stretch'):
        a = lo + span * rng.uniform(0.0, 0.6)
        w = np.where((xa >= a) & (xa <= a + span * rng.uniform(0.3, 0.6)), 0.0, w)
    elif illkind.startswith('all-zero-weight'):
        w = np.zeros(nx)
    mask = [True] * len(bk)
    if illkind.startswith('masked'):
        for _ in range(rng.randrange(1, 3)):
            if len(bk) > k:
                mask[rng.randrange(k, len(bk))] = False
    nc = len(bk) - k
    coeff = [[0.0] * nc for _ in range(m)] if rng.random() < 0.6 else [[rng.gauss(0, 1) for _ in range(nc)] for _ in range(m)]
    ne = rng.randrange(3, 9)
    xe = [float(np.clip(lo + span * rng.random(), bk[k - 1], bk[len(bk) - k])) for _ in range(ne)]
    x2e = [lo2 + span2 * rng.random() for _ in range(ne)]
    return {'stream': 'fit2d', 'nord': k, 'npoly': m, 'func': func, 'xmin': core.f2b(xmin), 'xmax': core.f2b(xmax), 'bk': base.fb(bk),
            'mask': mask, 'coeff': [base.fb(r) for r in coeff], 'x': base.fb(xa), 'x2': base.fb(x2), 'y': base.fb(y), 'w': base.fb(w),
            'xe': base.fb(xe), 'x2e': base.fb(x2e), 'xkind': xkind, 'ykind': ykind, 'wkind': wkind, 'ill': illkind, 'lim': lim}


# ---------------------------------------------------------------- checks
def subcase(case, idx):
    return dict(case, x=[case['x'][i] for i in idx], x2=[case['x2'][i] for i in idx], y=[case['y'][i] for i in idx],
                w=[case['w'][i] for i in idx])


def check_action2(ctx, case, info):
    """oracle on action(x, x2): the returned (nx, npoly*nord) matrix holds B_{s+ii}(x_p) * P_jj(x2_p) in column ii*npoly+jj"""
    if info['cls'] in ('outside', 'too-few-breakpoints'):
        return
    k, m = case['nord'], case['npoly']
    r = impl_action2(case)
    if 'err' in r:
        def fails(idx):
            c2 = subcase(case, idx)
            r2 = impl_action2(c2)
            return r2.get('err') == r['err'] and r2.get('frame') == r['frame'] and analyse2(c2)['cls'] not in ('outside', 'too-few-breakpoints')
        idx = core.shrink_list(list(range(len(case['x']))), fails, 1)
        ctx.violate('action2d:%s:%s:%s' % (r['err'], r['frame'], case['func']),
                    'bspline.action(x, x2=...) with funcname=%r, npoly=%d raises %s in %s()' % (case['func'], m, r['err'], r['frame']), subcase(case, idx))
        return
    a, lo, up = r['ok']['action'], r['ok']['lower'], r['ok']['upper']
    T, nx = info['T'], info['T'].shape[0]
    full = np.zeros_like(T)
    ok = a.shape == (nx, k * m)
    if ok:
        for s in range(len(lo)):
            for p in range(max(lo[s], 0), min(up[s], nx - 1) + 1):
                full[p, s * m:(s + k) * m] = a[p]
        ok = base.vclose(full, T, 1e-12, max(1e-300, float(np.max(np.abs(T)))))
    if not ok:
        bad = int(np.argmax(np.max(np.abs(full - T), axis=1))) if a.shape == (nx, k * m) else 0
        ctx.violate('action2d:values:%s' % case['func'],
                    'action(x, x2=...) with funcname=%r, npoly=%d is not the tensor basis B_j(x)*P_l(x2): row %d differs by %.3g' % (
                        case['func'], m, bad, float(np.max(np.abs(full - T))) if a.shape == (nx, k * m) else float('nan')), case)
    ctx.count('action2d:checked:%s' % case['func'])


def check_fit2(ctx, case, impl, model):
    ctx.seen(case)
    info = analyse2(case)
    cls = info['cls']
    k, m = case['nord'], case['npoly']
    ctx.count('fit2d:%s:%s:%s:npoly=%d' % (cls, 'err:' + impl['err'] if 'err' in impl else 'status=%d' % impl['ok']['status'], case['func'], m))
    check_action2(ctx, case, info)
    x, y, w = base.bf_(case['x']), base.bf_(case['y']), base.bf_(case['w'])
    if 'err' in impl:
        if cls != 'outside':
            def fails(idx):
                c2 = subcase(case, idx)
                r = impl_fit2(c2)
                return r.get('err') == impl['err'] and r.get('frame') == impl['frame'] and analyse2(c2)['cls'] != 'outside'
            idx = core.shrink_list(list(range(len(x))), fails, 1)
            ctx.violate('fit2d:%s:%s' % (impl['err'], impl['frame']),
                        'bspline.fit(x, y, invvar, x2=...) with npoly=%d raises %s in %s() on a %s problem instead of returning a status code' % (
                            m, impl['err'], impl['frame'], cls), subcase(case, idx))
        elif model is not None and model.get('err') != impl['err']:
            ctx.disagree('fit2d:error-kind', case, impl, model)
        return
    I = impl['ok']
    st = I['status']
    coeff = np.array(I['coeff'], dtype='d')
    old_c = np.array([base.bf_(r) for r in case['coeff']]).reshape(m, -1)
    if cls != 'outside':
        if not np.all(np.isfinite(coeff)) or not np.all(np.isfinite(I['yfit'])):
            ctx.violate('fit2d:non-finite:status=%d' % st, 'fit returns status %d with non-finite coefficients / yfit (%s problem)' % (st, cls), case)
        old, new = np.array(case['mask']), np.array(I['mask'])
        if st not in (0, -1, -2):
            ctx.violate('fit2d:status:undocumented', 'status %r' % st, case)
        if st == -1 and not (np.all(new <= old) and new.sum() < old.sum()):
            ctx.violate('fit2d:mask:-1-without-new-masked-breakpoint', 'status -1 but the breakpoint mask did not shrink', case)
        if st in (0, -2) and not np.array_equal(new, old):
            ctx.violate('fit2d:mask:changed-with-status-%d' % st, 'mask changed although status is %d' % st, case)
        if st != 0 and (coeff.shape != old_c.shape or not np.array_equal(coeff, old_c)):
            ctx.violate('fit2d:coeff:changed-on-failure', 'coefficients changed although status is %d' % st, case)
    if cls == 'too-few-breakpoints' and st != -2:
        ctx.violate('fit2d:status:too-few-breakpoints', 'fewer than nord good breakpoints but status %d' % st, case)
    if cls == 'illposed' and st not in (-1, -2):
        ctx.violate('fit2d:status:illposed-reported-as-%d' % st, 'a coefficient has no weighted data (diag of T^T W T is 0) but status is %d' % st, case)
    tol = 1e-9 + 1e-13 * info.get('cond', 1.0)
    if cls == 'well':
        T, c_ls = info['T'], info['c_ls']
        if st != 0:
            ctx.violate('fit2d:status:well-posed-reported-as-%d' % st, 'every coefficient is supported (cond %.3g) but status is %d' % (info['cond'], st), case)
        elif coeff.shape != old_c.shape:
            ctx.violate('fit2d:coeff:shape', 'coefficient array has shape %r, not (npoly, nc)' % (coeff.shape,), case)
        else:
            z = flat_of(coeff, case)
            ys = max(1e-300, float(np.max(np.abs(y))))
            if not base.vclose(z, c_ls, tol * 10, ys):
                ctx.violate('fit2d:coeff:differs-from-lstsq', 'coeff[l][j] differ from the dense weighted least-squares solution over B_j(x)*P_l(x2) by %.3g (cond %.3g)' % (
                    float(np.max(np.abs(z - c_ls))), info['cond']), case)
            q1, q0 = base.Q(T, w, y, z), base.Q(T, w, y, c_ls)
            if q1 > q0 + 1e-9 * float(np.sum(w * y * y)) + 1e-300:
                ctx.violate('fit2d:objective:not-minimal', 'sum invvar*(y-model)^2 = %r > %r of the lstsq solution' % (q1, q0), case)
            if not base.vclose(I['yfit'], T @ z, 1e-9, ys):
                ctx.violate('fit2d:yfit:not-the-model', 'yfit differs from sum_j sum_l coeff[l][j] B_j(x) P_l(x2) at the data', case)
            if case.get('ykind') == 'tensor-poly' and not base.vclose(I['yfit'], y, tol * 100, ys):
                ctx.violate('fit2d:tensor-poly-reproduction', 'data from the tensor space are not reproduced: max error %.3g' % float(np.max(np.abs(np.array(I['yfit']) - y))), case)
            if 'val_err' in I:
                ctx.violate('fit2d:value:%s:%s' % (I['val_err'], I['val_frame']), 'value(x, x2=...) raises %s after a successful fit' % I['val_err'], case)
            elif 'val' in I:
                xe, x2e = base.bf_(case['xe']), base.bf_(case['x2e'])
                Te = tensor(base.design(info['t'], k, xe), polys(case['func'], m, x2e, core.b2f(case['xmin']), core.b2f(case['xmax'])))
                if not base.vclose(I['val'], Te @ z, 1e-9, max(ys, float(np.max(np.abs(Te @ z))))):
                    ctx.violate('fit2d:value:not-the-model', 'value(x, x2) at new (unsorted) points differs from sum_j sum_l coeff[l][j] B_j(x) P_l(x2)', case)
                ctx.count('fit2d:value-checked')
            if ctx.rng.random() < 0.3:
                r2 = np.random.RandomState(ctx.rng.randrange(2 ** 31))
                y2 = np.where(w == 0, y + r2.normal(0, 10, len(y)), y)
                o2 = impl_fit2(case, y=y2)
                if 'ok' not in o2 or not base.vclose(flat_of(o2['ok']['coeff'], case), z, 1e-12, ys):
                    ctx.violate('fit2d:zero-weight-dependence', 'coefficients change when y is altered at zero-weight points', case)
    if model is None:
        return
    if cls in ('marginal', 'outside'):
        ctx.count('fit2d:%s-not-compared' % cls)
        return
    if 'err' in model or 'driver_error' in model:
        ctx.disagree('fit2d', case, {'status': st}, model)
        return
    M = model['ok']
    if M['status'] != st or M['mask'] != I['mask']:
        ctx.disagree('fit2d:status/mask', case, {'status': st, 'mask': I['mask']}, {'status': M['status'], 'mask': M['mask']})
        return
    tolm = 100 * tol
    mc = np.array([base.bf_(r) for r in M['coeff']]).reshape(m, -1)
    ys = max(1e-300, float(np.max(np.abs(y))) if y.size else 1.0, float(np.max(np.abs(coeff))) if coeff.size else 1.0)
    if mc.shape != coeff.shape or not base.vclose(mc, coeff, tolm, ys):
        ctx.disagree('fit2d:coeff', case, {'coeff': I['coeff']}, {'coeff': mc.tolist()})
        return
    if not base.vclose(base.bf_(M['yfit']), I['yfit'], tolm, ys):
        ctx.disagree('fit2d:yfit', case, {'yfit': I['yfit']}, {'yfit': base.bf_(M['yfit']).tolist()})
        return
    if st == 0 and 'val' in I and M.get('val') is not None:
        if not base.vclose(base.bf_(M['val']), I['val'], tolm, ys) or M.get('valmask') != I['valmask']:
            ctx.disagree('fit2d:value', case, {'val': I['val'], 'mask': I['valmask']}, {'val': base.bf_(M['val']).tolist(), 'mask': M.get('valmask')})
            return
    if 'G' in info and M.get('alpha'):
        n, G, bw = info['n'] * m, info['G'], k * m
        al = np.array([base.bf_(r) for r in M['alpha']])
        ok = al.shape == (bw, n + bw)
        if ok:
            band = np.zeros((bw, n + bw))
            for r in range(min(bw, n)):
                band[r, :n - r] = np.diagonal(G, -r)
            gs = max(1e-300, float(np.max(np.abs(G))))
            be = base.bf_(M['beta'])
            ok = base.vclose(al, band, 1e-11, gs) and base.vclose(be[:n], info['rhs'], 1e-11, max(1e-300, float(np.max(np.abs(info['rhs']))))) \
                and np.all(be[n:] == 0)
        if not ok:
            ctx.disagree('model2d:alpha==TtWT', case, {'G': 'independent normal matrix of the tensor basis'}, {'alpha': 'differs'})
        ctx.count('fit2d:model-normal-equations-checked')


def run_fit2(ctx, cases, use_model=True):
    impls = [impl_fit2(c) for c in cases]
    models = core.driver_parallel([fit2_line(c) for c in cases], chunk=200) if use_model else [None] * len(cases)
    for c, im, mo in zip(cases, impls, models):
        check_fit2(ctx, c, im, mo)


# ---------------------------------------------------------------- exact run
def _q(v):
    return Fraction(v)


def polys_exact(func, npoly, x2, xmin, xmax):
    out = []
    for v in x2:
        t = 2 * (v - xmin) / (xmax - xmin) - 1
        if func == 'poly':
            row = [t ** l for l in range(npoly)]
        elif func == 'poly1':
            row = [t ** (l + 1) for l in range(npoly)]
        elif func == 'chebyshev':
            row = [Fraction(1), t]
            for l in range(2, npoly):
                row.append(2 * t * row[-1] - row[-2])
            row = row[:npoly]
        else:
            row = [Fraction(1), t]
            for l in range(2, npoly):
                row.append((Fraction(2 * l - 1) * t * row[-1] - Fraction(l - 1) * row[-2]) / l)
            row = row[:npoly]
        out.append(row)
    return out


def solve_exact2(case):
    k, m = case['nord'], case['npoly']
    mask = case['mask']
    t = [base._fr([b])[0] for b, g in zip(case['bk'], mask) if g]
    xs, x2, ys, ws = (base._fr(case[f]) for f in ('x', 'x2', 'y', 'w'))
    xmin, xmax = base._fr([case['xmin']])[0], base._fr([case['xmax']])[0]
    n = len(t) - k
    A = []
    for c0, vals in base.design_exact(t, k, xs):
        row = [Fraction(0)] * n
        for a, v in enumerate(vals):
            if 0 <= c0 + a < n:
                row[c0 + a] = v
        A.append(row)
    P = polys_exact(case['func'], m, x2, xmin, xmax)
    N = n * m
    T = [[A[p][j] * P[p][l] for j in range(n) for l in range(m)] for p in range(len(xs))]
    G = [[sum(ws[p] * T[p][a] * T[p][b] for p in range(len(xs)) if T[p][a] and T[p][b]) for b in range(N)] for a in range(N)]
    rhs = [sum(ws[p] * ys[p] * T[p][a] for p in range(len(xs)) if T[p][a]) for a in range(N)]
    # Gaussian elimination (G is positive definite on the selected cases)
    M = [row[:] + [r] for row, r in zip(G, rhs)]
    for c in range(N):
        piv = next((r for r in range(c, N) if M[r][c] != 0), None)
        if piv is None:
            return None
        M[c], M[piv] = M[piv], M[c]
        for r in range(c + 1, N):
            if M[r][c] != 0:
                f = M[r][c] / M[c][c]
                M[r] = [a - f * b for a, b in zip(M[r], M[c])]
    z = [Fraction(0)] * N
    for c in range(N - 1, -1, -1):
        z[c] = (M[c][N] - sum(M[c][j] * z[j] for j in range(c + 1, N))) / M[c][c]
    return {'z': z, 'T': T, 'G': G, 'rhs': rhs, 'N': N, 'n': n}


def run_fit2q(ctx, cases):
    if not cases:
        return
    models = core.driver_parallel([fit2_line(c, op='fit2q') for c in cases], chunk=4)
    for c, mo in zip(cases, models):
        case = dict(c, stream='fit2q')
        ctx.seen(case)
        if 'ok' not in mo or not mo.get('exact'):
            ctx.disagree('fit2q:no-exact-answer', case, {'expected': 'status 0, exact'}, mo)
            continue
        ex = solve_exact2(c)
        if ex is None:
            ctx.count('fit2q:singular-skipped')
            continue
        M = mo['ok']
        k, m = c['nord'], c['npoly']
        gm = [g for g in c['mask'][k:]]
        mc = [[base._q(s) for s in r] for r in M['coeff']]
        gj = [j for j, g in enumerate(gm) if g]
        z = [mc[l][gj[j]] for j in range(ex['n']) for l in range(m)]
        yf = [base._q(s) for s in M['yfit']]
        want_y = [sum(a * b for a, b in zip(row, ex['z']) if a) for row in ex['T']]
        if M['status'] != 0 or z != ex['z'] or yf != want_y:
            ctx.disagree('fit2q:exact-solution', case, {'z': [str(v) for v in ex['z']][:6]}, {'status': M['status'], 'z': [str(v) for v in z][:6]})
            continue
        al = [[base._q(s) for s in r] for r in M['alpha']]
        be = [base._q(s) for s in M['beta']]
        bw, N = k * m, ex['N']
        okb = all(al[r][cc] == (ex['G'][cc + r][cc] if cc + r < N else 0) for r in range(bw) for cc in range(N)) and be[:N] == ex['rhs']
        if not okb:
            ctx.disagree('fit2q:alpha==TtWT', case, {'G': 'exact normal matrix'}, {'alpha': 'differs'})
            continue
        # the float fit of the real code lies within tolerance of the exact solution
        im = impl_fit2(c)
        if 'ok' in im and im['ok']['status'] == 0:
            zf = flat_of(im['ok']['coeff'], c)
            ze = np.array([float(v) for v in ex['z']])
            info = analyse2(c)
            if not base.vclose(zf, ze, 1e-7 + 1e-11 * info.get('cond', 1.0), max(1e-300, float(np.max(np.abs(base.bf_(c['y'])))))):
                ctx.violate('fit2q:float-fit-far-from-exact', 'the float fit differs from the exact least-squares solution by %.3g' % float(np.max(np.abs(zf - ze))), case)
        ctx.count('fit2q:exact-match:%s' % c['func'])


def fit2q_select(cases, cap):
    out = []
    for c in cases:
        if len(out) >= cap:
            break
        if len(c['x']) <= 45 and c['ill'] == 'none' and all(c['mask']):
            info = analyse2(c)
            if info['cls'] == 'well' and info['n'] * c['npoly'] <= 16:
                out.append(c)
    return out


def directed_cases():
    """one small fixed case per funcname (seed independent)"""
    from pydl.pydlutils.bspline import bspline
    out = []
    x = np.linspace(0.0, 1.0, 24)
    x2 = (np.arange(24) * 7 % 11) / 10.0 - 0.2
    for func in FUNCS:
        for m in (2, 3):
            b = bspline(x, nord=3, npoly=m, nbkpts=3)
            bk = np.asarray(b.breakpoints, dtype='d')
            t = 2 * (x2 + 0.2) / 1.2 - 1
            y = (1 + 2 * x - x * x) * (t if func == 'poly1' else 1.0) * (0.5 + t)
            out.append({'stream': 'fit2d', 'nord': 3, 'npoly': m, 'func': func, 'xmin': core.f2b(-0.2), 'xmax': core.f2b(1.0), 'bk': base.fb(bk),
                        'mask': [True] * len(bk), 'coeff': [base.fb(np.zeros(len(bk) - 3)) for _ in range(m)], 'x': base.fb(x), 'x2': base.fb(x2),
                        'y': base.fb(y), 'w': base.fb(np.ones(24)), 'xe': base.fb([0.9, 0.1, 0.5]), 'x2e': base.fb([0.0, 0.7, 0.3]),
                        'ykind': 'tensor-poly', 'ill': 'none', 'lim': 'wide', 'directed': True})
    return out


def run(ctx, use_model=True):
    rng = ctx.rng
    cases = directed_cases()
    cases += [c for c in (gen_fit2(rng) for _ in range(ctx.n(140, 4000))) if c]
    ills = [c for c in (gen_fit2(rng, ill=True) for _ in range(ctx.n(60, 1500))) if c]
    run_fit2(ctx, cases + ills, use_model)
    if use_model:
        run_fit2q(ctx, fit2q_select(cases, ctx.n(8, 150)))

"""C10 - iterfit is order-independent and its mask honours weights and rejection limits (DESIGN §5 C10).

Streams (real pydl code next to the Lean model lean/PydlVerif/Model/IterFit.lean):
  iterfit   iterfit(x, y, invvar, upper, lower, maxiter, nord, <breakpoint option>) in the caller's order:
            breakpoints bit-exact, breakpoint mask and outmask exact, coefficients within tolerance
  full      (c10_full.py) the full call next to IterFit.iterfitFull: requiren, oldset histories, groupbadpix, "at most one good point left"
  x2        (c10_x2.py) iterfit(x2=, npoly=) next to IterFit.iterfit2 (2-D fit of C09), oracle over the tensor basis
Oracle (no pydl fit code, no model): the documented procedure re-implemented with scipy.interpolate.BSpline.design_matrix
+ numpy.linalg.lstsq + a direct rejection rule (fit - reject beyond lower/upper sigma - refit, until the mask no longer
changes or maxiter+1 passes were made); every permutation of small data sets / random permutations of larger ones;
(x_i, y_i) of non-positively weighted points altered; maxiter=0 against the plain weighted fit; invvar=None against the
explicit 1/variance.
"""
import itertools
import math
import numpy as np
from harness import core
from harness.props.c09 import fb, bf_, design, vclose, frame_of

ID = 'C10'
LEAN_MODULES = ['PydlVerif.Props.C10']   # imports Lemmas/IterFit.lean (tie equivariance lemmas), audited with it
P = 'PydlVerif.C10.'
THEOREMS = [P + t for t in (
    'iterLoop_succ', 'iterLoop_zero', 'iterBody_spec', 'iterLoop_stops', 'qdone_unchanged',
    'iterBody_mask_le', 'iterLoop_mask_le', 'iterCore_mask', 'nonpositive_never_used', 'masked_weight', 'initial_weights_nonneg',
    'maxiter_zero', 'perm_key', 'iterfit_perm',
    # extension round: tied abscissae, clear outliers
    'djsReject_equiv', 'normalSystem_equiv', 'action_rowinv', 'fit_same', 'fit_inv', 'fitEquiv_sorted', 'goodx_eq', 'iterBody_equiv',
    'iterLoop_equiv', 'iterCore_equiv', 'iterCore_perm_ties', 'iterfit_perm_ties',
    'clear_outlier_rejected', 'false_stays_false', 'clear_outlier_rejected_final',
    # second extension round: the full call (requiren, oldset, groupbadpix, at most one good point left)
    'rejectCall_eq', 'groupbadpix_irrelevant', 'maxrej_would_not_matter', 'iterBodyFull_spec', 'iterBodyFull_mask_le',
    'iterLoopFull_mask_le', 'iterCoreFull_mask', 'iterBodyFull_none', 'iterLoopFull_none', 'iterCoreFull_none',
    'iterfitFull_eq_iterfit', 'nonpositive_never_used_full', 'iterfitFull_perm',
    'fit_keeps', 'iterBodyFull_keeps', 'iterLoopFull_keeps', 'iterCoreFull_oldset', 'oldset_reuses_breakpoints',
    'setFalse_le', 'requirenWalk_le', 'iterfitFull_perm_ties_partial',
    # ... the second variable x2 (2-D fit)
    'iterBody2_spec', 'iterBody2_mask_le', 'iterLoop2_mask_le', 'iterCore2_mask', 'nonpositive_never_used_x2',
    'lmin_spec', 'lmax_spec', 'lmin_perm', 'lmax_perm', 'iterfit2_perm')]
RULE = ('cases = (n = 4..150 abscissae in caller order: sorted / reversed / shuffled, distinct or with ties) x (smooth signal + noise) x '
        '(0..k injected outliers of 20..300 sigma) x (invvar: constant / varying, with zero and negative entries) x (order 1..5) x '
        '(bkspace / nbkpts / everyn / explicit bkpt) x (lower, upper in {2.5, 3, 5, 10, None}) x (maxiter 0, 1, 2, 3, 10, 20); all '
        'permutations of data sets with n <= 5 (quick) / 6 (thorough), random permutations above. A case is non-trivial when the '
        'first fit is made; distinct = distinct case payloads. Second extension round, stream full: the same data x requiren in {1,2,3,5,8} '
        '(half with breakpoint intervals of about the point spacing) x groupbadpix; degenerate cases (limits 0/0, or one good point with nord 1); '
        'oldset histories: iterfit on A, then 1-2 calls iterfit(oldset=object) on other data rescaled into the old breakpoint range (8 % with '
        'no good point in the last step). Stream x2: n 20..90, npoly 1..3, x2 uniform on 3 ranges (6 % constant), y scaled linearly in x2')
TRUSTED = ['hand-written models lean/PydlVerif/Model/IterFit.lean, Model/IterFit2.lean (on the C08/C09/C17 models) tied to the code by the I/O correspondence of this run',
           'np.argsort returns a sorting permutation (handed to the model as a parameter); LAPACK kernels as in C09 (contract)',
           'scipy design_matrix + numpy lstsq as the independent oracle; the constructor of the breakpoints is the one verified by C08']
ASSUMPTIONS = ['invvar given (the invvar=None default is compared with the explicit 1/variance call); first model iterfit: x2=None, groupbadpix=False, no requiren/oldset; '
               'full model iterfitFull: requiren / oldset / groupbadpix / the branch "at most one good point left"; iterfit2: x2 with npoly (not combined with requiren/oldset); '
               'fullbkpt is refused by the code itself; oldset data are generated inside the range of the old breakpoints',
               'at least nord (and at least 2) points of positive weight and a fit that exists: when iterfit gives up (fewer good points than nord, '
               'fit status -2) it returns the initial all-True mask - outside the statement, counted, not judged',
               'a residual within 1e-6 (relative) of a rejection limit makes the case "near-threshold": counted, not judged',
               'the pass count follows the code: at most maxiter+1 passes (fit, reject); the returned mask is the one after the last rejection']

REL_MARGIN = 1e-6


# ---------------------------------------------------------------- real code
def kwargs_of(case):
    kw = {'nord': case['nord']}
    o = case['opt']
    if o[0] == 'bkpt':
        kw['bkpt'] = bf_(o[1]).copy()
    elif o[0] == 'bkspace':
        kw['bkspace'] = core.b2f(o[1])
    else:
        kw[o[0]] = o[1]
    return kw


_INPUT_CHANGED = []


def impl_iterfit(case, x=None, y=None, iv=None, use_none=False):
    from pydl.pydlutils.bspline import iterfit
    x = bf_(case['x']) if x is None else x
    y = bf_(case['y']) if y is None else y
    iv = bf_(case['iv']) if iv is None else iv
    kw = kwargs_of(case)
    lo = None if case['lower'] is None else core.b2f(case['lower'])
    up = None if case['upper'] is None else core.b2f(case['upper'])
    xa, ya, iva = x.copy(), y.copy(), iv.copy()
    try:
        with np.errstate(all='ignore'):
            if case.get('positional') and lo is not None and up is not None and not use_none:
                # documented signature iterfit(xdata, ydata, invvar=None, upper=5, lower=5, ...): the positional call is the same call
                sset, outmask = iterfit(xa, ya, iva, up, lo, maxiter=case['maxiter'], **kw)
            else:
                sset, outmask = iterfit(xa, ya, invvar=None if use_none else iva, lower=lo, upper=up,
                                        maxiter=case['maxiter'], **kw)
        # the caller's arrays are inputs: iterfit works on its own sorted copies (also when the data are already in order)
        for nm, p_, q_ in (('xdata', xa, x), ('ydata', ya, y), ('invvar', iva, iv)):
            if not np.array_equal(p_, q_, equal_nan=True) and len(_INPUT_CHANGED) < 20:
                _INPUT_CHANGED.append((case, nm))
        return {'ok': {'bk': fb(sset.breakpoints), 'bkmask': [bool(v) for v in np.atleast_1d(sset.mask)],
                       'coeff': [float(v) for v in np.atleast_1d(sset.coeff)], 'outmask': [bool(v) for v in np.atleast_1d(outmask)]}}, sset
    except Exception as e:
        return {'err': core.exc_kind(e), 'frame': frame_of(e)}, None


def model_line(case):
    x = bf_(case['x'])
    o = case['opt']
    opts = {'bkspread': core.f2b(1.0)}
    if o[0] == 'bkpt':
        opts['bkpt'] = o[1]
    elif o[0] == 'bkspace':
        opts['bkspace'] = o[1]
    else:
        opts[o[0]] = o[1]
    return {'p': 'C10', 'op': 'iterfit', 'x': case['x'], 'y': case['y'], 'iv': case['iv'], 'perm': [int(p) for p in x.argsort()],
            'lower': case['lower'], 'upper': case['upper'], 'maxiter': case['maxiter'], 'nord': case['nord'], 'opts': opts}


# ---------------------------------------------------------------- oracle: the documented procedure
class Degenerate(Exception):
    pass


def procedure(x, y, iv, t, k, lower, upper, maxiter, A=None):
    """fit - reject beyond lower/upper sigma - refit, until nothing changes or maxiter+1 passes; dense lstsq.
    Returns coefficients, mask (caller order), smallest relative distance of a residual from a limit, cond, passes."""
    # rows of points that can never be used stay zero (they may lie outside the breakpoint range, which is built
    # from the good points only); good points beyond a float32-rounded end knot get the polynomial extrapolation
    from scipy.interpolate import BSpline
    if A is None:
        A = np.zeros((len(x), len(t) - k))
        g = iv > 0
        tt = np.asarray(t, dtype='d')
        A[g] = BSpline.design_matrix(-x[g], -tt[::-1], k - 1, extrapolate=True).toarray()[:, ::-1]
    # (A given: the design matrix of another basis over the same points - the tensor basis of the 2-D fit, c10_x2.py)
    mask = iv > 0
    margin = np.inf
    cond = 1.0
    c = None
    passes = 0
    for _ in range(maxiter + 1):
        if mask.sum() <= 1:
            raise Degenerate()
        w = np.where(mask, iv, 0.0)
        sw = np.sqrt(w)
        G = A.T @ (A * w[:, None])
        cond = max(cond, np.linalg.cond(G))
        c = np.linalg.lstsq(A * sw[:, None], y * sw, rcond=None)[0]
        passes += 1
        with np.errstate(all='ignore'):
            res = (y - A @ c) * np.sqrt(np.where(iv > 0, iv, 0.0))
        bad = np.zeros(len(x), dtype=bool)
        for lim, sgn in ((lower, -1.0), (upper, 1.0)):
            if lim is not None:
                bad |= (sgn * res > lim)
                d = np.abs(sgn * res[mask] - lim) / max(1.0, abs(lim))
                if d.size:
                    margin = min(margin, float(d.min()))
        new = mask & ~bad
        if np.array_equal(new, mask):
            break
        mask = new
    return c, mask, margin, cond, passes


# ---------------------------------------------------------------- generators
def gen_case(rng, n=None, small=False):
    k = rng.choice([1, 2, 3, 4, 4, 4, 5]) if not small else rng.choice([1, 2, 2, 3])
    n = n or rng.choice([8, 12, 20, 35, 60, 100, rng.randrange(8, 150)])
    lo, span = rng.choice([(0.0, 1.0), (-5.0, 10.0), (3500.0, 6000.0), (0.1, 3.6)])
    ties = rng.random() < 0.12 and not small
    if rng.random() < 0.4:
        x = [lo + span * i / (n - 1) for i in range(n)]
    else:
        x = [lo + span * rng.random() for _ in range(n)]
    if ties:
        for _ in range(rng.randrange(1, 4)):
            x[rng.randrange(n)] = x[rng.randrange(n)]
    x = np.array(x)
    u = (x - lo) / span
    sig = rng.choice([0.01, 0.05, 1.0, 1e-3])
    amp = rng.choice([1.0, 1.0, 50.0])
    y = amp * (np.sin(4 * u + rng.random()) + 0.5 * u) + sig * amp * np.array([rng.gauss(0, 1) for _ in range(n)])
    ivk = rng.choice(['const', 'const', 'vary'])
    iv = np.full(n, 1.0 / (sig * amp) ** 2)
    if ivk == 'vary':
        iv = iv * np.array([rng.uniform(0.5, 2.0) for _ in range(n)])
    nbad = 0
    if rng.random() < 0.5:
        for i in rng.sample(range(n), rng.randrange(1, max(2, n // 6))):
            iv[i] = rng.choice([0.0, 0.0, -1.0, -iv[i]])
            nbad += 1
    gap = False
    if not small and n >= 30 and rng.random() < 0.15:
        # a run of zero-weight data several breakpoint intervals wide: the first fit drops breakpoints (status -1),
        # the loop must refit on the reduced knot set before any rejection
        srt = np.argsort(x, kind='stable')
        a = rng.randrange(n // 5, n // 2)
        for i in srt[a:a + rng.randrange(n // 4, n // 3 + 1)]:
            iv[i] = 0.0
        gap = True
    good = np.nonzero(iv > 0)[0]
    nout = 0
    outl = []
    if len(good) >= 15 and rng.random() < 0.7:
        nout = rng.randrange(1, min(5, len(good) // 15 + 1) + 1)
        for i in rng.sample(list(good), nout):
            y[i] += rng.choice([-1, 1]) * rng.uniform(20, 300) * sig * amp
            outl.append(int(i))
    fscale = None
    if not gap and rng.random() < 0.15:
        # data in physical units: y larger by 2^k, inverse variances smaller by 2^-2k (exact rescaling, the same problem)
        kk = rng.choice([-20, 15, 30, 40])
        fscale = 2.0 ** kk
        y = y * fscale
        iv = iv / (fscale * fscale)
    order = rng.choice(['sorted', 'reversed', 'shuffled', 'shuffled'])
    idx = list(np.argsort(x, kind='stable'))
    if order == 'reversed':
        idx = idx[::-1]
    elif order == 'shuffled':
        rng.shuffle(idx)
    x, y, iv = x[idx], y[idx], iv[idx]
    outl = [idx.index(i) for i in outl]
    ngood = int((iv > 0).sum())
    gx = np.sort(x[iv > 0])
    gspan = (gx[-1] - gx[0]) if ngood > 1 and gx[-1] > gx[0] else span
    ok = rng.choice(['bkspace', 'nbkpts', 'everyn', 'bkpt'])
    if gap:
        ok = 'nbkpts'
    if gap:
        opt = ('nbkpts', rng.randrange(10, 16))
    elif ok == 'bkspace' and rng.random() < 0.35:
        # a spacing that divides the range of the good points exactly (pixel grids: 0..10 in steps of 1)
        opt = ('bkspace', core.f2b(gspan / rng.randrange(2, max(3, min(9, int(ngood / (k + 1.0)) + 1)))))
    elif ok == 'bkspace':
        opt = ('bkspace', core.f2b(gspan / rng.uniform(1.3, max(1.5, min(8.0, ngood / (k + 1.0))))))
    elif ok == 'nbkpts':
        opt = ('nbkpts', rng.randrange(2, max(3, min(9, ngood // (k + 1) + 2))))
    elif ok == 'everyn':
        opt = ('everyn', rng.randrange(max(2, k), max(max(2, k) + 1, ngood // 2 + 1)))
    else:
        m = rng.randrange(2, max(3, min(7, ngood // (k + 1) + 2)))
        opt = ('bkpt', fb(sorted([gx[0], gx[-1]] + [gx[0] + gspan * rng.random() for _ in range(m - 2)])))
    # (a limit of exactly 0 is a limit: the envelope fit rejects everything on one side of the curve)
    lim = lambda: rng.choice([5.0, 5.0, 3.0, 2.5, 10.0, None, 0.0] if rng.random() < 0.25 else [5.0, 5.0, 3.0, 2.5, 10.0, None])
    return {'stream': 'iterfit', 'nord': k, 'x': fb(x), 'y': fb(y), 'iv': fb(iv), 'opt': list(opt),
            'lower': None if (l := lim()) is None else core.f2b(l), 'upper': None if (u_ := lim()) is None else core.f2b(u_),
            'maxiter': rng.choice([0, 1, 2, 3, 10, 10, 20]), 'order': order, 'ties': bool(len(set(x.tolist())) < n),
            'outliers': outl, 'nbad': nbad, 'gap': gap, 'fscale': fscale, 'positional': rng.random() < 0.3}


# ---------------------------------------------------------------- checking one case
def judge(ctx, case, impl, sset, model):
    ctx.seen(case)
    x, y, iv = bf_(case['x']), bf_(case['y']), bf_(case['iv'])
    n = len(x)
    k = case['nord']
    lo = None if case['lower'] is None else core.b2f(case['lower'])
    up = None if case['upper'] is None else core.b2f(case['upper'])
    ngood = int((iv > 0).sum())
    if 'err' in impl:
        ctx.count('iterfit:err:%s:%s' % (impl['err'], impl['frame']))
        if ngood >= max(2, k) and impl['frame'] not in ('__init__',):
            ctx.violate('iterfit:%s:%s' % (impl['err'], impl['frame']), 'iterfit raises %s in %s()' % (impl['err'], impl['frame']), case)
        elif model is not None and 'err' not in model and model.get('ok') is not None:
            ctx.disagree('iterfit:error', case, impl, {'ok': '...'})
        return
    I = impl['ok']
    t = bf_(I['bk'])
    om = np.array(I['outmask'])
    coeff = np.array(I['coeff'])
    allbk = all(I['bkmask'])
    domain = ngood >= max(2, k) and allbk and coeff.shape == (len(t) - k,)
    verdict = 'outside'
    info = None
    if domain:
        try:
            c, mask, margin, cond, passes = procedure(x, y, iv, t, k, lo, up, case['maxiter'])
            info = (c, mask, margin, cond, passes)
            verdict = 'near-threshold' if margin < REL_MARGIN else ('ill-conditioned' if cond > 1e8 else 'judged')
        except Degenerate:
            verdict = 'degenerate(<=1 point left; iterfit gives up with coeff=0)'
        except Exception as e:
            verdict = 'oracle-failed:' + type(e).__name__
    ctx.count('iterfit:%s:k=%d:maxiter=%d' % (verdict, k, case['maxiter']))
    # ---------------- statement-level oracle
    if om.shape != (n,):
        ctx.violate('iterfit:outmask:shape', 'outmask has shape %r for %d points' % (om.shape, n), case)
        return
    if verdict == 'judged':
        c, mask, margin, cond, passes = info
        ctx.count('oracle:passes=%d' % min(passes, 6))
        ys = max(1e-300, float(np.max(np.abs(y))))
        tol = 1e-7 + 1e-11 * cond
        if np.any(om[iv <= 0]):
            ctx.violate('iterfit:nonpositive-invvar-flagged-True', 'a point with invvar <= 0 has outmask True', case)
        elif not np.array_equal(om, mask):
            dif = np.nonzero(om != mask)[0]
            ctx.violate('iterfit:mask:differs-from-procedure', 'outmask differs from the documented fit-reject-refit procedure at %r (%d passes, margin %.2g)' % (
                dif[:8].tolist(), passes, margin), case)
        elif not vclose(coeff, c, tol, ys):
            ctx.violate('iterfit:curve:differs-from-procedure', 'coefficients differ from the procedure with an independent lstsq by %.3g (%d passes, cond %.3g)' % (
                float(np.max(np.abs(coeff - c))), passes, cond), case)
        else:
            if case['outliers'] and passes <= case['maxiter'] and lo is not None and up is not None:
                ctx.count('oracle:converged-with-outliers')
                if np.any(om[case['outliers']]) and max(lo, up) <= 10:
                    ctx.count('oracle:outlier-kept-by-procedure-too')
            if case['maxiter'] == 0:
                ctx.count('oracle:maxiter0-plain-fit')
            # permutations / altered bad points on the real code
            metamorphic(ctx, case, I, x, y, iv, tol, ys)
    elif verdict == 'outside' and ngood < max(2, k):
        ctx.count('iterfit:too-few-good-points(outside the statement)')
    if case.get('gap') and not case['outliers'] and (lo is None or lo >= 5) and (up is None or up >= 5):
        # breakpoints over the data gap are dropped and the fit repeated on the reduced knot set; the data are a smooth
        # signal with Gaussian noise and no outlier, the limits are >= 5 sigma: (almost) nothing may be rejected
        rej = int(((iv > 0) & ~om).sum())
        ctx.count('iterfit:gap-case:%s' % ('none-rejected' if rej == 0 else 'some-rejected'))
        # (counted, not judged: a reduced knot set can legitimately misfit the edges of the gap by many sigma - observed on
        #  the unchanged tree - so no statement-level verdict is drawn here; the correspondence with the model decides)
    # ---------------- correspondence with the model
    if model is None:
        return
    if 'driver_error' in model:
        ctx.disagree('iterfit:driver', case, {'ok': '...'}, model)
        return
    if 'err' in model:
        if model['err'] in ('Degenerate', 'Unmodelled'):
            ctx.count('model:refused:' + model['err'])
            return
        ctx.disagree('iterfit:model-error', case, {k_: I[k_] for k_ in ('bkmask', 'outmask')}, model)
        return
    M = model['ok']
    if M['bk'] == I['bk'] and M['bkmask'] != I['bkmask'] and not (all(M['bkmask']) and allbk):
        # breakpoints were dropped (fit status -1) on a nearly singular system after heavy rejection: whether the
        # diagonal screen / the Cholesky kernel gives up is a rounding matter (class "marginal" of C09)
        ctx.count('model:dropped-breakpoints-differ(marginal, not compared)')
        return
    if M['bk'] != I['bk'] or M['bkmask'] != I['bkmask']:
        ctx.disagree('iterfit:breakpoints', case, {'bk': I['bk'], 'bkmask': I['bkmask']}, {'bk': M['bk'], 'bkmask': M['bkmask']})
        return
    if verdict not in ('judged', 'outside'):
        ctx.count('model:not-compared:' + verdict.split(':')[0])
        return
    if M['outmask'] != I['outmask']:
        ndiff = sum(1 for a_, b_ in zip(M['outmask'], I['outmask']) if a_ != b_)
        if verdict == 'judged':
            ctx.disagree('iterfit:outmask', case, {'outmask': I['outmask']}, {'outmask': M['outmask']})
        elif (ndiff > max(2, n // 20) and case.get('gap') and not all(M['outmask']) and not all(I['outmask']) and not case.get('ties')
              and all(l_ is None or core.b2f(l_) >= 2.5 for l_ in (case['lower'], case['upper']))):
            # (second false alarm of this comparison, quick seed 74: tied abscissae and an envelope limit of 0 on a gap case -
            #  it now needs distinct abscissae and ordinary limits)
            # (an all-True answer of either side is iterfit's / the model's "gave up on a singular reduced knot set" exit,
            #  reached or not by rounding: outside the statement, see LEVEL_NOTE)
            # without a known margin one or two points may sit on a limit; many differing points are not a rounding matter
            ctx.disagree('iterfit:outmask(many points, dropped breakpoints)', case, {'outmask': I['outmask']}, {'outmask': M['outmask']})
        else:
            ctx.count('model:outmask-differs-unjudged(no margin known)')
        return
    cond = info[3] if info else 1e6
    if not vclose(bf_(M['coeff']), coeff, 100 * (1e-9 + 1e-13 * cond), max(1e-300, float(np.max(np.abs(y))))):
        if verdict == 'judged':
            ctx.disagree('iterfit:coeff', case, {'coeff': I['coeff']}, {'coeff': bf_(M['coeff']).tolist()})
        else:
            ctx.count('model:coeff-differs-unjudged')


def metamorphic(ctx, case, I, x, y, iv, tol, ys):
    rng = ctx.rng
    n = len(x)
    om = np.array(I['outmask'])
    coeff = np.array(I['coeff'])
    # --- permutation of (x, y, invvar)
    if rng.random() < 0.5 or n <= 6:
        perms = [list(p) for p in itertools.permutations(range(n))] if n <= 6 and case.get('allperms') else \
            [rng.sample(range(n), n) for _ in range(2)]
        for s in perms:
            s = np.array(s)
            o2, _ = impl_iterfit(case, x[s], y[s], iv[s])
            ctx.count('perm:checked')
            if 'ok' not in o2:
                ctx.violate('iterfit:perm:raises', 'permuted input raises %s' % o2.get('err'), dict(case, s=s.tolist()))
                return
            same_curve = o2['ok']['bk'] == I['bk'] and vclose(o2['ok']['coeff'], coeff, tol, ys)
            same_mask = o2['ok']['outmask'] == om[s].tolist()
            if case['ties']:
                # exact arithmetic: iterfit_perm_ties (same curve, permuted mask); in floating point the tied points enter the
                # sums in another order, so a difference is a rounding matter and is counted, not judged
                ctx.count('perm:ties-agree' if same_curve and same_mask else 'perm:ties-differ(not judged)')
                if not (same_curve and same_mask):
                    continue
            if not same_curve:
                ctx.violate('iterfit:perm:curve-changes', 'permuting (x, y, invvar) changes the fitted curve', dict(case, s=s.tolist()))
                return
            if not same_mask:
                ctx.violate('iterfit:perm:mask-not-permuted', 'outmask of the permuted input is not the permuted outmask', dict(case, s=s.tolist()))
                return
    # --- (x_i, y_i) of non-positively weighted points do not matter
    bad = np.nonzero(iv <= 0)[0]
    if len(bad) and rng.random() < 0.6:
        r2 = np.random.RandomState(rng.randrange(2 ** 31))
        x2, y2 = x.copy(), y.copy()
        gx = x[iv > 0]
        y2[bad] = y2[bad] + r2.normal(0, 10 * ys, len(bad))
        x2[bad] = r2.uniform(gx.min(), gx.max(), len(bad))
        o2, _ = impl_iterfit(case, x2, y2, iv)
        ctx.count('badpoints:altered')
        if 'ok' not in o2 or o2['ok']['bk'] != I['bk'] or not vclose(o2['ok']['coeff'], coeff, tol, ys) or \
                o2['ok']['outmask'] != I['outmask']:
            ctx.violate('iterfit:depends-on-nonpositive-weight-point', 'altering (x, y) of points with invvar <= 0 changes the result', case)


def run_cases(ctx, cases):
    impls = [impl_iterfit(c) for c in cases]
    models = core.driver_parallel([model_line(c) for c in cases], chunk=100, workers=16)
    for c, (im, sset), mo in zip(cases, impls, models):
        judge(ctx, c, im, sset, mo)
    while _INPUT_CHANGED:
        c, nm = _INPUT_CHANGED.pop()
        ctx.violate('iterfit:modifies-input:' + nm, 'iterfit changed the caller\'s %s array (a second call with the same arrays then sees other data: '
                    'the weights of rejected points are gone)' % nm, c)


def run(ctx):
    core.audit(ctx, LEAN_MODULES, THEOREMS)
    rng = ctx.rng
    cases = [gen_case(rng) for _ in range(ctx.n(900, 25000))]
    # bounded family: small data sets, ALL permutations of the input
    for n in ([4, 5] if ctx.tier == 'quick' else [4, 5, 6]):
        for _ in range(ctx.n(3, 6) if n < 6 else 2):
            c = gen_case(rng, n=n, small=True)
            c['allperms'] = True
            cases.append(c)
    run_cases(ctx, cases)
    # invvar=None default against the explicit 1/variance
    from pydl.pydlutils.bspline import iterfit  # noqa
    for c in cases[:ctx.n(60, 600)]:
        y = bf_(c['y'])
        n = len(y)
        var = y.var() * (float(n) / float(n - 1))
        iv = np.ones(n) / (var if var != 0 else 1.0)
        a, _ = impl_iterfit(c, iv=iv)
        b, _ = impl_iterfit(c, use_none=True)
        ctx.count('invvar-none:checked')
        if a != b:
            ctx.violate('iterfit:invvar-none', 'iterfit(invvar=None) differs from iterfit(invvar=1/variance)', c)
    # the rejection step of the documented procedure on its own ("reject points BEYOND lower / upper sigma": strictly), on the
    # exact grid of C17's check where residuals hit the limits exactly - the rule iterfit applies in every pass
    from harness.props import c17 as _c17
    sub = [c for c in _c17._gen_rej(ctx) if c['kind'] == 'grid' and c['smode'] == 'invvar' and c.get('maxdev') is None
           and not c['sticky'] and c['grow'] == 0][:ctx.n(150, 2000)]
    for L in (1.0, 2.0, 4.0):
        for U in (1.0, 2.0, 4.0):
            for iv_ in (1.0, 4.0, 0.25, 16.0):
                u = 1.0 / math.sqrt(iv_)
                model_ = [0.5, -1.25, 2.0, 0.0, 3.5, -0.75]
                diffs = [-L * u, U * u, -2 * L * u, 2 * U * u, 0.0, -0.5 * L * u]       # exactly on the limits, beyond, inside
                sub.append({'stream': 'rej', 'kind': 'grid', 'shape': [6], 'data': [m_ + d_ for m_, d_ in zip(model_, diffs)], 'model': model_,
                            'outmask': None, 'inmask': None, 'smode': 'invvar', 's': [iv_] * 6, 'lower': L, 'upper': U, 'maxdev': None,
                            'sticky': False, 'grow': 0})
    _c17._reject(ctx, sub)
    ctx.count('reject-rule:exact-grid-cases', len(sub))
    # second extension round: the full call (requiren / oldset histories / groupbadpix / at most one good point left)
    from harness.props import c10_full
    c10_full.run_full(ctx)
    # ... and the call with the second variable x2 (2-D fit through iterfit)
    from harness.props import c10_x2
    c10_x2.run_x2(ctx)
    if ctx.disagreements:
        n0 = len(cases)
        more = [gen_case(rng) for _ in range(60)]
        for c in more:
            im, sset = impl_iterfit(c)
            judge(ctx, c, im, sset, None)
        ctx.notes.append('directed failing-input search ran on %d oracle-only cases' % len(more))


def replay(ctx, case):
    core.audit(ctx, LEAN_MODULES, THEOREMS)
    if case.get('stream') == 'full':
        from harness.props import c10_full
        c10_full.replay_full(ctx, case)
        return
    if case.get('stream') == 'x2':
        from harness.props import c10_x2
        c10_x2.replay_x2(ctx, case)
        return
    case = {k: v for k, v in case.items() if k != 's'}
    run_cases(ctx, [case])


LEVEL_TEXT = ('Machine-checked Lean 4 theorems over an executable model of iterfit (sort, initial mask invvar>0, object built from the good '
              'points, the fit - djs_reject - refit loop, un-sorting of the mask), for all data, weights, orders, breakpoint options, limits and '
              'maxiter: iterfit_perm / iterfit_perm_ties - for ANY data (tied abscissae included) and ANY sorting permutations argsort may return '
              '(they may order tied points differently), permuting (x, y, invvar) by sigma gives the identical spline object and outmask '
              'composed with sigma (errors included): the sorted core is equivariant under every re-indexing tau of the work arrays that fixes '
              'the sorted abscissae (iterCore_perm_ties: the assembled normal equations are sums over the points - normalSystem_equiv, fit_same - '
              'yfit depends on x only - fit_inv - djs_reject is pointwise for the options iterfit uses - djsReject_equiv - the good abscissae '
              'and hence the knots are the same list - goodx_eq); clear_outlier_rejected(_final) - a point the mask still had whose scaled '
              'residual (y - yfit)*sqrt(invvar) against the curve of a status-0 pass is below -lower or above upper is False after that pass and '
              '(false_stays_false) in the mask the loop ends with (C17 reject_mask); nonpositive_never_used - unless iterfit gives up, '
              'a point with invvar not > 0 is False in the returned mask (caller order), masks only decrease from pass to pass '
              '(iterLoop_mask_le), and masked points enter fit with weight exactly 0 (masked_weight; C09 fit_zero_weight); maxiter_zero - the '
              'loop is one pass with the weights invvar*(invvar>0), hence by C09 fit_optimum the weighted least-squares optimum of the positively '
              'weighted points; loop_is_documented_procedure - iterLoop_succ / iterBody_spec / iterLoop_stops / qdone_unchanged: every pass is '
              'fit(invvar*mask) then djs_reject(inmask = outmask = mask, invvar, lower, upper), a status -1 keeps the mask and refits, and the loop '
              'ends exactly when the last fit succeeded and the mask did not change, or after maxiter+1 passes. Tied to the repository on every '
              'run by I/O correspondence (breakpoints bit-exact, masks exact, coefficients within tolerance) and by an independent oracle: the '
              'documented procedure re-implemented with scipy design_matrix + numpy lstsq + a direct rejection rule, all permutations of small data '
              'sets and random permutations of larger ones, altered (x, y) at non-positively weighted points, maxiter=0, invvar=None. '
              'Second extension round - the FULL call iterfitFull (requiren walk, oldset, groupbadpix, the branch "at most one good point left") and '
              'iterfit2 (x2, npoly): iterfitFull_eq_iterfit - without requiren/oldset the full model returns what iterfit returns, so all theorems '
              'above transfer; iterfitFull_perm / iterfit2_perm - for distinct abscissae and any sorting permutations, permuting (x, y, invvar[, x2]) '
              'together leaves the object (2-D: incl. xmin, xmax, the (npoly, nc) coefficients; lmin_perm / lmax_perm) unchanged and permutes the mask, '
              'for every requiren / oldset / groupbadpix (iterfitFull_perm_ties_partial: with tied abscissae too, as long as the first model answers, i.e. '
              'without requiren/oldset and outside the degenerate branch); oldset_reuses_breakpoints - the object returned for oldset=b has the '
              'breakpoints and the order of b; requirenWalk_le - the requiren block only switches breakpoints off; nonpositive_never_used_full / _x2 and iterLoopFull_mask_le / iterLoop2_mask_le - masks only '
              'shrink, invvar not > 0 => False; groupbadpix_irrelevant and maxrej_would_not_matter (C17 maxrej_never_limits) - the result does not '
              'depend on groupbadpix, and no maxrej could limit the rejection on iterfit\'s 1-D arrays. Streams full (requiren, degenerate, oldset '
              'histories with the object state sent to the model) and x2, with the documented procedure on the old breakpoints / over the tensor basis '
              'B_j(x)*P_l(x2) as the independent oracle.')
LEVEL_NOTE = ('iterfit_perm_ties is an exact-arithmetic statement (the sums of fit are order-independent over a field); in floating point tied '
              'points enter the sums in another order, so the harness counts tie cases (perm:ties-agree / perm:ties-differ) without judging a '
              'difference. "Clear outlier" is proved per pass against the curve of that pass (no statement that an injected k-sigma outlier exceeds '
              'the limit of the first fit - that depends on the data; the oracle checks the whole procedure on the real code). Since the second extension round '
              'groupbadpix, requiren, oldset and the branch "at most one good point left" (the code stores the int 0 as coefficients: flag cz) are inside the '
              'model (iterfitFull) and x2 / npoly is modelled by iterfit2 on the 2-D fit of C09; maxrej cannot be passed through iterfit (TypeError of '
              'the bspline constructor, observed every run). iterfitFull_perm and iterfit2_perm need distinct abscissae: with requiren the statement is '
              'false for tied abscissae (the walk leaves out the last sorted point; which of two tied points is last is up to argsort); for oldset / x2 '
              'the tie version is not proved. Not judged in the new streams (counted): limits of exactly 0, and fits on singular systems after heavy '
              'rejection / dropped breakpoints (status -1/-2 reached on one side only, class "marginal"; more than 3 % of them is a disagreement). '
              'requiren and oldset are not in the property statement: their oracle is the permutation / non-positive-weight / procedure-on-the-old-'
              'breakpoints check, requiren itself is tied to the code by correspondence only. When iterfit gives up (fewer good points than nord, fit status -2) it returns the initial all-True mask - '
              'excluded from nonpositive_never_used and from the oracle. The optimality statement rests on the C09 theorems (fit_is_optimum / '
              'fit_optimum_sorted: LAPACK by contract only; the Rows hypothesis is discharged for the sorted work arrays iterfit hands to fit). '
              'Theorems are over exact ordered fields; residuals within 1e-6 of a limit and ill-conditioned fits are not judged.')

"""C10, second extension round: the FULL iterfit call next to the Lean model `IterFit.iterfitFull`
(lean/PydlVerif/Model/IterFit.lean): requiren=, oldset= (histories: fit, then iterfit(oldset=that object) on other data,
up to three calls on the same object), groupbadpix=, and the branch "at most one good point left" (coeff = the int 0).

Stream `full`: breakpoints bit-exact, breakpoint mask, `coeff is the int 0` flag and outmask exact, coefficients within
tolerance, exception kinds equal.  Oracle (statement level, real code only): oldset calls against the documented procedure
(`c10.procedure`, scipy design matrix + lstsq) on the OLD object's breakpoints; permutation of (x, y, invvar) for every
option (distinct abscissae: same object, permuted mask); invvar <= 0 => False; groupbadpix=True gives the result of
groupbadpix=False; a `maxrej` keyword cannot reach djs_reject (TypeError of the bspline constructor).
"""
import numpy as np
from harness import core
from harness.props.c09 import fb, bf_, vclose, frame_of
from harness.props import c10 as base


MARGINAL = 'full:dropped-breakpoints-differ(marginal, not compared)'


def _lim(case, k):
    return None if case[k] is None else core.b2f(case[k])


class _Obj:
    """state of a bspline object as sent to the model"""


def obj_state(sset):
    return {'nord': int(sset.nord), 'bk': fb(sset.breakpoints), 'mask': [bool(v) for v in np.atleast_1d(sset.mask)],
            'coeff': fb(np.atleast_1d(np.asarray(sset.coeff, dtype='d')))}


def call_real(case, x, y, iv, oldobj=None, extra=None):
    """one real iterfit call with the options of `case`; returns (result dict, sset)"""
    from pydl.pydlutils.bspline import iterfit
    kw = base.kwargs_of(case) if oldobj is None or case.get('kw_with_old') else {}
    if case.get('requiren') is not None:
        kw['requiren'] = case['requiren']
    if oldobj is not None:
        kw['oldset'] = oldobj
    if case.get('groupbadpix') is not None:
        kw['groupbadpix'] = case['groupbadpix']
    if extra:
        kw.update(extra)
    try:
        with np.errstate(all='ignore'):
            sset, outmask = iterfit(x.copy(), y.copy(), invvar=iv.copy(), lower=_lim(case, 'lower'), upper=_lim(case, 'upper'),
                                    maxiter=case['maxiter'], **kw)
        cz = not isinstance(sset.coeff, np.ndarray)
        return {'ok': {'bk': fb(sset.breakpoints), 'bkmask': [bool(v) for v in np.atleast_1d(sset.mask)], 'cz': cz,
                       'coeff': [] if cz else [float(v) for v in sset.coeff], 'outmask': [bool(v) for v in np.atleast_1d(outmask)]}}, sset
    except Exception as e:
        return {'err': core.exc_kind(e), 'frame': frame_of(e)}, None


def model_line(case, x, iv_unused=None, old=None):
    ln = base.model_line(case)
    ln['op'] = 'iterfit_full'
    if case.get('requiren') is not None:
        ln['requiren'] = case['requiren']
    if case.get('groupbadpix'):
        ln['groupbadpix'] = True
    if old is not None:
        ln['oldset'] = old
    return ln


# ---------------------------------------------------------------- generators
def gen_requiren(rng):
    c = base.gen_case(rng)
    c['stream'] = 'full'
    c['kind'] = 'requiren'
    c['requiren'] = rng.choice([1, 1, 2, 2, 3, 5, 8])
    c['groupbadpix'] = rng.random() < 0.5
    if rng.random() < 0.5 and c['opt'][0] != 'bkpt':
        # breakpoint intervals of about the size of the point spacing, so that some hold fewer than `requiren` points
        n = len(c['x'])
        x = bf_(c['x'])
        span = float(x.max() - x.min()) or 1.0
        c['opt'] = ['bkspace', core.f2b(span / max(2.0, n / rng.uniform(1.5, 4.0)))]
    return c


def gen_degenerate(rng):
    """at most one good point left: envelope limits of 0 on both sides (every point off the curve is rejected), or one
    positively weighted point with nord = 1"""
    c = base.gen_case(rng, n=rng.choice([6, 10, 20, 40]))
    c['stream'] = 'full'
    c['kind'] = 'degenerate'
    c['requiren'] = None
    c['groupbadpix'] = rng.random() < 0.3
    if rng.random() < 0.6:
        c['lower'] = core.f2b(0.0)
        c['upper'] = core.f2b(0.0)
        c['maxiter'] = rng.choice([1, 2, 3, 10])
    else:
        iv = bf_(c['iv'])
        keep = rng.randrange(len(iv))
        iv2 = np.where(np.arange(len(iv)) == keep, abs(iv[keep]) or 1.0, rng.choice([0.0, -1.0]))
        c['iv'] = fb(iv2)
        c['nord'] = 1
        c['opt'] = ['nbkpts', rng.randrange(2, 5)]
        c['outliers'] = []
    return c


def gen_history(rng):
    """iterfit on data A, then iterfit(oldset=object) on other data inside the range of the old breakpoints (1-2 times)"""
    a = base.gen_case(rng)
    a['stream'] = 'full'
    a['kind'] = 'oldset'
    a['requiren'] = rng.choice([None, None, None, 1, 2])
    a['groupbadpix'] = rng.random() < 0.3
    steps = []
    for _ in range(rng.choice([1, 1, 2])):
        b = base.gen_case(rng)
        steps.append({k: b[k] for k in ('x', 'y', 'iv', 'lower', 'upper', 'maxiter', 'outliers')})
    a['steps'] = steps
    a['all_bad_step'] = rng.random() < 0.08
    a['kw_with_old'] = rng.random() < 0.3
    return a


def rescale_into(xb, lo, hi):
    mn, mx = float(xb.min()), float(xb.max())
    if mx == mn:
        return np.full(xb.shape, 0.5 * (lo + hi))
    u = (xb - mn) / (mx - mn)
    return lo + u * (hi - lo) * 0.999 + (hi - lo) * 0.0005


# ---------------------------------------------------------------- comparison
def compare(ctx, tag, case, impl, model, n, limits_zero):
    """model next to code for one call; returns True when comparable and equal"""
    if model is None:
        return False
    if 'driver_error' in model:
        ctx.disagree('full:driver', case, impl if 'err' in impl else {'ok': '...'}, model)
        return False
    if 'err' in impl:
        ctx.count('full:%s:err:%s:%s' % (tag, impl['err'], impl['frame']))
        if 'err' in model and model['err'] in ('Unmodelled',):
            ctx.count('full:model:refused:' + model['err'])
            return False
        if 'err' not in model or model['err'] != impl['err']:
            ctx.disagree('full:error', case, impl, model if 'err' in model else {'ok': '...'})
        return False
    I = impl['ok']
    if 'err' in model:
        if model['err'] == 'Unmodelled':
            ctx.count('full:model:refused:Unmodelled')
            return False
        ctx.disagree('full:model-error', case, {k: I[k] for k in ('bkmask', 'cz', 'outmask')}, model)
        return False
    M = model['ok']
    if M['bk'] != I['bk']:
        ctx.disagree('full:breakpoints', case, {'bk': I['bk']}, {'bk': M['bk']})
        return False
    if limits_zero:
        # a limit of exactly 0 rejects by the SIGN of a residual; where the curve passes through a point the sign is rounding
        ctx.count('full:%s:limit-0(bk compared only)' % tag)
        return False
    if M['cz'] != I['cz'] or M['bkmask'] != I['bkmask']:
        if not (all(M['bkmask']) and all(I['bkmask'])):
            # breakpoints were dropped and a later fit ran on a nearly singular system (few points left for many
            # coefficients): whether the Cholesky kernel gives up there (status -1, maskpoints) is a rounding matter -
            # class "marginal" of C09.  Counted; run_full turns an unusual NUMBER of them into a disagreement.
            ctx.count(MARGINAL)
            return False
        ctx.disagree('full:bkmask/cz', case, {'bkmask': I['bkmask'], 'cz': I['cz']}, {'bkmask': M['bkmask'], 'cz': M['cz']})
        return False
    if M['outmask'] != I['outmask']:
        if (not all(I['bkmask']) and (all(M['outmask']) or all(I['outmask']))) or final_cond(
                bf_(case['x']), bf_(case['iv']), np.array(I['outmask']), bf_(I['bk'])[np.array(I['bkmask'])], case['nord']) > 1e8:
            # as above: a fit on a (nearly) singular system - after heavy rejection fewer good points than coefficients -
            # ends with status -1 / -2 (iterfit gives up, all-True mask) on one side and not on the other
            ctx.count(MARGINAL)
            return False
        ctx.disagree('full:outmask', case, {'outmask': I['outmask']}, {'outmask': M['outmask']})
        return False
    if not I['cz']:
        x, y, iv = bf_(case['x']), bf_(case['y']), bf_(case['iv'])
        if not vclose(bf_(M['coeff']), np.array(I['coeff']), 1e-6, max(1e-300, float(np.max(np.abs(y))))):
            cond = final_cond(x, iv, np.array(I['outmask']), bf_(I['bk'])[np.array(I['bkmask'])], case['nord'])
            if cond <= 1e8 and not vclose(bf_(M['coeff']), np.array(I['coeff']), 1e-6 + 1e-10 * cond, max(1e-300, float(np.max(np.abs(y))))):
                ctx.disagree('full:coeff', case, {'coeff': I['coeff']}, {'coeff': bf_(M['coeff']).tolist()})
            else:
                ctx.count('full:%s:coeff-differs(ill-conditioned final system, not judged)' % tag)
            return False
    ctx.count('full:%s:agree%s' % (tag, ':cz' if I['cz'] else ('' if all(I['bkmask']) else ':breakpoints-dropped')))
    return True


def final_cond(x, iv, om, gb, k):
    """condition number of the normal equations of the points still good at the end, on the good breakpoints"""
    from scipy.interpolate import BSpline
    try:
        g = (iv > 0) & om
        if g.sum() < len(gb) - k or len(gb) < 2 * k:
            return np.inf
        A = BSpline.design_matrix(-x[g], -np.asarray(gb, dtype='d')[::-1], k - 1, extrapolate=True).toarray()
        return float(np.linalg.cond(A.T @ (A * iv[g][:, None])))
    except Exception:
        return np.inf


def oracle(ctx, tag, case, impl, x, y, iv, k):
    """statement level, real code only"""
    if 'err' in impl:
        ngood = int((iv > 0).sum())
        if case.get('requiren') is not None:
            # (the requiren walk subscripts goodbk[ileft+1] one past the end for nord = 1: IndexError of the code as it is,
            #  reproduced by the model; the statement is silent on requiren)
            ctx.count('full:%s:requiren-walk-raises:%s' % (tag, impl['err']))
        elif case['kind'] == 'oldset' and tag != 'first' and ngood >= max(2, k):
            ctx.violate('iterfit:oldset:%s:%s' % (impl['err'], impl['frame']),
                        'iterfit(oldset=<object of an earlier iterfit>) raises %s in %s()' % (impl['err'], impl['frame']), case)
        return None
    I = impl['ok']
    om = np.array(I['outmask'])
    n = len(x)
    if om.shape != (n,):
        ctx.violate('iterfit:outmask:shape', 'outmask has shape %r for %d points' % (om.shape, n), case)
        return None
    lo, up = _lim(case, 'lower'), _lim(case, 'upper')
    gave_up = bool(om.all()) and bool((iv <= 0).any())
    if not gave_up and np.any(om[iv <= 0]):
        ctx.violate('iterfit:nonpositive-invvar-flagged-True', 'a point with invvar <= 0 has outmask True (%s)' % tag, case)
        return None
    if I['cz'] or not all(I['bkmask']) or case.get('requiren') is not None:
        return None
    ngood = int((iv > 0).sum())
    t = bf_(I['bk'])
    if ngood < max(2, k) or len(I['coeff']) != len(t) - k:
        return None
    try:
        c, mask, margin, cond, passes = base.procedure(x, y, iv, t, k, lo, up, case['maxiter'])
    except Exception:
        ctx.count('full:%s:oracle-not-applicable' % tag)
        return None
    if margin < base.REL_MARGIN or cond > 1e8:
        ctx.count('full:%s:oracle:near-threshold/ill-conditioned' % tag)
        return None
    ctx.count('full:%s:oracle:judged' % tag)
    ys = max(1e-300, float(np.max(np.abs(y))))
    if not np.array_equal(om, mask):
        ctx.violate('iterfit:%s:mask:differs-from-procedure' % case['kind'],
                    'outmask differs from the documented procedure on the given breakpoints (%s)' % tag, case)
    elif not vclose(np.array(I['coeff']), c, 1e-7 + 1e-11 * cond, ys):
        ctx.violate('iterfit:%s:curve:differs-from-procedure' % case['kind'],
                    'coefficients differ from the documented procedure on the given breakpoints (%s)' % tag, case)
    return True


def perm_check(ctx, case, impl, x, y, iv, mk_old):
    """permuting (x, y, invvar) - distinct abscissae - gives the same object and the permuted mask, whatever the options"""
    if 'ok' not in impl or len(set(x.tolist())) < len(x):
        return
    I = impl['ok']
    s = np.array(ctx.rng.sample(range(len(x)), len(x)))
    o2, _ = call_real(case, x[s], y[s], iv[s], oldobj=mk_old() if mk_old else None)
    ctx.count('full:perm:checked:%s' % case['kind'])
    if 'ok' not in o2:
        ctx.violate('iterfit:perm:raises', 'permuted input raises %s (%s)' % (o2.get('err'), case['kind']), dict(case, s=s.tolist()))
        return
    J = o2['ok']
    lz = any(l_ is not None and l_ == 0.0 for l_ in (_lim(case, 'lower'), _lim(case, 'upper')))
    if J['bk'] != I['bk']:
        ctx.violate('iterfit:perm:curve-changes', 'permuting (x, y, invvar) changes the breakpoints (%s)' % case['kind'], dict(case, s=s.tolist()))
    elif lz:
        ctx.count('full:perm:limit-0(not judged)')
    elif J['bkmask'] != I['bkmask'] or J['cz'] != I['cz'] or J['outmask'] != np.array(I['outmask'])[s].tolist():
        ctx.violate('iterfit:perm:mask-not-permuted', 'outmask / breakpoint mask of the permuted input is not the permuted one (%s)' % case['kind'],
                    dict(case, s=s.tolist()))
    elif not I['cz'] and not vclose(np.array(J['coeff']), np.array(I['coeff']), 1e-6, max(1e-300, float(np.max(np.abs(y))))):
        ctx.violate('iterfit:perm:curve-changes', 'permuting (x, y, invvar) changes the coefficients (%s)' % case['kind'], dict(case, s=s.tolist()))


def lz_of(case):
    return any(l_ is not None and l_ == 0.0 for l_ in (_lim(case, 'lower'), _lim(case, 'upper')))


def run_single(ctx, cases):
    """requiren / degenerate cases: one call each"""
    impls = []
    for c in cases:
        x, y, iv = bf_(c['x']), bf_(c['y']), bf_(c['iv'])
        impls.append(call_real(c, x, y, iv))
    models = core.driver_parallel([model_line(c, None) for c in cases], chunk=100, workers=16)
    for c, (im, sset), mo in zip(cases, impls, models):
        ctx.seen(c)
        x, y, iv = bf_(c['x']), bf_(c['y']), bf_(c['iv'])
        tag = c['kind']
        ctx.count('full:case:%s:k=%d%s%s' % (tag, c['nord'], '' if c.get('requiren') is None else ':requiren=%d' % c['requiren'],
                                             ':groupbadpix' if c.get('groupbadpix') else ''))
        oracle(ctx, tag, c, im, x, y, iv, c['nord'])
        compare(ctx, tag, c, im, mo, len(x), lz_of(c))
        if 'ok' in im and c.get('groupbadpix') is not None:
            # groupbadpix is read by djs_reject only under `maxrej is not None`, which iterfit cannot set
            c2 = dict(c, groupbadpix=not c['groupbadpix'])
            o2, _ = call_real(c2, x, y, iv)
            ctx.count('full:groupbadpix-flipped:checked')
            if o2 != im:
                ctx.violate('iterfit:groupbadpix-changes-result', 'iterfit(groupbadpix=True) differs from groupbadpix=False on 1-D data', c)
        if ctx.rng.random() < 0.35:
            perm_check(ctx, c, im, x, y, iv, None)
        if ctx.rng.random() < 0.05:
            import contextlib, io
            with contextlib.redirect_stdout(io.StringIO()):      # (iterfit prints its kwargs before re-raising)
                o3, _ = call_real(c, x, y, iv, extra={'maxrej': 1})
            ctx.count('full:maxrej-keyword:%s' % (o3.get('err', 'accepted') + ':' + o3.get('frame', '')))
            if 'err' not in o3:
                ctx.notes.append('iterfit accepted a maxrej keyword: the model assumes it cannot reach djs_reject')
                ctx.disagree('full:maxrej-accepted', c, {'ok': '...'}, {'err': 'TypeError'})


def run_histories(ctx, cases):
    lines, meta = [], []
    for c in cases:
        ctx.seen(c)
        x, y, iv = bf_(c['x']), bf_(c['y']), bf_(c['iv'])
        im, sset = call_real(c, x, y, iv)
        ctx.count('full:history:first:%s' % ('ok' if 'ok' in im else im['err']))
        if sset is None or not isinstance(sset.coeff, np.ndarray):
            continue
        k = int(sset.nord)
        bk = np.array(sset.breakpoints, dtype='d')
        lo_, hi_ = float(bk[k - 1]) if len(bk) >= 2 * k else float(bk[0]), float(bk[-k]) if len(bk) >= 2 * k else float(bk[-1])
        if not hi_ > lo_:
            ctx.count('full:history:no-range')
            continue
        for si, st in enumerate(c['steps']):
            xb = rescale_into(bf_(st['x']), lo_, hi_)
            yb, ivb = bf_(st['y']), bf_(st['iv'])
            if c.get('all_bad_step') and si == len(c['steps']) - 1:
                ivb = np.where(ivb > 0, 0.0, ivb)         # no good point at all: no 'No valid data points' test with oldset
            sc = dict(c, x=fb(xb), y=st['y'], iv=fb(ivb), lower=st['lower'], upper=st['upper'], maxiter=st['maxiter'],
                      outliers=st['outliers'], step=si + 1, nord=k)
            sc.pop('steps')
            old = obj_state(sset)
            sc['old'] = old
            snap = (np.array(sset.breakpoints).copy(), int(sset.nord))

            def mk_old(snap=snap, proto=sset):
                import copy
                o = copy.deepcopy(proto)
                return o
            proto_before = None
            try:
                import copy
                proto_before = copy.deepcopy(sset)
            except Exception:
                pass
            im2, sset2 = call_real(sc, xb, yb, ivb, oldobj=sset)
            tag = 'oldset%d' % (si + 1)
            ctx.count('full:history:%s:%s' % (tag, 'ok' if 'ok' in im2 else im2['err']))
            oracle(ctx, tag, sc, im2, xb, yb, ivb, k)
            if 'ok' in im2 and im2['ok']['bk'] != old['bk']:
                ctx.violate('iterfit:oldset:breakpoints-not-reused', 'iterfit(oldset=obj) does not keep the breakpoints of obj', sc)
            lines.append(model_line(sc, None, old=old))
            meta.append((tag, sc, im2, len(xb)))
            if 'ok' in im2 and proto_before is not None and ctx.rng.random() < 0.5:
                perm_check(ctx, sc, im2, xb, yb, ivb, lambda p_=proto_before: __import__('copy').deepcopy(p_))
            if sset2 is None or not isinstance(sset2.coeff, np.ndarray):
                break
            sset = sset2
    models = core.driver_parallel(lines, chunk=60, workers=16) if lines else []
    for (tag, sc, im2, n), mo in zip(meta, models):
        compare(ctx, tag, sc, im2, mo, n, lz_of(sc))


def run_full(ctx):
    rng = ctx.rng
    run_single(ctx, [gen_requiren(rng) for _ in range(ctx.n(220, 5000))] + [gen_degenerate(rng) for _ in range(ctx.n(80, 1500))])
    run_histories(ctx, [gen_history(rng) for _ in range(ctx.n(120, 2500))])
    nmarg = ctx.coverage.get(MARGINAL, 0)
    ntot = ctx.n(220, 5000) + ctx.n(80, 1500) + ctx.n(120, 2500)
    if nmarg > max(6, 0.03 * ntot):
        ctx.disagree('full:too-many-marginal', {'stream': 'full', 'marginal': nmarg, 'of': ntot}, {'marginal': nmarg}, {'marginal': 'a few'})


def replay_full(ctx, case):
    case = {k: v for k, v in case.items() if k != 's'}
    if case.get('kind') == 'oldset' and 'old' in case:
        # one recorded step of a history: rebuild the old object from its recorded state
        from pydl.pydlutils.bspline import bspline
        o = case['old']
        x, y, iv = bf_(case['x']), bf_(case['y']), bf_(case['iv'])
        obj = bspline(np.array([0.0, 1.0]), nord=o['nord'], bkpt=np.array([0.0, 1.0]))
        obj.breakpoints = bf_(o['bk']).copy()
        obj.nord = o['nord']
        obj.mask = np.array(o['mask'], dtype=bool)
        obj.coeff = bf_(o['coeff']).copy()
        obj.icoeff = np.zeros(obj.coeff.shape)
        im2, _ = call_real(case, x, y, iv, oldobj=obj)
        oracle(ctx, 'oldset', case, im2, x, y, iv, o['nord'])
        mo = core.driver([model_line(case, None, old=o)])[0]
        compare(ctx, 'oldset', case, im2, mo, len(x), lz_of(case))
    elif case.get('kind') == 'oldset':
        run_histories(ctx, [case])
    else:
        run_single(ctx, [case])

"""C10, second extension round: iterfit with the second variable x2 (2-D fit, npoly >= 1) next to the Lean model
`IterFit.iterfit2` (lean/PydlVerif/Model/IterFit2.lean, on C09's Model/BSplineFit2.lean).

Stream `x2`: breakpoints bit-exact, breakpoint mask / `coeff is the int 0` / outmask exact, coeff (npoly x nc) within tolerance.
Oracle (real code only): the documented fit - reject - refit procedure over the TENSOR basis B_j(x) * P_l(x2) (scipy design matrix x
numpy.polynomial Legendre Vandermonde, numpy lstsq; c10.procedure with that design matrix); (x, y, invvar, x2) permuted
together give the same object and the permuted mask (distinct abscissae); invvar <= 0 => False.
"""
import warnings
import numpy as np
from harness import core
from harness.props.c09 import fb, bf_, vclose, frame_of
from harness.props import c10 as base
from harness.props import c10_full as F
from harness.props.c09_2d import polys, tensor


def call_real(case, x, y, iv, x2):
    from pydl.pydlutils.bspline import iterfit
    kw = base.kwargs_of(case)
    kw['npoly'] = case['npoly']
    try:
        with np.errstate(all='ignore'), warnings.catch_warnings():
            warnings.simplefilter('ignore')
            sset, outmask = iterfit(x.copy(), y.copy(), invvar=iv.copy(), x2=x2.copy(), lower=F._lim(case, 'lower'),
                                    upper=F._lim(case, 'upper'), maxiter=case['maxiter'], groupbadpix=case.get('groupbadpix', False), **kw)
        cz = not isinstance(sset.coeff, np.ndarray)
        co = [] if cz else [[float(v) for v in r] for r in np.atleast_2d(sset.coeff)]
        return {'ok': {'bk': fb(sset.breakpoints), 'bkmask': [bool(v) for v in np.atleast_1d(sset.mask)], 'cz': cz, 'coeff': co,
                       'outmask': [bool(v) for v in np.atleast_1d(outmask)], 'xmin': float(sset.xmin), 'xmax': float(sset.xmax)}}
    except Exception as e:
        return {'err': core.exc_kind(e), 'frame': frame_of(e)}


def model_line(case):
    ln = base.model_line(case)
    ln['op'] = 'iterfit2'
    ln['x2'] = case['x2']
    ln['npoly'] = case['npoly']
    if case.get('groupbadpix'):
        ln['groupbadpix'] = True
    return ln


def gen_x2(rng):
    c = base.gen_case(rng, n=rng.choice([20, 30, 40, 60, 90]))
    c['stream'] = 'x2'
    c['kind'] = 'x2'
    m = rng.choice([1, 2, 2, 3])
    c['npoly'] = m
    c['groupbadpix'] = rng.random() < 0.3
    n = len(c['x'])
    k = c['nord']
    # few breakpoints: (number of B-splines) * npoly coefficients have to be determined by the good points
    ngood = int((bf_(c['iv']) > 0).sum())
    if c['opt'][0] != 'bkpt':
        c['opt'] = ['nbkpts', rng.randrange(2, max(3, min(6, ngood // (3 * m * (k + 1)) + 2)))]
    lo2, span2 = rng.choice([(0.0, 1.0), (-3.0, 6.0), (100.0, 50.0)])
    x2 = np.array([lo2 + span2 * rng.random() for _ in range(n)])
    c['constx2'] = rng.random() < 0.06
    if c['constx2']:
        x2[:] = lo2 + 0.5 * span2                 # xmin == xmax: iterfit sets xmax = xmin + 1
    v = (x2 - lo2) / span2
    y = bf_(c['y'])
    if m > 1:
        y = y * (1.0 + 0.4 * v)                   # exact in x2 for npoly >= 2; the noise / outliers scale along
        c['iv'] = fb(bf_(c['iv']) / (1.0 + 0.4 * v) ** 2)
    c['y'] = fb(y)
    c['x2'] = fb(x2)
    return c


def judge(ctx, c, im, mo):
    ctx.seen(c)
    x, y, iv, x2 = bf_(c['x']), bf_(c['y']), bf_(c['iv']), bf_(c['x2'])
    k, m = c['nord'], c['npoly']
    n = len(x)
    ctx.count('x2:case:k=%d:npoly=%d%s' % (k, m, ':const-x2' if c['constx2'] else ''))
    lz = F.lz_of(c)
    judged = False
    cond = np.inf
    if 'ok' in im:
        I = im['ok']
        om = np.array(I['outmask'])
        if om.shape != (n,):
            ctx.violate('iterfit:outmask:shape', 'outmask has shape %r for %d points (x2)' % (om.shape, n), c)
            return
        gave_up = bool(om.all()) and bool((iv <= 0).any())
        if not gave_up and np.any(om[iv <= 0]):
            ctx.violate('iterfit:nonpositive-invvar-flagged-True', 'a point with invvar <= 0 has outmask True (x2)', c)
            return
        t = bf_(I['bk'])
        ngood = int((iv > 0).sum())
        if (not I['cz'] and all(I['bkmask']) and ngood >= max(2, k) and np.asarray(I['coeff']).shape == (m, len(t) - k)
                and I['xmax'] > I['xmin']):
            try:
                from scipy.interpolate import BSpline
                A1 = np.zeros((n, len(t) - k))
                g = iv > 0
                A1[g] = BSpline.design_matrix(-x[g], -t[::-1], k - 1, extrapolate=True).toarray()[:, ::-1]
                P = polys('legendre', m, x2, float(x2.min()), float(x2.max()) if x2.max() > x2.min() else float(x2.min()) + 1.0)
                A = tensor(A1, P)
                cc, mask, margin, cond, passes = base.procedure(x, y, iv, t, k, F._lim(c, 'lower'), F._lim(c, 'upper'), c['maxiter'], A=A)
                if margin >= base.REL_MARGIN and cond <= 1e8:
                    judged = True
                    ctx.count('x2:oracle:judged:passes=%d' % min(passes, 6))
                    ys = max(1e-300, float(np.max(np.abs(y))))
                    co = np.asarray(I['coeff']).T.ravel()              # flat index j*npoly + l
                    if not np.array_equal(om, mask):
                        ctx.violate('iterfit:x2:mask:differs-from-procedure', 'outmask of the 2-D iterfit differs from the documented procedure over B_j(x)*P_l(x2)', c)
                    elif not vclose(co, cc, 1e-7 + 1e-11 * cond, ys):
                        ctx.violate('iterfit:x2:curve:differs-from-procedure', 'coeff of the 2-D iterfit differ from the documented procedure by %.3g (cond %.3g)' % (
                            float(np.max(np.abs(co - cc))), cond), c)
                else:
                    ctx.count('x2:oracle:near-threshold/ill-conditioned')
            except base.Degenerate:
                ctx.count('x2:oracle:degenerate')
            except Exception as e:
                ctx.count('x2:oracle-failed:' + type(e).__name__)
        # (x, y, invvar, x2) permuted together
        if judged and len(set(x.tolist())) == n and ctx.rng.random() < 0.5:
            s = np.array(ctx.rng.sample(range(n), n))
            o2 = call_real(c, x[s], y[s], iv[s], x2[s])
            ctx.count('x2:perm:checked')
            if 'ok' not in o2:
                ctx.violate('iterfit:perm:raises', 'permuted input raises %s (x2)' % o2.get('err'), dict(c, s=s.tolist()))
            elif o2['ok']['bk'] != I['bk'] or o2['ok']['bkmask'] != I['bkmask'] or not vclose(
                    np.asarray(o2['ok']['coeff']).ravel(), np.asarray(I['coeff']).ravel(), 1e-7 + 1e-11 * cond, max(1e-300, float(np.max(np.abs(y))))):
                ctx.violate('iterfit:perm:curve-changes', 'permuting (x, y, invvar, x2) together changes the 2-D fit', dict(c, s=s.tolist()))
            elif o2['ok']['outmask'] != om[s].tolist():
                ctx.violate('iterfit:perm:mask-not-permuted', 'outmask of the permuted (x, y, invvar, x2) is not the permuted outmask', dict(c, s=s.tolist()))
    else:
        ngood = int((iv > 0).sum())
        if ngood >= max(2, k) and im['frame'] not in ('__init__',):
            ctx.violate('iterfit:x2:%s:%s' % (im['err'], im['frame']), 'iterfit(x2=...) raises %s in %s()' % (im['err'], im['frame']), c)
            return
    # ---------------- model
    if mo is None:
        return
    if 'driver_error' in mo:
        ctx.disagree('x2:driver', c, {'ok': '...'}, mo)
        return
    if 'err' in im or 'err' in mo:
        ctx.count('x2:err:%s/%s' % (im.get('err', 'ok'), mo.get('err', 'ok')))
        if mo.get('err') == 'Unmodelled':
            return
        if im.get('err') != mo.get('err'):
            ctx.disagree('x2:error', c, im if 'err' in im else {'ok': '...'}, mo if 'err' in mo else {'ok': '...'})
        return
    I, M = im['ok'], mo['ok']
    if M['bk'] != I['bk']:
        ctx.disagree('x2:breakpoints', c, {'bk': I['bk']}, {'bk': M['bk']})
        return
    if lz:
        ctx.count('x2:limit-0(bk compared only)')
        return
    if not judged:
        same = M['bkmask'] == I['bkmask'] and M['cz'] == I['cz'] and M['outmask'] == I['outmask']
        ctx.count('x2:unjudged:%s' % ('masks-agree' if same else 'masks-differ(not compared: singular / near-threshold)'))
        return
    if M['bkmask'] != I['bkmask'] or M['cz'] != I['cz']:
        ctx.disagree('x2:bkmask/cz', c, {'bkmask': I['bkmask'], 'cz': I['cz']}, {'bkmask': M['bkmask'], 'cz': M['cz']})
        return
    if M['outmask'] != I['outmask']:
        ctx.disagree('x2:outmask', c, {'outmask': I['outmask']}, {'outmask': M['outmask']})
        return
    mc = np.array([bf_(r) for r in M['coeff']]).ravel()
    if not vclose(mc, np.asarray(I['coeff']).ravel(), 100 * (1e-9 + 1e-13 * cond), max(1e-300, float(np.max(np.abs(y))))):
        ctx.disagree('x2:coeff', c, {'coeff': I['coeff']}, {'coeff': mc.tolist()})
        return
    ctx.count('x2:agree')


def run_cases(ctx, cases):
    impls = [call_real(c, bf_(c['x']), bf_(c['y']), bf_(c['iv']), bf_(c['x2'])) for c in cases]
    models = core.driver_parallel([model_line(c) for c in cases], chunk=60, workers=16)
    for c, im, mo in zip(cases, impls, models):
        judge(ctx, c, im, mo)


def run_x2(ctx):
    run_cases(ctx, [gen_x2(ctx.rng) for _ in range(ctx.n(150, 3000))])


def replay_x2(ctx, case):
    run_cases(ctx, [{k: v for k, v in case.items() if k != 's'}])

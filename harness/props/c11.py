"""C11 - combine1fiber resamples spectra: finite flux, conservative inverse variance (DESIGN §5 C11)."""
import os
import math
import random
import bisect
import warnings
from unittest import mock
import numpy as np
from harness import core

ID = 'C11'
LEAN_MODULES = ['PydlVerif.Props.C11']
P = 'PydlVerif.C11.'
THEOREMS = [P + t for t in (
    'contrib_nonneg', 'newivar_nonneg', 'newivar_zero_outside', 'newivar_zero_bad_bracket', 'newivar_zero_no_good',
    'newivar_single_is_interp', 'newivar_le_local_max', 'growBad_cases', 'final_ivar_cases', 'final_ivar_nonneg',
    'final_ivar_zero', 'finish_length', 'combine_length', 'const_flux_const_partial', 'scrub_finite', 'interp_shift', 'shiftRow_feature', 'contrib_scale', 'newivar_scale',
    # extension round
    'groups_partition', 'finish_flux_length', 'combine_flux_length', 'groupLoop_fcm_outside', 'groupsOf_mem', 'fcm_false_nonpositive',
    'preprocess_object', 'preprocess_feature', 'wls_scale_normal', 'wls_scale_optimum', 'wls_scale_unique', 'const_fit_everywhere',
    'const_fit_data',
    # second extension round: flux scaling and constant-stays-constant carried through the group loop to the outputs
    'reject_scale_invariant', 'fit_scale_equivariant', 'iterfit_scale', 'fitFull_scales', 'newflux_scale', 'finish_scale',
    'combine1fiber_scale', 'combine1fiberFull_scale', 'combine1fiberFull_scale_ok',
    'const_flux_const', 'const_flux_const_full', 'const_flux_const_exact', 'aesthetics_keeps_pos', 'reject_keeps_exact')] + [
    'PydlVerif.CombineScale.combine1fiber_eq', 'PydlVerif.CombineScale.c1fLoop_some_spec', 'PydlVerif.CombineScale.c1fLoop_scale',
    'PydlVerif.CombineScale.c1fLoop_ivar_some', 'PydlVerif.CombineScale.growStable_of_gap',
    'PydlVerif.CombineConst.fit_const_coeffs', 'PydlVerif.CombineConst.value_of_const_coeffs', 'PydlVerif.CombineConst.splineAt_const',
    'PydlVerif.CombineConst.iterBodyRq_const', 'PydlVerif.CombineConst.iterLoopRq_const', 'PydlVerif.CombineConst.iterfitRq_const',
    'PydlVerif.CombineConst.fitFull_const', 'PydlVerif.CombineConst.mkKnots_strict', 'PydlVerif.CombineConst.requirenMask_ok',
    'PydlVerif.CombineConst.fit_obj_ok']
RULE = ('1-D spectra of 110-300 pixels and stacks of 2-3 exposures of 110-170 pixels (identical or dithered grids) x flux '
        '{constant, smooth, noisy, with outliers} x objivar {None, flat, varying} x zero-weight pattern {none, single pixels, runs, '
        'both ends, every other pixel, all but 0-2, all} x output grid {same, sub-pixel shift, wider, narrower, coarser, finer, '
        'beyond the data, overlapping only the last two pixels, 1-3 pixels} x aesthetics {default, traditional, noconst, mean, damp, '
        'nothing, unknown} x maxsep/binsz given or not; refusals (shape mismatch, exposures with fewer than 101 good pixels). A case '
        'is non-trivial when an output pixel gets inverse variance 0 or the call is refused; distinct = distinct case payloads. '
        'Self-contained stream: the same families on 1-D spectra of 20-75 pixels (several groups through islands/runs of zero weight, '
        '1-2 outliers of 15-60 sigma), thorough tier also 6 stacked cases; preprocess_spectra: 1-4 objects, dead fibres')
TRUSTED = ['hand-written model lean/PydlVerif/Model/Combine.lean (+ Model/Interp.lean, Model/BSpline.lean of C17/C08) tied to the code by the '
           'I/O correspondence of this run: zero pattern of the inverse variance exact, values within rel 1e-9',
           'stream c1f: iterfit is a parameter of the model: the harness records every real iterfit call made by combine1fiber (unittest.mock wrapper '
           'around the real function) and the model is run on the recorded answers; the arguments the model passes to the fit must be '
           'bit-identical to the recorded ones; the spline is evaluated by the C08 model from the recorded knots and coefficients',
           'stream c1f:self: the parameter is instantiated with the modelled iterfit (Model/CombineFit.lean fitFull = C10 loop + requiren + degenerate '
           'branch + invvar=None weights, on C09 fit, C17 djs_reject, C08 constructor/value) and the whole model runs without any recorded answer; '
           'LAPACK is replaced by the textbook banded Cholesky of Driver/C09, numpy var/mean by plain sums, argsort by a stable insertion sort; '
           'stream c1f:iterfit compares every real iterfit call with the modelled one (breakpoints bit-exact, both masks exact)',
           'numpy argsort (a sorting permutation, validated by the driver), scipy medfilt window median, numpy mean, scipy erf, np.isfinite: parameters',
           'oracle: direct Python restatement of the statement (bisect-based bracketing, own linear interpolation), metamorphic re-runs of the real code']
ASSUMPTIONS = ['float64 inputs for the model (integer-valued flux in int32/int64 arrays and stacked exposures that are not C-contiguous are handed to the real code with the same values: same answer required); finite values; objivar >= 0; wavelengths strictly increasing within each spectrum',
               'stacked exposures have at least 101 good pixels each (fewer: the width-101 median refuses even counts)',
               'EPS slack of the code: an output pixel within 2^-23 of a gap length from a good input pixel next to a bad one is not '
               'required to be 0 (stated in newivar_zero_bad_bracket)',
               'scaling law: inverse variances stay well above EPS = 2^-23 (the code treats |smooth(newivar,3)| < EPS as no data)',
               'finalmask / indisp / skyflux keywords are not inputs of the model (they feed the pixel-mask / dispersion / sky bookkeeping only); stream c1f:kwargs '
               'checks on the real code that the two returned arrays are bit-identical with and without them and that the call returns whenever the plain call does',
               'flux-scaling theorems: objivar given, c > 0, homogeneous kernels (KernelScale, window median, mean), exact field; '
               'constant theorems: the LAPACK pair returns the unique solution of a factored system (SolveUnique), argsort is a sorting permutation, '
               'wavelengths pairwise different inside every group of good pixels']
LEVEL_TEXT = ('Machine-checked Lean 4 theorems over an executable model of combine1fiber (grouping, group loop with the spline fit as a '
              'parameter AND instantiated with the modelled iterfit of C08/C09/C10/C17 plus requiren, inverse-variance pipeline, bad-region '
              'growth, scrub, aesthetics) and of preprocess_spectra\'s loop over the objects: for all '
              'inputs, lengths, masks and any answers of the fit, the output inverse variance is >= 0, exactly 0 outside every spectrum\'s range, '
              'where a bracketing input pixel is not kept (with the code\'s explicit EPS slack) and when no pixel is good; for one spectrum '
              'every non-zero value is the linear interpolation of the input inverse variance and at most the larger bracketing value; '
              'both outputs have the grid\'s length; the scrub leaves finite values; np.interp commutes with a shift of the abscissae; the scaling law '
              'of the inverse variance. Extension: the groups are a partition of the sorted good pixels into maximal runs of gaps <= maxsep; a pixel '
              'with inverse variance <= 0 is never kept (any fit); every object of preprocess_spectra is resampled from loglam - log10(1+z_k); the '
              'weighted least-squares optimum is equivariant under (y, w) -> (c y, w/c^2); a constant spectrum is reproduced by a status-0 fit at every '
              'weighted pixel (C09 poly_reproduction at degree 0) and everywhere when the optimum is unique. '
              'Second extension: both flux clauses are carried through the group loop to the outputs of the whole model function with the '
              'modelled iterfit (combine1fiberFull). Scaling: for (flux, ivar) -> (c flux, ivar/c^2), c > 0, objivar given, bspline.fit, '
              'cholesky_band incl. its fallback loop, maskpoints, requiren, every pass of iterfit\'s rejection loop and the degenerate branch take '
              'the same branches (the rejection test is invariant: (c y - c yfit) sqrt(ivar/c^2) = (y - yfit) sqrt(ivar)), so the state after the '
              'group loop has newflux x c, working ivar / c^2 and the same newmask/fullcombmask unconditionally (newflux_scale), and the function '
              'returns (c newflux, newivar/c^2) and refuses alike (combine1fiberFull_scale) when the code\'s absolute bad-region threshold answers '
              'alike (hgrow). Constant: if every good input pixel carries flux v, every output pixel with newivar > 0 has newflux = v '
              '(const_flux_const for any fit meeting FitConstData; const_flux_const_full/_exact: the modelled iterfit meets it - status-0 fit of '
              'constant data stores v in every good coefficient, the spline is v at every abscissa, djs_reject rejects nothing at zero residual, '
              'the loop ends after the first status-0 pass, the first nord breakpoints are never masked, the constructor\'s knots are strictly '
              'increasing); combine1fiber = (prelude + loop) >>= finish is a theorem (combine1fiber_eq). '
              'The model is tied to the repository on every run by I/O correspondence of the whole function on generated spectra, both with the '
              'real iterfit calls recorded and replayed and self-contained (no recorded answer), and checked against an independent statement-level oracle.')
LEVEL_NOTE = ('Partial: "finite" and "identity to interpolation accuracy" are IEEE / numerical statements decided by the harness; theorems are '
              'over exact ordered fields. The theorems about the group loop hold for ANY fit parameter; the instantiated fit (fitFull) is '
              'modelled and compared; beyond C09/C10\'s theorems it now has the scale equivariance and the constant-data theorems of the second extension '
              '(requiren and the degenerate branch included). '
              'The flux theorems of the second extension are over exact ordered fields and relative to explicit contracts of the kernel parameters, '
              'never proved for LAPACK/libm themselves: scaling - KernelScale (sqrt(v/c^2) = sqrt(v)/c, isFinite invariant, cholesky_banded(A/c^2) = '
              'cholesky_banded(A)/c failing alike, cho_solve_banded(L/c, b/c) = c cho_solve_banded(L, b)), homogeneous window median and mean, and '
              'hgrow: no smoothed raw inverse variance between 0 and EPS max(1, c^2) (the code compares |smooth(newivar,3)| with the absolute EPS and is '
              'not scale invariant otherwise); without objivar the code uses unit weights and the law does not apply. Constant - SolveUnique (what '
              'cholesky_solve returns is THE solution of a system cholesky_band factored; like C09 hsolve, on the calls made), argsort = a sorting '
              'permutation, wavelengths pairwise different inside every group (stacked IDENTICAL grids excluded: ties give repeated knots), aesthetics '
              'traditional/noconst/mean/nothing (damp multiplies good pixels too). const_flux_const_partial is kept (superseded by const_flux_const). '
              'The self-contained run costs about n^3 (C09 assemble compiles to chained closures), hence small spectra; nearly '
              'singular fits (cond > 1e12) and fits where one Cholesky succeeds and the other does not are counted, not judged. '
              'Trusted: Lean kernel, axioms propext/Classical.choice/Quot.sound at most, the hand-written model (validated by the correspondence sample only).')

EPS = 2.0 ** -23
MASKBITS = '''
typedef struct {
  char flag[20]; # Flag name
  short bit; # Bit number, 0-indexed
  char label[30]; # Bit label
  char description[100]; # text description
} MASKBITS;

typedef struct {
  char flag[20]; # Flag name
  short datatype; # Data type {8, 16, 32, 64}
  char description[100]; # text description
} MASKTYPE;

masktype SPPIXMASK 32 "Mask bits for an SDSS spectrum"
maskbits SPPIXMASK  0 NOPLUG "Fiber not listed in plugmap file"
maskbits SPPIXMASK 24 NODATA "no data available in combine B-spline (INVVAR=0)"
maskbits SPPIXMASK 25 COMBINEREJ "Rejected in combine B-spline"
maskbits SPPIXMASK 27 BADSKYCHI "Relative chi^2 > 3 in sky residuals at this wavelength"
maskbits SPPIXMASK 28 REDMONSTER "Contiguous region of bad chi^2 in sky residuals"
'''
METHODS = ['traditional', 'noconst', 'mean', 'damp', 'nothing']


def F(v):
    v = float(v)
    return 0x7ff8000000000000 if v != v else core.f2b(v)


def _bits(a):
    return [F(v) for v in np.asarray(a, dtype='d').ravel()]


def _setup(ctx):
    import pydl.pydlutils.sdss as sdss
    f = os.path.join(ctx.tmpdir(), 'c11Maskbits.par')
    if not os.path.exists(f):
        with open(f, 'w') as fh:
            fh.write(MASKBITS)
    sdss.maskbits = sdss.set_maskbits(maskbits_file=f)


# ================================================================ cases
def _arrays(c):
    """numpy inputs of a case (fresh copies: the code writes into objivar)"""
    one = c['kind'] == '1d'
    x = np.array(c['x'][0] if one else c['x'], dtype='d')
    fl = np.array(c['flux'][0] if one else c['flux'], dtype='d')
    iv = None if c['ivar'] is None else np.array(c['ivar'][0] if one else c['ivar'], dtype='d')
    if c.get('fdtype') and np.all(fl == np.rint(fl)) and np.all(np.abs(fl) < 2 ** 31):
        fl = fl.astype(c['fdtype'])          # raw counts: the same numbers in an integer array are the same spectrum
    if c.get('layout') == 'F' and not one:
        # a stack of exposures that is not C-contiguous (transposed column table): the same values, another memory layout
        x, fl = np.asfortranarray(x), np.asfortranarray(fl)
        iv = None if iv is None else np.asfortranarray(iv)
    if c.get('bad_shape') == 'flux':
        fl = fl.ravel()[:-1].copy()
    if c.get('bad_shape') == 'ivar' and iv is not None:
        iv = iv.ravel()[:-1].copy()
    return x, fl, iv, np.array(c['newx'], dtype='d')


def _kw(c):
    kw = {}
    for k in ('aesthetics', 'maxsep', 'binsz'):
        if c['kw'].get(k) is not None:
            kw[k] = c['kw'][k]
    return kw


def _flux(rng, n, pattern):
    i = np.arange(n, dtype='d')
    if pattern == 'const':
        return np.full(n, rng.choice([1.0, -3.5, 12.25, 250.0, 2.0, rng.uniform(0.5, 200)])), 0.0
    a = rng.uniform(5, 50)
    b = rng.uniform(0.5, 3)
    per = rng.uniform(60, 200)
    f = a + b * np.sin(2 * math.pi * i / per + rng.uniform(0, 6)) + 0.3 * b * np.cos(2 * math.pi * i / (per * 1.7))
    if pattern == 'smooth':
        return f, b
    sig = rng.uniform(0.05, 0.5)
    f = f + np.array([rng.gauss(0, sig) for _ in range(n)])
    if pattern == 'spikes':
        for _ in range(rng.randrange(1, 5)):
            f[rng.randrange(n)] += rng.choice([-1, 1]) * sig * rng.uniform(15, 60)
    return f, sig


def _zeros(rng, n, pattern, keep_min=0):
    """True = pixel gets zero weight"""
    z = [False] * n
    if pattern == 'singles':
        for _ in range(rng.randrange(1, 8)):
            z[rng.randrange(n)] = True
    elif pattern == 'runs':
        for _ in range(rng.randrange(1, 4)):
            s = rng.randrange(n)
            for k in range(s, min(n, s + rng.randrange(2, 12))):
                z[k] = True
    elif pattern == 'ends':
        a, b = rng.randrange(1, 6), rng.randrange(1, 6)
        z[:a] = [True] * a
        z[n - b:] = [True] * b
    elif pattern == 'alternate':
        z = [k % 2 == 1 for k in range(n)]
    elif pattern == 'few':
        z = [True] * n
        for _ in range(rng.randrange(0, 3)):
            z[rng.randrange(n)] = False
    elif pattern == 'all':
        z = [True] * n
    elif pattern == 'islands':
        z = [True] * n
        for _ in range(rng.randrange(1, 5)):
            s = rng.randrange(n)
            for k in range(s, min(n, s + rng.randrange(1, 9))):
                z[k] = False
    if keep_min:
        good = n - sum(z)
        idx = [k for k in range(n) if z[k]]
        rng.shuffle(idx)
        while good < keep_min and idx:
            z[idx.pop()] = False
            good += 1
    return z


def _grid(rng, x, dx, pattern):
    n = len(x)
    if pattern == 'same':
        return list(x)
    if pattern == 'shift':
        return [v + dx * rng.uniform(0.05, 0.95) for v in x]
    if pattern == 'wider':
        k = rng.randrange(3, 25)
        return [x[0] + dx * (j - k + rng.choice([0.0, 0.37])) for j in range(n + 2 * k)]
    if pattern == 'narrower':
        a = rng.randrange(5, n // 3)
        b = rng.randrange(5, n // 3)
        off = rng.uniform(0.1, 0.9)
        return [x[j] + dx * off for j in range(a, n - b)]
    if pattern == 'coarser':
        st = rng.choice([1.5, 2.0, 3.0, 2.37])
        m = int((x[-1] - x[0]) / (dx * st)) + rng.randrange(0, 6)
        o = rng.uniform(-3, 1)
        return [x[0] + dx * (o + st * j) for j in range(max(m, 3))]
    if pattern == 'finer':
        st = rng.choice([0.5, 0.7, 0.31])
        a = rng.randrange(0, n // 2)
        return [x[a] + dx * (0.013 + st * j) for j in range(rng.randrange(20, 160))]
    if pattern == 'outside':
        return [x[-1] + dx * (rng.uniform(2, 50) + j) for j in range(rng.randrange(3, 30))] if rng.random() < 0.5 else \
               [x[0] - dx * (rng.uniform(2, 50) + j) for j in range(rng.randrange(3, 30))][::-1]
    if pattern.startswith('tail:'):
        _, k, off = pattern.split(':')
        return [x[n - int(k)] + dx * (float(off) + j) for j in range(rng.randrange(4, 20))]
    if pattern.startswith('head:'):
        _, k, off = pattern.split(':')
        return [x[int(k) - 1] - dx * (float(off) + j) for j in range(rng.randrange(4, 20))][::-1]
    if pattern == 'tail':
        # only the first one or two pixels overlap the end of the data
        k = rng.choice([1, 2, 3, 3])
        return [x[n - k] + dx * (rng.choice([0.11, 0.5, 0.93]) + j) for j in range(rng.randrange(4, 20))]
    if pattern == 'tailfine':
        # a finer grid whose first two to four pixels lie inside one of the last input intervals
        st = rng.choice([0.3, 0.45, 0.6, 0.8])
        k = rng.choice([0, 1, 1, 2])
        return [x[n - 1 - k] - dx * 0.95 + dx * st * j for j in range(rng.randrange(5, 20))]
    if pattern == 'head':
        k = rng.choice([1, 2, 3])
        m = rng.randrange(4, 20)
        return [x[k - 1] - dx * (0.11 + j) for j in range(m)][::-1]
    if pattern == 'short':
        m = rng.randrange(1, 4)
        a = rng.randrange(0, n - 4)
        return [x[a] + dx * (0.23 + j) for j in range(m)]
    raise ValueError(pattern)


FLUXP = ['const', 'smooth', 'smooth', 'noisy', 'noisy', 'spikes']
ZEROP = ['none', 'none', 'singles', 'runs', 'ends', 'alternate', 'few', 'all', 'islands']
GRIDP = ['same', 'shift', 'shift', 'wider', 'narrower', 'coarser', 'finer', 'outside', 'tail', 'tailfine', 'head', 'short']


def _case(rng, kind=None, fluxp=None, zerop=None, gridp=None, method='?', ivp=None):
    kind = kind or rng.choice(['1d', '1d', '1d', '2d'])
    fluxp = fluxp or rng.choice(FLUXP)
    gridp = gridp or rng.choice(GRIDP)
    if method == '?':
        method = rng.choice([None, None] + METHODS + (['bogus'] if rng.random() < 0.15 else []))
    x0 = rng.uniform(3.55, 3.95)
    dx = rng.choice([1e-4, 1e-4, rng.uniform(0.7e-4, 2.5e-4)])
    kw = {'aesthetics': method}
    if rng.random() < 0.2:
        kw['maxsep'] = dx * rng.choice([1.5, 3.0, 5.0, 2.5])
    if rng.random() < 0.15:
        kw['binsz'] = dx * rng.choice([1.0, 1.25, 2.0])
    if kind == '1d':
        n = rng.randrange(110, 300)
        zerop = zerop or rng.choice(ZEROP)
        ivp = ivp or rng.choice(['none', 'flat', 'varying', 'varying'])
        if zerop != 'none' and ivp == 'none':
            ivp = 'flat'
        x = [x0 + dx * j for j in range(n)]
        f, sig = _flux(rng, n, fluxp)
        if ivp == 'none':
            iv = None
        else:
            base = 1.0 / sig ** 2 if fluxp in ('noisy', 'spikes') else rng.uniform(0.5, 40)
            if ivp == 'flat':
                iv = [base] * n
            else:
                ph = rng.uniform(0, 6)
                iv = [base * (1 + 0.4 * math.sin(j / 17.0 + ph)) * rng.uniform(0.8, 1.2) for j in range(n)]
            z = _zeros(rng, n, zerop)
            iv = [0.0 if zz else v for v, zz in zip(iv, z)]
        c = {'kind': '1d', 'x': [x], 'flux': [list(map(float, f))], 'ivar': None if iv is None else [iv]}
        xs = x
    else:
        ncol = rng.randrange(110, 170)
        nspec = rng.choice([2, 2, 3])
        zerop = zerop or rng.choice(['none', 'singles', 'runs', 'ends', 'fewgood'])
        dith = rng.choice(['same', 'dither', 'dither', 'offset'])    # offset: exposures covering different wavelength ranges
        f0, sig = _flux(rng, ncol + 36, fluxp)
        xs_, fs, ivs = [], [], []
        for s in range(nspec):
            off = 0.0 if dith == 'same' else rng.uniform(-0.45, 0.45) + (rng.choice([0, 1, 2]) if dith == 'dither' or s == 0 else rng.choice([8, 15, 30]))
            xr = [x0 + dx * (j + off) for j in range(ncol)]
            if fluxp == 'const':
                fr = [float(f0[0])] * ncol
            else:
                # the same underlying spectrum sampled at the dithered positions (linear resampling of the template)
                tj = [min(max(j + off, 0.0), len(f0) - 1.01) for j in range(ncol)]
                fr = [float(f0[int(t)] * (1 - (t - int(t))) + f0[int(t) + 1] * (t - int(t))) for t in tj]
            base = 1.0 / sig ** 2 if fluxp in ('noisy', 'spikes') else rng.uniform(0.5, 40)
            ivr = [base * rng.uniform(0.7, 1.3) for _ in range(ncol)]
            if zerop == 'fewgood' and s == 0:
                z = _zeros(rng, ncol, 'islands')
            else:
                z = _zeros(rng, ncol, zerop if zerop != 'fewgood' else 'singles', keep_min=101)
            ivr = [0.0 if zz else v for v, zz in zip(ivr, z)]
            xs_.append(xr)
            fs.append(fr)
            ivs.append(ivr)
        c = {'kind': '2d', 'x': xs_, 'flux': fs, 'ivar': ivs}
        if ivp == 'none' and zerop == 'none':
            c['ivar'] = None          # stacked exposures without an inverse variance ("with and without inverse variance")
        else:
            ivp = 'varying'
        xs = sorted(v for r in xs_ for v in r)
        xs = [xs[0] + dx * j for j in range(int(round((xs[-1] - xs[0]) / dx)) + 1)]
    c['newx'] = _grid(rng, xs, dx, gridp)
    c['kw'] = kw
    c['tag'] = {'flux': fluxp, 'zero': zerop, 'grid': gridp, 'ivar': ivp, 'dx': dx}
    if rng.random() < 0.03:
        c['bad_shape'] = rng.choice(['flux', 'ivar']) if c['ivar'] is not None else 'flux'
    r2 = random.Random(rng.randrange(1 << 30))
    if kind == '2d' and r2.random() < 0.3:
        c['layout'] = 'F'
    if r2.random() < 0.12 and fluxp != 'smooth':      # (a rounded smooth spectrum is a staircase: the identity clause would not apply)
        c['flux'] = [[float(round(v)) for v in r] for r in c['flux']]
        c['fdtype'] = r2.choice(['i4', 'i8'])
    return c


# ================================================================ real code
def _run_real(c, record=True, extra=None):
    """call the real combine1fiber; returns {'out': (flux, ivar)} or {'err': kind}, plus the recorded iterfit calls"""
    from pydl.pydlspec2d import spec2d
    x, fl, iv, newx = _arrays(c)
    recs = []
    real_iterfit = spec2d.iterfit.__wrapped__ if hasattr(spec2d.iterfit, '__wrapped__') else spec2d.iterfit

    def wrapper(xdata, ydata, invvar=None, **kw):
        rec = {'x': np.array(xdata, dtype='d'), 'y': np.array(ydata, dtype='d'),
               'iv': None if invvar is None else np.array(invvar, dtype='d'), 'kw': dict(kw)}
        recs.append(rec)
        try:
            sset, bmask = real_iterfit(xdata, ydata, invvar=invvar, **kw)
        except Exception as e:
            rec['err'] = core.exc_kind(e)
            raise
        rec['nord'] = int(sset.nord)
        rec['bk'] = np.array(sset.breakpoints, dtype='d').ravel()
        rec['mask'] = np.atleast_1d(np.array(sset.mask, dtype=bool)).ravel()
        rec['coeff'] = np.atleast_1d(np.array(sset.coeff, dtype='d')).ravel()
        rec['bmask'] = np.atleast_1d(np.array(bmask, dtype=bool)).ravel()
        return sset, bmask
    res = {'recs': recs}
    try:
        with warnings.catch_warnings(), np.errstate(all='ignore'):
            warnings.simplefilter('ignore')
            if record:
                with mock.patch.object(spec2d, 'iterfit', wrapper):
                    out = spec2d.combine1fiber(x, fl, newx, objivar=iv, **_kw(c), **(extra(x) if extra else {}))
            else:
                out = spec2d.combine1fiber(x, fl, newx, objivar=iv, **_kw(c), **(extra(x) if extra else {}))
        res['out'] = (np.array(out[0], dtype='d'), np.array(out[1], dtype='d'))
    except Exception as e:
        res['err'] = core.exc_kind(e)
        res['msg'] = '%s: %s' % (type(e).__name__, str(e)[:200])
    return res


def _erf_table(c, real):
    """erf values aesthetics('damp') needs, keyed by the bit pattern of the argument"""
    if c['kw'].get('aesthetics') != 'damp':
        return []
    from scipy.special import erf
    n = len(c['newx'])
    tab = {}
    goods = set()
    if 'out' in real:
        g = np.nonzero(real['out'][1])[0]
        if g.size:
            goods.add((int(g.min()), int(g.max())))
    for mn, mx in goods:
        args = []
        if mn > 0:
            args += [(float(i) - float(mn)) / float(min(mn, 250)) for i in range(n)]
        if mx < n - 1:
            args += [(float(mx) - float(i)) / float(min(max(mx, 1), 250)) for i in range(n)]
        for a in args:
            tab[F(a)] = F(float(erf(a)))
    return [[k, v] for k, v in tab.items()]


def _line(c, real):
    x, fl, iv, newx = _arrays(c)
    if iv is None:
        nz = np.arange(x.size)
    elif iv.shape == x.shape:
        nz = (iv.ravel() > 0).nonzero()[0]
    else:
        nz = np.arange(0)
    perm = [] if iv is not None and iv.shape != x.shape else [int(v) for v in x.ravel()[nz].argsort()]
    fits = []
    for r in real['recs']:
        e = {'x': _bits(r['x']), 'y': _bits(r['y']), 'bkspace': F(r['kw'].get('bkspace', float('nan'))),
             'nord': int(r['kw'].get('nord', -1)) if 'err' in r else int(r.get('nord', -1)),
             'bk': _bits(r.get('bk', [])), 'mask': [int(b) for b in r.get('mask', [])],
             'coeff': _bits(r.get('coeff', [])), 'bmask': [int(b) for b in r.get('bmask', [])]}
        if r['iv'] is not None:
            e['iv'] = _bits(r['iv'])
        if 'err' in r:
            e['err'] = r['err']
        if not (r['kw'].get('nord') == 3 and r['kw'].get('groupbadpix') is True and r['kw'].get('requiren') == 1):
            e['nord'] = -1      # keywords other than the modelled ones: the driver refuses the record
        fits.append(e)
    line = {'p': 'C11', 'op': 'c1f', 'xshape': list(x.shape), 'fshape': list(fl.shape),
            'x': _bits(x), 'flux': _bits(fl), 'newx': _bits(newx), 'perm': perm, 'fits': fits,
            'method': c['kw'].get('aesthetics') or 'traditional', 'erf': _erf_table(c, real)}
    if iv is not None:
        line['ishape'] = list(iv.shape)
        line['ivar'] = _bits(iv)
    for k in ('binsz', 'maxsep'):
        if c['kw'].get(k) is not None:
            line[k] = F(c['kw'][k])
    return line


def _impl_canon(real):
    if 'err' in real:
        return {'err': real['err']}
    return {'ok': [_bits(real['out'][0]), _bits(real['out'][1])]}


def _agree(impl, m):
    """flux within tolerance, ivar zero pattern exact, ivar values within tolerance; returns '' or what differs"""
    if 'err' in impl or 'err' in m or 'ok' not in m:
        return '' if impl == m else 'outcome'
    fa, va = [[core.b2f(b) for b in l] for l in impl['ok']]
    fb, vb = [[core.b2f(b) for b in l] for l in m['ok']]
    if len(fa) != len(fb) or len(va) != len(vb):
        return 'length'
    for a, b in zip(va, vb):
        if (a == 0) != (b == 0):
            return 'ivar-zero-pattern'
    for a, b in zip(va, vb):
        if not core.close(a, b):
            return 'ivar-value'
    for a, b in zip(fa, fb):
        if not core.close(a, b):
            return 'flux-value'
    return ''


# ================================================================ oracle
def _lerp_ivar(xs, ivs, lam):
    """(bracket good?, own linear interpolation, local max) of one spectrum at lam; None outside [min, max]"""
    if lam < xs[0] or lam > xs[-1]:
        return None
    j = bisect.bisect_right(xs, lam) - 1
    if j >= len(xs) - 1:
        j = len(xs) - 2
    a, b = xs[j], xs[j + 1]
    t = (lam - a) / (b - a)
    if t == 0:
        # exactly on an input pixel: its own value (the code's EPS slack makes a good pixel count even between two bad ones)
        return ivs[j] > 0, False, ivs[j], ivs[j]
    both = ivs[j] > 0 and ivs[j + 1] > 0
    near_good = (ivs[j] > 0 and t <= 4 * EPS) or (ivs[j + 1] > 0 and 1 - t <= 4 * EPS)
    return both, near_good, ivs[j] * (1 - t) + ivs[j + 1] * t, max(ivs[j], ivs[j + 1])


def _in_domain(c):
    if c.get('bad_shape'):
        return False
    if c['kind'] == '2d' and c['ivar'] is not None:
        return all(sum(1 for v in r if v > 0) >= 101 or sum(1 for v in r if v > 0) == 0 for r in c['ivar'])
    return True


def _oracle(c, real, meta=True):
    """statement-level check of the real output; returns [(signature, what)]"""
    out = []
    method = c['kw'].get('aesthetics')
    m = len(c['newx'])
    if c.get('bad_shape'):
        if real.get('err') != 'ValueError':
            out.append(('refusal:shape-mismatch-accepted', 'mismatching shapes were not refused with ValueError: %s' % real.get('err')))
        return out
    if not _in_domain(c):
        return out
    if 'err' in real:
        if method == 'bogus' and real['err'].startswith('PydlException'):
            return out
        if real.get('recs') and 'err' in real['recs'][-1]:
            out.append(('exception:iterfit:%s' % real['err'], 'iterfit, called by combine1fiber, raised %s' % real.get('msg')))
            return out
        tag = 'ivar-none' if c['ivar'] is None else ('method-' + str(method) if real['err'] in ('ValueError', 'ZeroDivisionError') else 'any')
        out.append(('exception:%s:%s' % (real['err'], tag), 'combine1fiber raised %s' % real.get('msg')))
        return out
    fl, iv = real['out']
    if fl.shape != (m,) or iv.shape != (m,):
        out.append(('length', 'outputs have shapes %s %s for a grid of %d' % (fl.shape, iv.shape, m)))
        return out
    if not np.isfinite(fl).all():
        out.append(('nonfinite:flux:%s' % method, 'flux not finite at output pixel %d' % int(np.nonzero(~np.isfinite(fl))[0][0])))
    if not np.isfinite(iv).all():
        out.append(('nonfinite:ivar', 'ivar not finite at output pixel %d' % int(np.nonzero(~np.isfinite(iv))[0][0])))
        return out
    if (iv < 0).any():
        out.append(('ivar-negative', 'ivar %r < 0 at output pixel %d' % (float(iv.min()), int(iv.argmin()))))
    rows_x = c['x']
    rows_iv = c['ivar'] if c['ivar'] is not None else [[1.0] * len(r) for r in rows_x]
    anygood = any(v > 0 for r in rows_iv for v in r)
    if not anygood:
        if (iv != 0).any() or (fl != 0).any():
            out.append(('no-good-input:nonzero-output', 'no input pixel is good but the output is not all zero'))
        return out
    single = c['kind'] == '1d'
    for p, lam in enumerate(c['newx']):
        between = False
        slack = False
        info = None
        for xs, ivs in zip(rows_x, rows_iv):
            r = _lerp_ivar(xs, ivs, lam)
            if r is None:
                continue
            info = r
            between = between or r[0]
            slack = slack or r[1]
        if not between and not slack and iv[p] != 0:
            out.append(('ivar-nonzero:not-between-good', 'output pixel %d (loglam %r) does not lie between two adjacent good input '
                        'pixels but has ivar %r' % (p, lam, float(iv[p]))))
            break
        if single and iv[p] != 0 and info is not None and not info[1]:
            if not core.close(float(iv[p]), info[2], 1e-9):
                out.append(('ivar-single:not-linear-interpolation', 'output pixel %d: ivar %r, linear interpolation of the input %r'
                            % (p, float(iv[p]), info[2])))
                break
            if iv[p] > info[3] * (1 + 1e-12):
                out.append(('ivar-single:above-local-max', 'output pixel %d: ivar %r above local maximum %r' % (p, float(iv[p]), info[3])))
                break
    good = iv > 0
    tag = c.get('tag', {})
    if tag.get('flux') == 'const' and method != 'damp' and good.any():
        cval = c['flux'][0][0]
        d = np.abs(fl[good] - cval).max()
        # a fit with empty knot intervals (every other pixel missing, islands of a few pixels) is nearly singular and
        # amplifies rounding: observed 1.3e-9; real defects are O(1e-2) or larger
        tol = 1e-6 if tag.get('zero') in ('none', 'singles', 'runs', 'ends') else 1e-3
        # (false alarm on the unchanged tree, quick seed 45: a 9-pixel spectrum with a knot every pixel has a normal matrix of
        #  condition 3e12; solving it amplifies rounding to 3e-6 - the tolerance follows the worst recorded fit, as in _agree_self)
        cond = _cond(real) if real.get('recs') else 1.0
        tol = max(tol, 1e-13 * cond)
        if cond > 1e12:
            pass
        elif d > tol * max(1.0, abs(cval)):
            out.append(('constant-not-constant', 'constant spectrum %r comes out as %r at a good pixel' % (cval, float(fl[good][np.abs(fl[good] - cval).argmax()]))))
    if tag.get('flux') == 'const' and tag.get('zero') == 'none' and single and not good.any() and c['flux'][0][0] != 0:
        # "a constant spectrum stays constant": with every input pixel good, an output grid with pixels well inside the data
        # cannot come back without a single usable pixel
        xin = c['x'][0]
        dxx = tag.get('dx', 1e-4)
        inside = [p for p, v in enumerate(c['newx']) if xin[0] + 2 * dxx < v < xin[-1] - 2 * dxx]
        if len(inside) >= 3:
            out.append(('constant-lost', 'constant spectrum %r, every input pixel good: none of the %d output pixels inside the data has '
                        'positive inverse variance (flux there: %r)' % (c['flux'][0][0], len(inside), float(fl[inside[0]]))))
    if (tag.get('flux') == 'smooth' and tag.get('grid') == 'same' and tag.get('zero') == 'none' and single and method != 'damp'
            and good.any()):
        fin = np.array(c['flux'][0])
        amp = fin.max() - fin.min()
        d = np.abs(fl[good] - fin[good]).max()
        if d > 0.02 * amp + 1e-9:
            out.append(('same-grid-not-identity', 'resampling a smooth spectrum onto its own grid changes it by %r (amplitude %r)' % (float(d), float(amp))))
    if meta and method != 'damp' and tag.get('scale') is not None:
        s = tag['scale']
        c2 = dict(c, flux=[[v * s for v in r] for r in c['flux']],
                  ivar=None if c['ivar'] is None else [[v / (s * s) for v in r] for r in c['ivar']])
        r2 = _run_real(c2, record=False)
        if 'out' not in r2:
            out.append(('scaling:exception', 'scaled input (c=%r) raised %s' % (s, r2.get('msg'))))
        else:
            f2, v2 = r2['out']
            ivs = 1.0 if c['ivar'] is None else s * s
            if ((v2 == 0) != (iv == 0)).any():
                out.append(('scaling:zero-pattern', 'scaling flux by %r and ivar by 1/c^2 changes the zero pattern of the output ivar' % s))
            else:
                fs = max(1.0, float(np.abs(fl).max()))
                tol = 1e-9 if math.log2(s) == int(math.log2(s)) else 1e-5
                if np.abs(f2 - s * fl).max() > tol * abs(s) * fs or np.abs(v2 * ivs - iv).max() > tol * max(1.0, float(iv.max())):
                    out.append(('scaling:values', 'scaling flux by %r and ivar by 1/c^2 does not scale the outputs likewise' % s))
    return out


# ================================================================ shrinking
def _sub(c, cols, outs):
    c2 = dict(c)
    c2['x'] = [[r[j] for j in cols] for r in c['x']]
    c2['flux'] = [[r[j] for j in cols] for r in c['flux']]
    c2['ivar'] = None if c['ivar'] is None else [[r[j] for j in cols] for r in c['ivar']]
    c2['newx'] = [c['newx'][j] for j in outs]
    return c2


def _shrink(c, sig):
    if c.get('bad_shape'):
        return c
    def sigs(cc):
        return {s for s, _ in _oracle(cc, _run_real(cc), meta=sig.startswith('scaling'))}
    cols = list(range(len(c['x'][0])))
    outs = list(range(len(c['newx'])))
    try:
        if sig not in sigs(c):
            return c
        kw0 = dict(c['kw'])
        if kw0.get('binsz') is None and kw0.get('maxsep') is None:
            # keep the pixel scale when pixels are removed
            c = dict(c, kw=dict(kw0, binsz=c['tag']['dx']))
            if sig not in sigs(c):
                c = dict(c, kw=kw0)
        cols = core.shrink_list(cols, lambda s: sig in sigs(_sub(c, s, outs)), minlen=2)
        outs = core.shrink_list(outs, lambda s: sig in sigs(_sub(c, cols, s)), minlen=1)
        return _sub(c, cols, outs)
    except Exception:
        return c


# ================================================================ streams
def _combine(ctx, cases, search=False):
    lines, reals = [], []
    for c in cases:
        real = _run_real(c)
        reals.append(real)
        if not search:
            lines.append(_line(c, real))
    models = core.driver_parallel(lines, chunk=40) if lines else []
    for k, (c, real) in enumerate(zip(cases, reals)):
        t = c.get('tag', {})
        nz = 'err' in real or bool((real['out'][1] == 0).any())
        ctx.seen({'x0': c['x'][0][:3], 'n': len(c['x'][0]), 'm': len(c['newx']), 'newx0': c['newx'][:2], 'tag': t, 'kw': c['kw'],
                  'kind': c['kind'], 'f': c['flux'][0][:3]}, nontrivial=nz)
        ctx.count('kind:%s' % c['kind'])
        ctx.count('layout:%s' % c.get('layout', 'C'))
        ctx.count('flux-dtype:%s' % c.get('fdtype', 'f8'))
        ctx.count('flux:%s' % t.get('flux'))
        ctx.count('zero:%s' % t.get('zero'))
        ctx.count('grid:%s' % t.get('grid'))
        ctx.count('ivar:%s' % t.get('ivar'))
        ctx.count('method:%s' % c['kw'].get('aesthetics'))
        ctx.count('outcome:%s' % (real.get('err') or ('some-zero' if nz else 'all-good')))
        ctx.count('iterfit-calls', len(real['recs']))
        ctx.count('pixels-rejected-by-fit', int(sum((~r['bmask']).sum() for r in real['recs'] if 'bmask' in r)))
        if not search:
            impl = _impl_canon(real)
            d = _agree(impl, models[k])
            if d:
                ctx.disagree('c1f:' + d, dict(c, stream='c1f'), _short(impl), _short(models[k]))
        for sig, what in _oracle(c, real):
            small = _shrink(c, sig)
            ctx.violate(sig, what, dict(small, stream='c1f'))


# ================================================================ auxiliary keywords (finalmask, indisp + skyflux, verbose)
def _extra_kw(which, seed):
    """IDL keywords of combine1fiber that feed only the auxiliary outputs (pixel masks, dispersion, sky): arrays of the shape of
    inloglam.  The two returned arrays do not depend on them (the model has no such inputs)."""
    def make(x):
        r = np.random.RandomState(seed)
        kw = {}
        if which in ('finalmask', 'both'):
            kw['finalmask'] = r.choice(np.array([0, 1, 1 << 24, (1 << 16) | 1, 1 << 25], dtype='i4'), size=x.shape).astype('i4')
        if which in ('indisp', 'both'):
            kw['indisp'] = r.uniform(0.8, 1.4, size=x.shape)
            kw['skyflux'] = r.uniform(0.0, 5.0, size=x.shape)
        if which == 'verbose':
            kw['verbose'] = False
        return kw
    return make


def _kwargs(ctx, cases):
    """stream c1f:kwargs - the same call with and without the auxiliary keywords: (newflux, newivar) must be bit-identical and the
    call must return whenever the plain call returns (the keywords are IDL's FINALMASK / INDISP / SKYFLUX; output grids that extend
    beyond the data are the interesting ones: the mask bookkeeping indexes output pixels from input wavelengths)."""
    for c in cases:
        if not _in_domain(c):
            continue
        plain = _run_real(c, record=False)
        which = ctx.rng.choice(['finalmask', 'finalmask', 'indisp', 'both', 'verbose'])
        seed = ctx.rng.randrange(1 << 30)
        withkw = _run_real(c, record=False, extra=_extra_kw(which, seed))
        cc = dict(c, stream='c1f:kwargs', which=which, kwseed=seed)
        t = c.get('tag', {})
        ctx.seen({'kwargs': which, 'x0': c['x'][0][:2], 'n': len(c['x'][0]), 'newx0': c['newx'][:2], 'm': len(c['newx']), 'kind': c['kind']})
        ctx.count('kwargs:%s' % which)
        ctx.count('kwargs:grid:%s' % t.get('grid'))
        if 'err' in plain:
            ctx.count('kwargs:plain-call-refused(%s)' % plain['err'])
            if withkw.get('err') != plain['err']:
                ctx.disagree('c1f:kwargs:' + which, cc, withkw.get('err'), plain['err'])
            continue
        if 'err' in withkw:
            ctx.count('kwargs:raised')
            ctx.disagree('c1f:kwargs:' + which, cc, withkw['err'], 'returns')
            ctx.violate('kwargs:exception:%s:%s' % (withkw['err'], which),
                        'combine1fiber(..., %s=...) raised %s where the same call without the keyword returns flux and inverse variance of the '
                        "grid's length" % (which if which != 'both' else 'finalmask=..., indisp=..., skyflux', withkw.get('msg')), cc)
            continue
        same = all(_bits(a) == _bits(b) for a, b in zip(plain['out'], withkw['out']))
        ctx.count('kwargs:%s' % ('same' if same else 'differ'))
        if not same:
            ctx.disagree('c1f:kwargs:' + which, cc, _short(_impl_canon(withkw)), _short(_impl_canon(plain)))
            for sig, what in _oracle(c, dict(withkw, recs=[]), meta=False):
                ctx.violate('kwargs:' + sig, 'with %s given: %s' % (which, what), cc)


# ================================================================ self-contained model run (no recorded iterfit answers)
def _small_case(rng, **kw):
    """a 1-D case of 20-75 pixels (the model's spline fit - C09's `assemble` compiled as chained closures - costs about n^3): same
    families as `_case`, zero pattern and output grid drawn again for the shorter spectrum; 'islands'/'few'/'runs' give several groups"""
    c = _case(rng, kind='1d', **kw)
    t = c['tag']
    n = rng.randrange(20, 75)
    c['x'] = [c['x'][0][:n]]
    c['flux'] = [c['flux'][0][:n]]
    if t['flux'] == 'spikes':
        f = c['flux'][0]
        sig = max(1e-3, float(np.std(np.diff(f))) / 1.5)
        for _ in range(rng.randrange(1, 3)):
            f[rng.randrange(n)] += rng.choice([-1, 1]) * sig * rng.uniform(15, 60)
    if c['ivar'] is not None:
        iv = [v if v > 0 else 1.0 for v in c['ivar'][0][:n]]
        z = _zeros(rng, n, t['zero'])
        c['ivar'] = [[0.0 if zz else v for v, zz in zip(iv, z)]]
    c['newx'] = _grid(rng, c['x'][0], t['dx'], t['grid'])
    c['tag'] = dict(t, small=True)
    return c


def _design(gb, k, xs):
    """own B-spline design matrix (order k, knots gb) by the textbook recursion; used for a condition number only"""
    n = len(gb) - k
    g = [float(v) for v in gb]
    A = np.zeros((len(xs), max(n, 1)))
    for p, x in enumerate(xs):
        i = min(max(bisect.bisect_right(g, x) - 1, k - 1), n - 1)
        N = [1.0]
        for j in range(1, k):
            saved, M = 0.0, [0.0] * (j + 1)
            for r in range(j):
                right, left = g[i + r + 1] - x, x - g[i + 1 - j + r]
                den = right + left
                t = N[r] / den if den != 0 else 0.0
                M[r] = saved + right * t
                saved = left * t
            M[j] = saved
            N = M
        A[p, i - k + 1:i + 1] = N
    return A


def _cond_call(r):
    """2-norm condition number of the normal matrix A^T W A of one recorded fit (returned object, kept points)"""
    if 'bk' not in r or r['coeff'].size <= 1:
        return 1.0
    try:
        k = int(r['nord'])
        gb = r['bk'][r['mask']]
        w = (np.ones(r['x'].size) if r['iv'] is None else np.maximum(r['iv'], 0.0)) * r['bmask']
        A = _design(gb, k, [float(v) for v in r['x']])
        G = A.T @ (w[:, None] * A)
        G = G / max(float(np.abs(G).max()), 1e-300)
        sv = np.linalg.svd(G, compute_uv=False)
        return float(sv[0] / sv[-1]) if sv[-1] > 0 else float('inf')
    except Exception:
        return float('inf')


def _cond(real):
    """largest condition number among the recorded fits"""
    return max([1.0] + [_cond_call(r) for r in real['recs']])


def _agree_self(c, real, m, ctx=None):
    """self-contained model run against the real function: outcome, lengths, zero pattern of the inverse variance exact; inverse
    variance within 1e-9 of its scale; flux within (1e-9 + 1e-13*cond) of its scale, cond = condition number of the normal matrix of
    the worst recorded fit (own design matrix): the driver's textbook Cholesky and LAPACK differ by rounding, which solving the
    normal equations amplifies by cond (a fit with knots every 1.2 pixels and missing pixels is nearly singular).
    Returns (what differs or '', how it was judged)"""
    impl = _impl_canon(real)
    if 'err' in impl or 'err' in m or 'ok' not in m:
        return ('' if impl == m else 'outcome'), 'outcome'
    fa, va = [np.array([core.b2f(b) for b in l]) for l in impl['ok']]
    fb, vb = [np.array([core.b2f(b) for b in l]) for l in m['ok']]
    if len(fa) != len(fb) or len(va) != len(vb):
        return 'length', 'exact'
    if ((va == 0) != (vb == 0)).any():
        return 'ivar-zero-pattern', 'exact'
    vs = max(float(np.abs(va).max()), 1e-300) if len(va) else 1.0
    if len(va) and not (np.abs(va - vb) <= 1e-9 * vs).all():
        return 'ivar-value', '1e-9'
    if not len(fa):
        return '', 'empty'
    if not (np.isfinite(fa).all() and np.isfinite(fb).all()):
        return ('' if impl['ok'][0] == m['ok'][0] else 'flux-value'), 'nonfinite'
    fs = max(float(np.abs(fa).max()), 1e-300)
    d = float(np.abs(fa - fb).max())
    if d <= 1e-9 * fs:
        return '', 'flux<=1e-9'
    cond = _cond(real)
    if ctx is not None and cond < float('inf'):
        q_ = d / fs / (2.2e-16 * cond)
        ctx.count('self:log10(diff/(eps*cond))=%s' % (int(math.floor(math.log10(max(q_, 1e-30)))) if math.isfinite(q_) else 'nonfinite'))
    if cond > 1e12:
        return '', 'ill-conditioned(cond>1e12,not judged)'
    if d <= (1e-9 + 1e-13 * cond) * fs:
        return '', 'flux<=1e-13*cond'
    return 'flux-value', 'cond=%.2g' % cond


def _near_threshold(real):
    """some pixel's scaled residual against the returned curve of a recorded fit (own design matrix) is within 1e-6 of iterfit's
    5-sigma limit"""
    for r in real['recs']:
        if 'bk' not in r or r['coeff'].size <= 1:
            continue
        k = int(r['nord'])
        gb = r['bk'][r['mask']]
        gc = r['coeff'][r['mask'][k:]]
        if len(gb) < 2 * k or gc.size != len(gb) - k:
            continue
        if r['iv'] is None:
            var = float(r['y'].var()) * r['y'].size / max(r['y'].size - 1, 1)
            iv = np.ones(r['x'].size) / (var if var != 0 else 1.0)
        else:
            iv = np.maximum(r['iv'], 0.0)
        yf = _design(gb, k, [float(v) for v in r['x']]) @ gc
        res = np.abs((r['y'] - yf) * np.sqrt(iv))
        if (np.abs(res - 5.0) < 5e-6).any():
            return True
    return False


def _self_lines(c, real):
    line = _line(c, real)
    calls = []
    for r in real['recs']:
        if r['kw'].get('nord') == 3 and r['kw'].get('requiren') == 1 and r['kw'].get('groupbadpix') is True:
            e = {'p': 'C11', 'op': 'iterfit', 'x': _bits(r['x']), 'y': _bits(r['y']), 'bkspace': F(r['kw'].get('bkspace', float('nan')))}
            if r['iv'] is not None:
                e['iv'] = _bits(r['iv'])
            calls.append((r, e))
    return line, dict(line, mode='self', fits=[]), calls


def _self(ctx, cases):
    """stream c1f:self - the whole combine1fiber model with the modelled iterfit (Model/CombineFit.lean `fitFull`), nothing recorded;
    stream c1f:iterfit - every real iterfit call against the modelled iterfit on the same arguments (breakpoints bit-exact, both
    masks exact): it localises a disagreement of c1f:self"""
    rng = ctx.rng
    lines, idx, reals, percall = [], [], [], []
    for c in cases:
        real = _run_real(c)
        reals.append(real)
        rec, slf, calls = _self_lines(c, real)
        idx.append((len(lines), len(lines) + 1, [len(lines) + 2 + k for k in range(len(calls))]))
        percall.append(calls)
        lines += [rec, slf] + [e for _, e in calls]
    out = core.driver_parallel(lines, workers=16, chunk=max(4, len(lines) // 64 + 1)) if lines else []
    for c, real, (irec, islf, icalls), calls in zip(cases, reals, idx, percall):
        t = c.get('tag', {})
        nz = 'err' in real or bool((real['out'][1] == 0).any())
        ctx.seen({'self': True, 'x0': c['x'][0][:3], 'n': len(c['x'][0]), 'm': len(c['newx']), 'newx0': c['newx'][:2], 'tag': t,
                  'kw': c['kw'], 'kind': c['kind'], 'f': c['flux'][0][:3]}, nontrivial=nz)
        ctx.count('self:kind:%s' % c['kind'])
        ctx.count('self:zero:%s' % t.get('zero'))
        ctx.count('self:outcome:%s' % (real.get('err') or ('some-zero' if nz else 'all-good')))
        ctx.count('self:groups-fitted=%d' % min(len(real['recs']), 4))
        ctx.count('self:pixels-rejected-by-fit', int(sum((~r['bmask']).sum() for r in real['recs'] if 'bmask' in r)))
        impl = _impl_canon(real)
        d = _agree(impl, out[irec])
        if d:
            ctx.disagree('c1f:' + d, dict(c, stream='c1f'), _short(impl), _short(out[irec]))
        # per call
        calldiff = []
        for k, ((r, _), i) in enumerate(zip(calls, icalls)):
            m = out[i]
            if 'err' in r or 'err' in m:
                if r.get('err') != m.get('err'):
                    calldiff.append((k, 'outcome', r.get('err'), m.get('err')))
                continue
            o = m['ok']
            cz = r['coeff'].size == 1 and len(r['bk']) - r['nord'] != 1
            if o['bk'] != _bits(r['bk']):
                calldiff.append((k, 'breakpoints', None, None))
            elif o['mask'] != [bool(b) for b in r['mask']]:
                calldiff.append((k, 'breakpoint-mask', [int(b) for b in r['mask']], [int(b) for b in o['mask']]))
            elif o['bmask'] != [bool(b) for b in r['bmask']]:
                calldiff.append((k, 'outmask', [int(b) for b in r['bmask']], [int(b) for b in o['bmask']]))
            elif bool(o['cz']) != bool(cz):
                calldiff.append((k, 'coeff=0', cz, o['cz']))
            ctx.count('self:iterfit-calls-compared')
        d, how = _agree_self(c, real, out[islf], ctx)
        # a nearly singular system (one Cholesky succeeds, the other one does not: other breakpoints are dropped, other points
        # rejected) or a residual at the rejection limit: counted, not judged (as in C09 'marginal' / C10 'near-threshold')
        marginal = bool(calldiff) and all(w in ('breakpoint-mask', 'outmask') and (_cond_call(calls[k][0]) > 1e10) for k, w, _, _ in calldiff)
        marginal = marginal or (bool(calldiff) and all(w in ('breakpoint-mask', 'outmask') for _, w, _, _ in calldiff) and _near_threshold(real))
        if calldiff and not marginal:
            k, w, a, b = calldiff[0]
            ctx.disagree('c1f:iterfit:' + w, dict(c, stream='c1f:self', call=k), a, b)
        if marginal:
            ctx.count('self:iterfit-call:marginal(cond>1e10 or at the limit; not judged)')
        if d and marginal:
            ctx.count('self:marginal(not judged)')
        elif d:
            ctx.disagree('c1f:self:' + d, dict(c, stream='c1f:self'), _short(impl), _short(out[islf]))
        else:
            ctx.count('self:judged:%s' % how)
        for sig, what in _oracle(c, real):
            small = _shrink(c, sig)
            ctx.violate(sig, what, dict(small, stream='c1f'))


def _self_cases(ctx):
    rng = ctx.rng
    cases = [_small_case(rng, zerop=zp) for zp in ZEROP] + [_small_case(rng, gridp=gp) for gp in GRIDP]
    cases += [_small_case(rng, fluxp='spikes', zerop=rng.choice(['none', 'singles']), ivp='flat') for _ in range(ctx.n(6, 60))]
    cases += [_small_case(rng, fluxp='const', ivp='none', zerop='none'), _small_case(rng, fluxp='smooth', ivp='none', zerop='none')]
    cases += [_small_case(rng) for _ in range(ctx.n(80, 2500))]
    # stacked exposures need 101 good pixels each, i.e. a group of 200-500 points: a few, thorough tier only
    cases += [_case(rng, kind='2d', zerop=rng.choice(['none', 'singles'])) for _ in range(ctx.n(0, 6))]
    return _with_scale(rng, cases, 0.2)


def _short(o):
    if 'ok' in o:
        return {'ok': [[core.b2f(b) for b in l[:12]] for l in o['ok']], 'n': len(o['ok'][0])}
    return o


def _grouping(ctx):
    """grouping alone against a direct restatement: maximal runs of sorted good wavelengths with gaps <= maxsep"""
    rng = ctx.rng
    cases = []
    for _ in range(ctx.n(150, 3000)):
        n = rng.randrange(1, 30)
        x, v = [], 0.0
        for _ in range(n):
            v += rng.choice([1.0, 1.0, 1.0, 2.5, 3.7, 0.5, 8.0])
            x.append(v)
        rng.shuffle(x)
        good = [j for j in range(n) if rng.random() < 0.8] or [0]
        isort = sorted(good, key=lambda j: x[j])
        cases.append({'stream': 'groups', 'x': x, 'isort': isort, 'maxsep': rng.choice([0.75, 1.5, 2.25, 3.0, 5.0])})
    res = core.driver_parallel([{'p': 'C11', 'op': 'groups', 'x': _bits(c['x']), 'isort': c['isort'], 'maxsep': F(c['maxsep'])} for c in cases])
    for c, m in zip(cases, res):
        want, cur = [], []
        for j in c['isort']:
            if cur and c['x'][j] - c['x'][cur[-1]] > c['maxsep']:
                want.append(cur)
                cur = []
            cur.append(j)
        want.append(cur)
        ctx.seen(c, nontrivial=len(want) > 1)
        ctx.count('groups:%d' % min(len(want), 5))
        if m != {'ok': want}:
            ctx.disagree('groups', c, {'ok': want}, m)


def _preprocess(ctx):
    """preprocess_spectra: the arguments handed to combine1fiber are the model's shiftRow/pickRow; a Gaussian feature at
    log-wavelength L comes out at L - log10(1+z)"""
    from pydl.pydlspec2d import spec1d, spec2d
    rng = ctx.rng
    for _ in range(ctx.n(14, 80)):
        npix = rng.randrange(180, 320)
        nobj = rng.choice([1, 2, 3, 4])
        dx = 1e-4
        x0 = rng.uniform(3.6, 3.9)
        pad = rng.choice([0, 0, 7])
        loglam = np.array([x0 + dx * j for j in range(npix - pad)] + [0.0] * pad)
        # redshifts and (stars, nearby galaxies) small blueshifts: 1+z > 0 is all the statement asks
        zs = np.array([rng.uniform(0.0, 0.3) if rng.random() < 0.7 else rng.uniform(-0.003, 0.0) for _ in range(nobj)])
        centers = [x0 + dx * rng.uniform(0.35, 0.65) * (npix - pad) for _ in range(nobj)]
        width = rng.uniform(2.5, 5.0) * dx
        flux = np.array([10.0 + 30.0 * np.exp(-0.5 * ((loglam - L) / width) ** 2) * (loglam > 0) for L in centers])
        ivar = np.full((nobj, npix), 4.0) * (loglam > 0)
        intflux = rng.random() < 0.2
        if intflux:
            flux = np.rint(flux).astype(rng.choice(['i8', 'i4']))       # raw counts: an integer flux array holds the same kind of spectrum
        # dead fibres (no good pixel at all) in between: the other objects keep their own redshift
        dead = [k for k in range(nobj) if nobj > 1 and rng.random() < 0.3]
        if len(dead) == nobj:
            dead = dead[:-1]
        for k in dead:
            ivar[k, :] = 0.0
        # isolated zero-weight pixels (a cosmic ray, a bad column) away from the feature, in some of the live objects
        holes = {}
        for k in range(nobj):
            if k not in dead and rng.random() < 0.5:
                cand = [j for j in range(3, npix - pad - 3) if abs(loglam[j] - centers[k]) > 12 * width]
                hs = sorted(rng.sample(cand, min(len(cand), rng.randrange(1, 4))))
                hs = [j for i, j in enumerate(hs) if i == 0 or j - hs[i - 1] > 3]
                for j in hs:
                    ivar[k, j] = 0.0
                holes[k] = hs
        lo = min(centers) - math.log10(1 + zs.max()) - 40 * dx
        hi = max(centers) - math.log10(1 + zs.min()) + 40 * dx
        newloglam = np.arange(lo, hi, dx)
        case = {'stream': 'preprocess', 'loglam': loglam.tolist(), 'z': zs.tolist(), 'centers': centers, 'width': width,
                'newloglam': newloglam.tolist(), 'aesthetics': rng.choice(['mean', 'traditional', 'nothing']), 'dead': dead,
                'holes': {str(k): v_ for k, v_ in holes.items()}}
        calls = []
        real_c1f = spec2d.combine1fiber

        def rec(inloglam, objflux, newl, **kw):
            calls.append((np.array(inloglam), np.array(objflux), np.array(kw['objivar']), kw.get('binsz'), np.array(newl)))
            return real_c1f(inloglam, objflux, newl, **kw)
        try:
            with warnings.catch_warnings(), np.errstate(all='ignore'):
                warnings.simplefilter('ignore')
                with mock.patch.object(spec2d, 'combine1fiber', rec):
                    f, v, l = spec1d.preprocess_spectra(flux.copy(), ivar.copy(), loglam=loglam.copy(), zfit=zs.copy(),
                                                        newloglam=newloglam.copy(), aesthetics=case['aesthetics'])
        except Exception as e:
            ctx.seen(case)
            ctx.violate('preprocess:exception:' + core.exc_kind(e), 'preprocess_spectra raised %s: %s' % (type(e).__name__, e), case)
            continue
        ctx.seen(case)
        ctx.count('preprocess:nobj=%d' % nobj)
        ctx.count('preprocess:blueshifted-objects', int((zs < 0).sum()))
        ctx.count('preprocess:flux-dtype:' + str(flux.dtype))
        lines = [{'p': 'C11', 'op': 'shift', 'loglam': _bits(loglam), 'row': _bits(flux[k]), 's': F(np.log10(1.0 + zs)[k])} for k in range(nobj)]
        for k, m in enumerate(core.driver(lines)):
            impl = [_bits(calls[k][0]), _bits(calls[k][1])] if k < len(calls) else None
            if m != impl:
                ctx.disagree('preprocess:shift', dict(case, obj=k), impl and [impl[0][:4], impl[1][:4]], [m[0][:4], m[1][:4]])
        # the whole loop: one call per object (dead fibres included), each with its own shift, ivar row, binsz and the grid
        m = core.driver([{'p': 'C11', 'op': 'preprocess', 'loglam': _bits(loglam), 'logshift': _bits(np.log10(1.0 + zs)),
                          'flux': [_bits(r) for r in flux], 'ivar': [_bits(r) for r in ivar], 'newx': _bits(newloglam),
                          'method': case['aesthetics']}])[0]
        impl = [[_bits(cl[0]), _bits(cl[1]), _bits(cl[2]), [] if cl[3] is None else [F(cl[3])], [len(cl[0])], _bits(cl[4])] for cl in calls]
        if m != impl:
            bad = next((k for k in range(min(len(m), len(impl))) if m[k] != impl[k]), min(len(m), len(impl)))
            ctx.disagree('preprocess:loop', dict(case, obj=bad), {'calls': len(impl)}, {'calls': len(m)})
        ctx.count('preprocess:calls-compared', len(impl))
        ctx.count('preprocess:dead-fibres=%d' % len(dead))
        for k, hs in holes.items():
            # "exactly 0 for every output pixel that does not lie between two adjacent good input pixels": the output pixels
            # strictly between the neighbours of an isolated zero-weight input pixel (in the object's rest frame)
            xs = loglam - np.log10(1.0 + zs[k])
            for j in hs:
                sel = (newloglam > xs[j - 1] + 1e-9) & (newloglam < xs[j + 1] - 1e-9)
                ctx.count('preprocess:hole-pixels-judged', int(sel.sum()))
                if sel.any() and (np.asarray(v[k])[sel] != 0).any():
                    ctx.violate('preprocess:ivar-next-to-bad-pixel', 'object %d: output pixels next to the zero-weight input pixel %d have '
                                'inverse variance %r (must be exactly 0)' % (k, j, np.asarray(v[k])[sel].tolist()), dict(case, obj=k, holes=hs))
                    break
        for k in range(nobj):
            if k in dead:
                continue
            want = centers[k] - math.log10(1 + zs[k])
            w = f[k] - 10.0
            sel = np.abs(newloglam - want) < 6 * width
            if not np.isfinite(f[k]).all() or not sel.any() or w[sel].sum() <= 0:
                ctx.violate('preprocess:feature-lost', 'object %d: no feature near %r' % (k, want), dict(case, obj=k))
                continue
            cen = float((newloglam[sel] * w[sel]).sum() / w[sel].sum())
            if abs(cen - want) > 0.25 * dx:
                ctx.violate('preprocess:feature-position', 'object %d: feature at %r moved to %r, expected %r = L - log10(1+z)'
                            % (k, centers[k], cen, want), dict(case, obj=k))
            if not (l == newloglam).all():
                ctx.violate('preprocess:loglam', 'returned loglam is not the requested grid', dict(case, obj=k))


def _directed(rng):
    """one case of every zero pattern x grid x method family, so that every branch is met in every run"""
    cases = []
    for zp in ZEROP:
        cases.append(_case(rng, kind='1d', zerop=zp))
    for gp in GRIDP:
        cases.append(_case(rng, kind='1d', gridp=gp, zerop=rng.choice(['none', 'singles'])))
    for me in [None] + METHODS + ['bogus']:
        cases.append(_case(rng, kind='1d', method=me, gridp=rng.choice(['shift', 'wider']), zerop=rng.choice(['none', 'runs'])))
    for me in METHODS:
        cases.append(_case(rng, kind='1d', method=me, gridp=rng.choice(['outside', 'tail', 'head'])))
    # one or two good output pixels at the very start / end of the output grid, every method (damp's roll-off lengths are 0 / 1 there)
    for me in METHODS:
        for gp in ('tail', 'tail', 'tail', 'head', 'head'):
            cases.append(_case(rng, kind='1d', method=me, gridp=gp, zerop=rng.choice(['none', 'none', 'singles'])))
    for k in (1, 2, 3, 4, 5):
        for off in (0.2, 0.5, 0.8):
            cases.append(_case(rng, kind='1d', method='damp', gridp='tail:%d:%s' % (k, off), zerop='none', fluxp=rng.choice(['smooth', 'const']),
                               ivp=rng.choice(['flat', 'none'])))
            cases.append(_case(rng, kind='1d', method='damp', gridp='head:%d:%s' % (k, off), zerop='none', fluxp=rng.choice(['smooth', 'const'])))
        cases.append(_case(rng, kind='1d', method=me, gridp='tailfine', zerop='none'))
    cases.append(_case(rng, kind='1d', fluxp='smooth', zerop='none', gridp='same', method=None, ivp='flat'))
    cases.append(_case(rng, kind='1d', fluxp='smooth', zerop='none', gridp='same', method=None, ivp='none'))
    cases.append(_case(rng, kind='1d', fluxp='const', zerop='singles', gridp='shift'))
    for _ in range(3):
        cases.append(_case(rng, kind='1d', fluxp='const', ivp='none', zerop='none', gridp=rng.choice(['same', 'shift', 'narrower', 'wider'])))
    for zp in ['none', 'singles', 'runs', 'ends', 'fewgood']:
        cases.append(_case(rng, kind='2d', zerop=zp))
    cases.append(_case(rng, kind='2d', fluxp='const'))
    for fp in ('smooth', 'const', 'noisy'):
        cases.append(_case(rng, kind='2d', fluxp=fp, zerop='none', ivp='none'))
    for _ in range(3):
        c = _case(rng, kind='2d', zerop='singles')
        cases.append(c)
    return cases


def _with_scale(rng, cases, frac):
    """scaling factors: powers of two for every case (all float operations then scale exactly), other factors only where every
    knot interval has data (a nearly singular fit amplifies rounding differences arbitrarily)"""
    for c in cases:
        if rng.random() < frac and not c.get('bad_shape'):
            well = c['tag'].get('zero') in ('none', 'ends') and c['kw'].get('maxsep') is None and c['kw'].get('binsz') is None
            # 2**-30 and 2**-56: spectra in physical units (1e-9 .. 1e-17 per pixel); only small factors, because inverse variances
            # below 2**-23 count as 'no data' in the code
            c['tag']['scale'] = rng.choice([2.0, 0.5, 4.0, 0.25, 16.0, 0.0625, 2.0 ** -30, 2.0 ** -56, 2.0 ** -56] + ([3.0, 0.1, 10.0, 0.37] if well else []))
            if c.get('ivar') is None and rng.random() < 0.6:
                # without an inverse variance there is no 'no data' floor: raw counts (1e5 .. 1e9) are the same spectrum
                c['tag']['scale'] = rng.choice([2.0 ** 17, 2.0 ** 20, 2.0 ** 30])
    return cases


def run(ctx):
    _setup(ctx)
    ok = core.audit(ctx, LEAN_MODULES, THEOREMS)
    rng = ctx.rng
    cases = _directed(rng) + [_case(rng) for _ in range(ctx.n(150, 6000))]
    _with_scale(rng, cases, 0.35)
    try:
        _grouping(ctx)
        _combine(ctx, cases)
        _kwargs(ctx, cases[:ctx.n(60, 1200)])
        _self(ctx, _self_cases(ctx))
        _preprocess(ctx)
    except core.DriverError as e:
        ctx.oblige('lean driver', False, 'build', str(e))
        ok = False
    if not ok or ctx.disagreements:
        # failing-input search: oracle only, more cases of the families that disagreed
        fam = [d['case'].get('tag', {}) for d in ctx.disagreements if isinstance(d['case'], dict)][:20]
        more = [_case(rng, zerop=t.get('zero') if t.get('zero') in ZEROP else None, gridp=t.get('grid')) for t in fam for _ in range(5)]
        more += [_case(rng) for _ in range(ctx.n(60, 600))]
        if any(isinstance(d['case'], dict) and d['case'].get('layout') == 'F' for d in ctx.disagreements):
            # memory layout: stacked exposures with runs / single zero-weight pixels, not C-contiguous
            more += [dict(_case(rng, kind='2d', zerop=rng.choice(['runs', 'singles', 'ends'])), layout='F') for _ in range(ctx.n(40, 300))]
        _combine(ctx, _with_scale(rng, more, 0.35), search=True)


def replay(ctx, case):
    _setup(ctx)
    core.audit(ctx, LEAN_MODULES, THEOREMS)
    if case.get('stream') == 'c1f:kwargs':
        c = {k: v for k, v in case.items() if k not in ('stream', 'which', 'kwseed')}
        c.setdefault('tag', {})
        plain = _run_real(c, record=False)
        withkw = _run_real(c, record=False, extra=_extra_kw(case['which'], case['kwseed']))
        if 'err' in withkw and 'err' not in plain:
            ctx.violate('kwargs:exception:%s:%s' % (withkw['err'], case['which']), 'combine1fiber raised %s with the keyword, returns without it' % withkw.get('msg'), case)
        elif 'out' in plain and not all(_bits(a) == _bits(b) for a, b in zip(plain['out'], withkw['out'])):
            ctx.disagree('c1f:kwargs:' + case['which'], case, 'differs', 'plain call')
    elif case.get('stream') in ('c1f', 'c1f:self'):
        c = {k: v for k, v in case.items() if k not in ('stream', 'call')}
        c.setdefault('tag', {})
        (_self if case['stream'] == 'c1f:self' else _combine)(ctx, [c])
    else:
        run(ctx)

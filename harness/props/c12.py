"""C12 - Mangle window functions decide point membership exactly as the caps define (DESIGN §5 C12)."""
import os
import math
from fractions import Fraction
import numpy as np
from harness import core

ID = 'C12'
LEAN_MODULES = ['PydlVerif.Props.C12', 'PydlVerif.Lemmas.ManglePly', 'PydlVerif.Model.ManglePly', 'PydlVerif.Model.MangleExt']
P_ = 'PydlVerif.C12.'
THEOREMS = [P_ + t for t in (
    'cap_formula', 'cap_formula_neg', 'cap_centre_inside', 'cap_clip_real', 'clip_dot_unit', 'radec_unit',
    'is_cap_used_testBit', 'polygon_and', 'polygon_no_caps', 'polygon_ncaps_ignores_rest',
    'window_first', 'first_from_least', 'window_formats_agree',
    'or_bits_testBit', 'use_caps_bits', 'use_caps_allow_doubles',
    'record_take', 'balkans_slice',
    'ply_roundtrip_lex', 'ply_roundtrip_partial', 'ply_window_format_independent_partial', 'ply_use_caps_all',
    'circle_cap_within', 'circle_cap_fields', 'add_caps_membership', 'add_caps_selected_and', 'polyn_spec', 'record_scalar',
    'ply_bad_first_line', 'ply_no_first_line', 'ply_count_mismatch_refused', 'ply_missing_rows_refused', 'ply_zero_caps_refused')]
RULE = ('polygon lists of 1-6 polygons with 0-6 caps each (centres random / axis / built from RA,Dec; cm random in (0,2), tiny, 1, 2, '
        'both signs; use-masks all-caps, random, with bits above ncaps), built around a focus point so that first-match indices spread; '
        'points: random on the sphere, near the focus, every cap centre and antipode, on cap boundary circles, each as xyz and as RA/Dec; '
        'ncaps argument 0, negative, 1..ncaps+1; every list goes through ManglePolygon objects, a .ply file, a FITS table raw and '
        'converted, and window_blist/window_bcaps + window_read(balkans=True); set_use_caps: random index lists (subsets, repeats, '
        'out of order), add on/off, doubles exact / within tol / beyond tol / sign-flipped, the three switches; .ply texts: 1-6 or 20-60 '
        'polygons in Mangle layout or with every lexical freedom the reader allows, 29 kinds of single malformation; circle_cap radii 0, '
        '180, random, tiny, scalar or per point; add_caps / polyn with 1-3 new caps, index in or out of range; one-cap FITS tables with '
        'NCAPS 0 or 1. A case is non-trivial '
        'when at least one used cap is evaluated (membership) or one bit is set (set_use_caps); distinct = distinct case payloads')
TRUSTED = ['hand-written model lean/PydlVerif/Model/Mangle.lean tied to the code by the I/O correspondence of this run',
           'libm/numpy sin cos arccos and BLAS dot (parameters of the model: Float instance on the Lean side, compared with tolerance)',
           'astropy.io.fits / astropy.table (file storage), Python float<->text conversion in the .ply reader (parameter parseF of the model)',
           'hand-written models lean/PydlVerif/Model/ManglePly.lean (scanners + parser) and Model/MangleExt.lean, tied to the code by the '
           'ply / ply-malformed / plylex / circlecap / addcaps / polyn / record1 streams of this run']
ASSUMPTIONS = ['cap centres and Cartesian points are unit vectors to rounding, |cm| <= 2, all values finite float64 (FITS columns of type D)',
               'use-masks are non-negative and ncaps <= 30 (USE_CAPS is a 32-bit column); index lists hold non-negative integers',
               'every polygon stores at least NCAPS caps, ICAP >= 0 and ICAP+NCAPS stays inside window_bcaps (other tables are corrupt; the model '
               'reproduces the IndexError/ValueError, the theorems assume well-formed input)',
               'points are 2- or 3-column arrays; a point within 1e-12 (in 1 - x.p) of the boundary circle of a relevant cap is not decided '
               'by the oracle and not compared (counted as boundary)',
               '.ply files are ASCII, centres need not be unit vectors for the reader (the membership oracle is applied to files with unit centres)',
               '.ply files carry no use-mask: after reading, the harness assigns polygon.use_caps (public attribute) when the mask is not all-caps']
MARGIN = 1e-12


# ---------------------------------------------------------------- helpers
def fb(x):
    return core.f2b(x)


def capJ(c):
    return [fb(v) for v in c]


def ptJ(p):
    return [fb(v) for v in p]


def polyJ(P):
    return {'n': P['n'], 'u': P['u'], 'rows': [capJ(c) for c in P['caps']]}


def unit(rng):
    while True:
        v = [rng.gauss(0, 1) for _ in range(3)]
        n = math.sqrt(sum(a * a for a in v))
        if n > 1e-3:
            return [a / n for a in v]


def norm(v):
    n = math.sqrt(math.fsum(a * a for a in v))
    return [a / n for a in v]


def radec_of(v):
    ra = math.degrees(math.atan2(v[1], v[0])) % 360.0
    dec = math.degrees(math.asin(max(-1.0, min(1.0, v[2]))))
    return [ra, dec]


def xyz_of(ra, dec):
    """independent conversion (python math) used by the oracle and to build centres from angles"""
    phi = math.radians(ra)
    th = math.radians(90.0 - dec)
    return [math.cos(phi) * math.sin(th), math.sin(phi) * math.sin(th), math.cos(th)]


def pxyz(p):
    return list(p) if len(p) == 3 else xyz_of(p[0], p[1])


# ---------------------------------------------------------------- oracle (property text, independent of pydl and of the model)
def cap_margin(c, q):
    """signed margin of point q (xyz) for cap c=(x,y,z,cm): > 0 inside, < 0 outside (statement: 1 - x.p <= cm, cm<0 complement)."""
    cm = c[3]
    one_minus_d = math.fsum([1.0, -c[0] * q[0], -c[1] * q[1], -c[2] * q[2]])
    m = (abs(cm) - one_minus_d)
    if abs(m) < 1e-9:
        d = sum(Fraction(a) * Fraction(b) for a, b in zip(c[:3], q))
        m = float(Fraction(abs(cm)) - (1 - d))
    # cm >= 0: inside iff 1-d <= cm ; cm < 0: complement
    return m if cm >= 0 else -m


def oracle_poly(P, q, ncaps=0):
    """(inside?, decided?) for polygon P and xyz point q"""
    n = P['n']
    if ncaps > 0:
        n = min(n, ncaps)
    inside, decided = True, True
    for i in range(n):
        if (P['u'] >> i) & 1:
            m = cap_margin(P['caps'][i], q)
            if abs(m) < MARGIN:
                decided = False
            elif m < 0:
                inside = False
    return inside, decided


def oracle_window(polys, q, ncaps=0):
    """(index or -1, decided?)"""
    for k, P in enumerate(polys):
        ins, dec = oracle_poly(P, q, ncaps)
        if not dec:
            return None, False
        if ins:
            return k, True
    return -1, True


# ---------------------------------------------------------------- real code
def _mp(P):
    from pydl.pydlutils.mangle import ManglePolygon
    if len(P['caps']) == 0:
        return ManglePolygon()
    a = np.array(P['caps'], dtype=np.float64)
    return ManglePolygon(x=a[:, :3].copy(), cm=a[:, 3].copy(), use_caps=P['u'])


_POINT_BUFFERS = {}


def _points(pts):
    """the points as the (n, 2) / (n, 3) float array handed to the real code.  Like a catalogue reader that works through
    chunks, the harness REUSES one work array per shape and refills it in place: an answer that depends on what the same
    array object held at an earlier call (a cache keyed on identity) then differs from the model at once."""
    shape = (len(pts), len(pts[0]))
    buf = _POINT_BUFFERS.get(shape)
    if buf is None:
        buf = _POINT_BUFFERS[shape] = np.empty(shape, dtype=np.float64)
    buf[...] = np.array(pts, dtype=np.float64).reshape(shape)
    return buf


def _canon_window(r):
    return [[bool(a), int(b)] for a, b in zip(r[0], r[1])]


def write_ply(fn, polys):
    with open(fn, 'w') as f:
        f.write('%d polygons\nsnapped\n' % len(polys))
        for k, P in enumerate(polys):
            f.write('polygon %d ( %d caps, 1 weight, 0 pixel, 1.0 str):\n' % (k, len(P['caps'])))
            for c in P['caps']:
                f.write(' %s %s %s %s\n' % tuple(repr(float(v)) for v in c))


def write_fits(fn, polys, pad=0):
    from astropy.io import fits
    n = len(polys)
    mc = max(1, max(len(P['caps']) for P in polys) + pad)
    X = np.zeros((n, mc, 3))
    CM = np.zeros((n, mc))
    for k, P in enumerate(polys):
        for i, c in enumerate(P['caps']):
            X[k, i] = c[:3]
            CM[k, i] = c[3]
    if mc == 1:
        cols = [fits.Column(name='XCAPS', format='3D', array=X[:, 0, :]), fits.Column(name='CMCAPS', format='D', array=CM[:, 0])]
    else:
        cols = [fits.Column(name='XCAPS', format='%dD' % (3 * mc), dim='(3,%d)' % mc, array=X),
                fits.Column(name='CMCAPS', format='%dD' % mc, array=CM)]
    cols += [fits.Column(name='IFIELD', format='J', array=np.arange(n, dtype=np.int32)),
             fits.Column(name='NCAPS', format='J', array=np.array([P['n'] for P in polys], dtype=np.int32)),
             fits.Column(name='WEIGHT', format='D', array=np.ones(n)),
             fits.Column(name='PIXEL', format='J', array=np.zeros(n, dtype=np.int32) - 1),
             fits.Column(name='STR', format='D', array=np.ones(n)),
             fits.Column(name='USE_CAPS', format='J', bzero=2147483648, array=np.array([P['u'] for P in polys], dtype=np.uint32))]
    fits.BinTableHDU.from_columns(cols).writeto(fn, overwrite=True)


def write_balkans(d, blist, bcaps):
    from astropy.io import fits
    b = np.array(bcaps, dtype=np.float64).reshape(len(bcaps), 4)
    fits.BinTableHDU.from_columns([fits.Column(name='X', format='3D', array=b[:, :3]),
                                   fits.Column(name='CM', format='D', array=b[:, 3])]).writeto(os.path.join(d, 'window_bcaps.fits'), overwrite=True)
    n = len(blist)
    fits.BinTableHDU.from_columns([
        fits.Column(name='ICAP', format='J', array=np.array([r[0] for r in blist], dtype=np.int32)),
        fits.Column(name='NCAPS', format='J', array=np.array([r[1] for r in blist], dtype=np.int32)),
        fits.Column(name='WEIGHT', format='D', array=np.ones(n)),
        fits.Column(name='STR', format='D', array=np.ones(n)),
        fits.Column(name='IPRIMARY', format='J', array=np.arange(n, dtype=np.int32)),
        fits.Column(name='IBINDX', format='J', array=np.arange(n, dtype=np.int32))]).writeto(os.path.join(d, 'window_blist.fits'), overwrite=True)


def read_balkans(d):
    from pydl.photoop.window import window_read
    old = os.environ.get('PHOTO_RESOLVE')
    os.environ['PHOTO_RESOLVE'] = d
    try:
        return window_read(balkans=True)['balkans']
    finally:
        if old is None:
            del os.environ['PHOTO_RESOLVE']
        else:
            os.environ['PHOTO_RESOLVE'] = old


def _try(f):
    try:
        return {'ok': f()}
    except Exception as e:
        return {'err': core.exc_kind(e)}


def impl_window(ctx, case):
    """answers of the real code for one polygon list through every storage format"""
    from pydl.pydlutils import mangle as mng
    polys, pts, ncaps = case['polys'], _points(case['pts']), case['ncaps']
    d = ctx.tmpdir()
    out = {}
    out['objects'] = _try(lambda: _canon_window(mng.is_in_window(mng.PolygonList([_mp(P) for P in polys]), pts, ncaps=ncaps)))
    wf = all(P['n'] == len(P['caps']) for P in polys)
    if wf and all(P['n'] >= 1 for P in polys):
        def ply():
            fn = os.path.join(d, 'c12.ply')
            write_ply(fn, polys)
            pl = mng.read_mangle_polygons(fn)
            for q, P in zip(pl, polys):
                if P['u'] != (1 << P['n']) - 1:
                    q.use_caps = P['u']
            return _canon_window(mng.is_in_window(pl, pts, ncaps=ncaps))
        out['ply'] = _try(ply)
    if all(P['u'] < 2**32 for P in polys):
        fn = os.path.join(d, 'c12.fits')
        pad = case.get('pad', 0)

        def raw():
            write_fits(fn, polys, pad)
            return _canon_window(mng.is_in_window(mng.read_fits_polygons(fn), pts, ncaps=ncaps))

        def conv():
            write_fits(fn, polys, pad)
            return _canon_window(mng.is_in_window(mng.read_fits_polygons(fn, convert=True), pts, ncaps=ncaps))
        out['fits-raw'] = _try(raw)
        out['fits-conv'] = _try(conv)
    if 'blist' in case:
        def balk(masks):
            write_balkans(d, case['blist'], case['bcaps'])
            b = read_balkans(d)
            if masks:
                b['USE_CAPS'][:] = np.array([P['u'] for P in polys], dtype=np.int32)
            return _canon_window(mng.is_in_window(b, pts, ncaps=ncaps))
        out['balkans'] = _try(lambda: balk(False))
        if all(P['u'] < 2**31 for P in polys):
            out['balkans-masked'] = _try(lambda: balk(True))
    return out


# ---------------------------------------------------------------- generators
def gen_cm(rng, lo=None):
    """cm magnitude in (0, 2]; lo = smallest value that still contains the focus"""
    r = rng.random()
    if r < 0.04:
        v = 0.0          # a zero-size cap contains only its centre (and -0.0 is the same cap)
    elif r < 0.55:
        v = rng.uniform(0.0, 2.0)
    elif r < 0.7:
        v = 10 ** rng.uniform(-7, -1)
    elif r < 0.8:
        v = 1.0
    elif r < 0.85:
        v = 2.0
    else:
        v = 1 - math.cos(math.radians(rng.choice([0.5, 1.0, 5.0, 30.0, 45.0, 90.0, 120.0, 179.0])))
    return v


def gen_centre(rng):
    r = rng.random()
    if r < 0.6:
        return unit(rng)
    if r < 0.75:
        v = [0.0, 0.0, 0.0]
        v[rng.randrange(3)] = rng.choice([1.0, -1.0])
        return v
    if r < 0.9:
        return xyz_of(rng.uniform(0, 360), rng.uniform(-90, 90))
    return xyz_of(float(rng.randrange(0, 360, 15)), float(rng.randrange(-90, 91, 15)))


def gen_cap(rng, focus):
    c = gen_centre(rng)
    if rng.random() < 0.25:
        # centre close to the focus
        c = norm([a + rng.gauss(0, 0.2) for a in focus])
    omd = 1.0 - sum(a * b for a, b in zip(c, focus))      # 1 - c.focus in [0,2]
    mode = rng.random()
    if mode < 0.5 and omd < 1.9:
        cm = min(2.0, omd + rng.uniform(0.01, 2.0 - omd))    # contains the focus
    elif mode < 0.7 and omd > 0.05:
        cm = -rng.uniform(0.001, omd - 0.01) if omd > 0.02 else -1e-3       # complement cap that contains the focus
    else:
        cm = gen_cm(rng) * rng.choice([1.0, 1.0, -1.0])
    return c + [cm]


def gen_mask(rng, n):
    r = rng.random()
    full = (1 << n) - 1
    if r < 0.45:
        return full
    if r < 0.85:
        return rng.randrange(0, full + 1)
    if r < 0.93:
        return rng.randrange(0, full + 1) | (1 << rng.randrange(n, n + 4))      # stray bits above ncaps are ignored
    return 0


def gen_poly(rng, focus, nmax=6):
    r = rng.random()
    n = 0 if r < 0.04 else (1 if r < 0.2 else rng.randint(1, nmax))
    caps = [gen_cap(rng, focus) for _ in range(n)]
    if n >= 2 and rng.random() < 0.15:
        caps[rng.randrange(n)] = list(caps[0])           # repeated cap
    return {'n': n, 'u': gen_mask(rng, n), 'caps': caps}


def gen_points(rng, polys, focus, nrand):
    pts = []
    for P in polys:
        for c in P['caps']:
            x = c[:3]
            pts.append(('centre', list(x)))
            pts.append(('antipode', [-a for a in x]))
            if rng.random() < 0.5:
                # on the boundary circle (to rounding): rotate the centre by the cap radius
                cm = abs(c[3])
                if 0 < cm < 2:
                    t = unit(rng)
                    dtc = sum(a * b for a, b in zip(t, x))
                    t = [a - dtc * b for a, b in zip(t, x)]
                    if math.sqrt(sum(a * a for a in t)) > 1e-3:
                        t = norm(t)
                        s = math.sqrt(max(0.0, 1 - (1 - cm) ** 2))
                        pts.append(('boundary', norm([(1 - cm) * a + s * b for a, b in zip(x, t)])))
    for _ in range(nrand):
        r = rng.random()
        if r < 0.4:
            pts.append(('random', unit(rng)))
        elif r < 0.8:
            pts.append(('near-focus', norm([a + rng.gauss(0, 0.3) for a in focus])))
        else:
            c = rng.choice([c for P in polys for c in P['caps']] or [focus + [0]])
            pts.append(('near-centre', norm([a + rng.gauss(0, 10 ** rng.uniform(-9, -1)) for a in c[:3]])))
    return pts


def gen_window_case(ctx, npoly_max=6):
    rng = ctx.rng
    focus = unit(rng)
    polys = [gen_poly(rng, focus) for _ in range(rng.randint(1, npoly_max))]
    kinds_pts = gen_points(rng, polys, focus, rng.randint(4, 12))
    as_radec = rng.random() < 0.5
    pts = [radec_of(p) if as_radec else p for _, p in kinds_pts]
    r = rng.random()
    maxn = max(P['n'] for P in polys)
    ncaps = 0 if r < 0.6 else (rng.randint(1, maxn + 1) if r < 0.9 else -rng.randint(1, 3))
    case = {'stream': 'window', 'polys': polys, 'pts': pts, 'kinds': [k for k, _ in kinds_pts], 'ncaps': ncaps,
            'pad': rng.choice([0, 0, 1, 3])}
    # the same list as window_blist / window_bcaps: caps stored in a shuffled order with fillers in between
    if all(P['n'] >= 1 for P in polys):
        order = list(range(len(polys)))
        rng.shuffle(order)
        bcaps, icap = [], {}
        for k in order:
            for _ in range(rng.choice([0, 0, 1, 2])):
                bcaps.append(gen_cap(rng, focus))
            icap[k] = len(bcaps)
            bcaps += [list(c) for c in polys[k]['caps']]
        case['blist'] = [[icap[k], polys[k]['n']] for k in range(len(polys))]
        case['bcaps'] = bcaps
    return case


# ---------------------------------------------------------------- streams
def check_window(ctx, case, model=None):
    """correspondence + oracle for one polygon list; model = pre-computed driver answers (list, balkans) or None"""
    polys, pts, ncaps = case['polys'], case['pts'], case['ncaps']
    impl = impl_window(ctx, case)
    if model is None:
        model = core.driver(window_lines(case))
    m_list = model[0]
    full = [dict(P, u=(1 << P['n']) - 1) for P in polys]
    # oracle per point, per mask variant
    qs = [pxyz(p) for p in pts]
    want = [oracle_window(polys, q, ncaps) for q in qs]
    want_full = [oracle_window(full, q, ncaps) for q in qs] if 'blist' in case else None
    nontriv = any(P['u'] & ((1 << P['n']) - 1) for P in polys)
    ctx.seen({k: case[k] for k in ('stream', 'polys', 'pts', 'ncaps')}, nontrivial=nontriv)
    ctx.count('window:npoly=%d' % len(polys))
    ctx.count('window:points:' + ('radec' if len(pts[0]) == 2 else 'xyz'), len(pts))
    ctx.count('window:ncaps-arg:' + ('0' if ncaps == 0 else ('neg' if ncaps < 0 else 'pos')))
    for (w, dec), kind in zip(want, case.get('kinds', ['?'] * len(pts))):
        ctx.count('window:point:%s:%s' % (kind, 'boundary-undecided' if not dec else ('none' if w == -1 else 'first=%d' % min(w, 3))))
    ok = True
    for fmt, r in sorted(impl.items()):
        ctx.count('window:format:' + fmt + (':err' if 'err' in r else ''))
        wnt = want_full if fmt == 'balkans' else want
        mod = model[1] if fmt == 'balkans' else m_list
        if 'err' in r or 'err' in mod:
            if r != mod:
                ctx.disagree('window/' + fmt, _min_case(case, fmt), r, mod)
                ok = False
            if 'err' in r:
                ctx.violate('window:%s:%s' % (fmt, r['err']), 'is_in_window raised %s for polygons read as %s' % (r['err'], fmt),
                            _shrink_window(ctx, case, fmt, lambda rr: 'err' in rr))
            continue
        for i, ((w, dec), got, mm) in enumerate(zip(wnt, r['ok'], mod['ok'])):
            if not dec:
                continue
            if got != mm:
                ctx.disagree('window/' + fmt, _one_point(case, i, fmt), got, mm)
                ok = False
            if got != [w >= 0, w]:
                kind = case.get('kinds', ['?'] * len(pts))[i]
                sig = 'window:' + ('cap-centre-outside' if kind == 'centre' and got[1] != w and (got[1] == -1 or got[1] > w >= 0)
                                   else 'wrong-index')
                ctx.violate(sig, 'is_in_window (%s) gives %s for point %r, the caps define %s' % (fmt, got, pts[i], [w >= 0, w]),
                            _one_point(case, i, fmt, ctx))
                ok = False
    # identical answers through every storage format (same masks): bit-identical inputs, so all points count
    same = [(f, r) for f, r in sorted(impl.items()) if f != 'balkans']
    for f, r in same[1:]:
        if r != same[0][1] and 'err' not in r and 'err' not in same[0][1]:
            i = next(i for i in range(len(pts)) if r['ok'][i] != same[0][1]['ok'][i])
            ctx.violate('window:formats-differ:%s' % f, 'answers differ between %s and %s: %s vs %s at point %r' %
                        (same[0][0], f, same[0][1]['ok'][i], r['ok'][i], pts[i]), _one_point(case, i, f))
    return ok


def window_lines(case):
    l1 = {'p': 'C12', 'op': 'window', 'polys': [polyJ(P) for P in case['polys']], 'pts': [ptJ(p) for p in case['pts']],
          'ncaps': case['ncaps']}
    out = [l1]
    if 'blist' in case:
        out.append({'p': 'C12', 'op': 'window', 'blist': case['blist'], 'bcaps': [capJ(c) for c in case['bcaps']],
                    'pts': [ptJ(p) for p in case['pts']], 'ncaps': case['ncaps']})
    return out


def _window_bad(ctx, c, fmt):
    """does format fmt still contradict the oracle on case c (any decided point)?"""
    r = impl_window(ctx, c).get(fmt)
    if r is None or 'err' in r:
        return False
    polys = [dict(P, u=(1 << P['n']) - 1) for P in c['polys']] if fmt == 'balkans' else c['polys']
    for p, got in zip(c['pts'], r['ok']):
        w, dec = oracle_window(polys, pxyz(p), c['ncaps'])
        if dec and got != [w >= 0, w]:
            return True
    return False


def _one_point(case, i, fmt, ctx=None):
    """the case cut to point i when that alone still fails, else the whole batch with the index of the point
    (numpy's vectorised sin/cos/dot may round differently for other batch sizes)"""
    c = {k: v for k, v in case.items() if k != 'kinds'}
    c['kinds'] = list(case.get('kinds', ['?'] * len(case['pts'])))
    c['format'] = fmt
    c1 = dict(c, pts=[case['pts'][i]], kinds=[c['kinds'][i]])
    if ctx is None:
        return c1
    try:
        if _window_bad(ctx, c1, fmt):
            return c1
    except Exception:
        pass
    return dict(c, point_index=i)


def _min_case(case, fmt):
    c = {k: v for k, v in case.items()}
    c['format'] = fmt
    return c


def _shrink_window(ctx, case, fmt, bad):
    """smallest sub-list of polygons / points on which format fmt still misbehaves"""
    def fails_polys(ps):
        c = dict(case, polys=ps)
        c.pop('blist', None)
        c.pop('bcaps', None)
        return fmt in (r := impl_window(ctx, c)) and bad(r[fmt])
    c = dict(case)
    if fmt not in ('balkans', 'balkans-masked'):
        try:
            c['polys'] = core.shrink_list(case['polys'], fails_polys, minlen=1)
            c.pop('blist', None)
            c.pop('bcaps', None)
        except Exception:
            pass
    c['pts'] = case['pts'][:1]
    c['kinds'] = case.get('kinds', ['?'])[:1]
    c['format'] = fmt
    return c


def stream_window(ctx):
    n = ctx.n(140, 2500)
    cases = [gen_window_case(ctx) for _ in range(n)]
    cases += directed_window_cases(ctx)
    lines, spans = [], []
    for c in cases:
        ls = window_lines(c)
        spans.append((len(lines), len(ls)))
        lines += ls
    model = core.driver_parallel(lines)
    items = [(c, model[a:a + k]) for c, (a, k) in zip(cases, spans)]
    if ctx.tier != 'thorough':
        for c, m in items:
            check_window(ctx, c, m)
        return
    # thorough: the file round trips dominate; spread the cases over worker processes (fork: pydl is already imported)
    import multiprocessing
    nw = 8
    with multiprocessing.get_context('fork').Pool(nw) as pool:
        parts = pool.map(_window_worker, [(ctx.pid, ctx.tier, ctx.seed, items[w::nw]) for w in range(nw)])
    for r in parts:
        for k, v in r['cov'].items():
            ctx.count(k, v)
        ctx.evaluations += r['ev']
        ctx.distinct |= r['distinct']
        ctx.disagreements += r['dis']
        ctx.violations += r['vio']
        ctx.samples += [x for x in r['samples'] if len(ctx.samples) < 6]


def _window_worker(args):
    pid, tier, seed, items = args
    lctx = core.Ctx(pid, tier, seed)
    try:
        for c, m in items:
            check_window(lctx, c, m)
        return {'cov': lctx.coverage, 'ev': lctx.evaluations, 'distinct': lctx.distinct, 'dis': lctx.disagreements,
                'vio': lctx.violations, 'samples': lctx.samples}
    finally:
        lctx.cleanup()


def directed_window_cases(ctx):
    """hand-built families: single one-cap polygon (FITS scalar columns), empty polygon, point = centre built from RA/Dec"""
    rng = ctx.rng
    out = []
    for _ in range(ctx.n(12, 200)):
        c = gen_centre(rng)
        cm = rng.choice([0.5, 1.0, 1e-4, 1.5, -0.5, 2.0])
        P = {'n': 1, 'u': 1, 'caps': [c + [cm]]}
        pts = [c, [-a for a in c], unit(rng)]
        kinds = ['centre', 'antipode', 'random']
        if rng.random() < 0.5:
            pts = [radec_of(p) for p in pts]
        out.append({'stream': 'window', 'polys': [P], 'pts': pts, 'kinds': kinds, 'ncaps': 0, 'pad': 0,
                    'blist': [[0, 1]], 'bcaps': [c + [cm]]})
    for _ in range(ctx.n(40, 2000)):
        # centre given as RA/Dec on both sides: the cap is built from angles, the point is the same angles
        ra, dec = rng.uniform(0, 360), rng.uniform(-90, 90)
        if rng.random() < 0.3:
            ra, dec = float(rng.randrange(0, 360, 5)), float(rng.randrange(-90, 91, 5))
        c = xyz_of(ra, dec)
        cm = 1 - math.cos(math.radians(rng.choice([0.1, 1.0, 10.0, 60.0])))
        focus = c
        others = [gen_cap(rng, focus) for _ in range(rng.randint(0, 2))]
        P = {'n': 1 + len(others), 'u': (1 << (1 + len(others))) - 1, 'caps': [c + [cm]] + others}
        out.append({'stream': 'window', 'polys': [P], 'pts': [[ra, dec]], 'kinds': ['centre'], 'ncaps': 1, 'pad': 0})
    return out


# ---- single polygon / single cap
def stream_polygon(ctx):
    from pydl.pydlutils import mangle as mng
    rng = ctx.rng
    cases = []
    for _ in range(ctx.n(250, 6000)):
        focus = unit(rng)
        P = gen_poly(rng, focus)
        kp = gen_points(rng, [P], focus, rng.randint(2, 8))
        as_radec = rng.random() < 0.5
        pts = [radec_of(p) if as_radec else p for _, p in kp]
        r = rng.random()
        ncaps = 0 if r < 0.4 else (rng.randint(1, P['n'] + 2) if r < 0.9 else -1)
        cases.append({'stream': 'polygon', 'poly': P, 'pts': pts, 'kinds': [k for k, _ in kp], 'ncaps': ncaps})
    model = core.driver_parallel([{'p': 'C12', 'op': 'inpoly', 'poly': polyJ(c['poly']), 'pts': [ptJ(p) for p in c['pts']],
                                   'ncaps': c['ncaps']} for c in cases])
    for c, m in zip(cases, model):
        check_polygon(ctx, c, m)


def check_polygon(ctx, c, m=None):
    from pydl.pydlutils import mangle as mng
    P, pts, ncaps = c['poly'], c['pts'], c['ncaps']
    if m is None:
        m = core.driver([{'p': 'C12', 'op': 'inpoly', 'poly': polyJ(P), 'pts': [ptJ(p) for p in pts], 'ncaps': ncaps}])[0]
    impl = _try(lambda: [bool(b) for b in mng.is_in_polygon(_mp(P), _points(pts), ncaps=ncaps)])
    used = [i for i in range(P['n']) if (P['u'] >> i) & 1 and (ncaps <= 0 or i < ncaps)]
    ctx.seen({k: c[k] for k in ('stream', 'poly', 'pts', 'ncaps')}, nontrivial=bool(used))
    ctx.count('polygon:used-caps=%d' % len(used))
    ctx.count('polygon:ncaps-arg:' + ('0' if ncaps == 0 else ('neg' if ncaps < 0 else ('restricts' if ncaps < P['n'] else 'ge-ncaps'))))
    if 'err' in impl or 'err' in m:
        if impl != m:
            ctx.disagree('polygon', c, impl, m)
        if 'err' in impl:
            ctx.violate('polygon:' + impl['err'], 'is_in_polygon raised %s' % impl['err'], c)
        return
    kinds = c.get('kinds', ['?'] * len(pts))
    for i, p in enumerate(pts):
        ins, dec = oracle_poly(P, pxyz(p), ncaps)
        if not dec:
            ctx.count('polygon:point:boundary-undecided')
            continue
        ctx.count('polygon:point:%s:%s' % (kinds[i], 'in' if ins else 'out'))
        if impl['ok'][i] != m['ok'][i]:
            ctx.disagree('polygon', dict(c, point_index=i), impl['ok'][i], m['ok'][i])
        if impl['ok'][i] != ins:
            sig = 'polygon:' + ('cap-centre-outside' if kinds[i] == 'centre' and ins else 'wrong-membership')
            ctx.violate(sig, 'is_in_polygon gives %s for point %r, the used caps define %s' % (impl['ok'][i], p, ins), _shrink_poly(c, i))
        # restricting to the first n caps ignores the rest: same answer on the truncated polygon
    if ncaps > 0 and ncaps < P['n']:
        Pt = {'n': ncaps, 'u': P['u'], 'caps': P['caps'][:ncaps]}
        r2 = _try(lambda: [bool(b) for b in mng.is_in_polygon(_mp(Pt), _points(pts))])
        if r2 != impl:
            ctx.violate('polygon:ncaps-not-prefix', 'is_in_polygon(p, ncaps=%d) differs from the polygon cut to its first %d caps' % (ncaps, ncaps), c)


def _poly_bad(c):
    from pydl.pydlutils import mangle as mng
    r = [bool(b) for b in mng.is_in_polygon(_mp(c['poly']), _points(c['pts']), ncaps=c['ncaps'])]
    for p, got in zip(c['pts'], r):
        ins, dec = oracle_poly(c['poly'], pxyz(p), c['ncaps'])
        if dec and got != ins:
            return True
    return False


def _shrink_poly(c, i):
    """one point if that still fails alone, then drop the caps that do not matter"""
    kinds = c.get('kinds', ['?'] * len(c['pts']))
    best = dict(c, point_index=i)
    try:
        c1 = dict(c, pts=[c['pts'][i]], kinds=[kinds[i]])
        if _poly_bad(c1):
            best = c1
        P = best['poly']
        idx = [k for k in range(P['n']) if (P['u'] >> k) & 1 and (best['ncaps'] <= 0 or k < best['ncaps'])]

        def cut(keep):
            return dict(best, poly={'n': len(keep), 'u': (1 << len(keep)) - 1, 'caps': [P['caps'][k] for k in keep]}, ncaps=0)
        keep = core.shrink_list(idx, lambda ks: _poly_bad(cut(ks)), minlen=1)
        if _poly_bad(cut(keep)):
            best = cut(keep)
    except Exception:
        pass
    return best


def _cap_one(c, i):
    """point i alone when is_in_cap / cap_distance answer the same for it alone, else the batch with the index"""
    from pydl.pydlutils import mangle as mng
    kinds = c.get('kinds', ['?'] * len(c['pts']))
    try:
        x, cm = np.array(c['cap'][:3]), c['cap'][3]
        full = mng.cap_distance(x, cm, _points(c['pts']))[i]
        alone = mng.cap_distance(x, cm, _points([c['pts'][i]]))[0]
        if core.f2b(full) == core.f2b(alone) or (math.isnan(full) and math.isnan(alone)):
            return dict(c, pts=[c['pts'][i]], kinds=[kinds[i]])
    except Exception:
        pass
    return dict(c, point_index=i)


def stream_cap(ctx):
    """cap_distance values (tolerance) and is_in_cap decisions, xyz and RA/Dec"""
    rng = ctx.rng
    cases = []
    for _ in range(ctx.n(300, 8000)):
        focus = unit(rng)
        c = gen_cap(rng, focus)
        P = {'n': 1, 'u': 1, 'caps': [c]}
        kp = gen_points(rng, [P], focus, rng.randint(2, 6))
        as_radec = rng.random() < 0.5
        cases.append({'stream': 'cap', 'cap': c, 'pts': [radec_of(p) if as_radec else p for _, p in kp], 'kinds': [k for k, _ in kp]})
    # "including the point at a cap's own centre ... and antipodes": x.p rounds to a value just beyond -1 / 1 for a fraction of
    # a per cent of the unit vectors only, so these two points get a family of their own (xyz form: the antipode is exact)
    for _ in range(ctx.n(1500, 40000)):
        ce = unit(rng) if rng.random() < 0.8 else gen_centre(rng)
        cm = rng.choice([0.5, 1.0, 1.5, 1e-4, 1.9]) * rng.choice([1.0, -1.0])
        cases.append({'stream': 'cap', 'cap': ce + [cm], 'pts': [ce, [-a for a in ce]], 'kinds': ['centre', 'antipode']})
    # points EXACTLY on the boundary circle of a cap with cm >= 0 are inside (1 - x.p <= cm): the configurations in which the
    # arithmetic is exact - axis-aligned centres, cm = 0 (the centre itself), cm = 1 (the great circle: the other axis points),
    # cm = 2 (the antipode)
    for ax in range(3):
        for sg in (1.0, -1.0):
            ce = [0.0, 0.0, 0.0]
            ce[ax] = sg
            others = []
            for bx in range(3):
                if bx != ax:
                    for s2 in (1.0, -1.0):
                        q = [0.0, 0.0, 0.0]
                        q[bx] = s2
                        others.append(q)
            cases.append({'stream': 'cap', 'cap': ce + [0.0], 'pts': [list(ce)], 'kinds': ['centre'], 'exact': True})
            cases.append({'stream': 'cap', 'cap': ce + [1.0], 'pts': others, 'kinds': ['boundary'] * 4, 'exact': True})
            cases.append({'stream': 'cap', 'cap': ce + [2.0], 'pts': [[-v for v in ce]], 'kinds': ['antipode'], 'exact': True})
    model = core.driver_parallel([{'p': 'C12', 'op': 'capdist', 'cap': capJ(c['cap']), 'pts': [ptJ(p) for p in c['pts']]} for c in cases])
    for c, m in zip(cases, model):
        check_cap(ctx, c, m)


def check_cap(ctx, c, m=None):
    from pydl.pydlutils import mangle as mng
    cap, pts = c['cap'], c['pts']
    if m is None:
        m = core.driver([{'p': 'C12', 'op': 'capdist', 'cap': capJ(cap), 'pts': [ptJ(p) for p in pts]}])[0]
    x = np.array(cap[:3])
    cm = cap[3]
    A = _points(pts)
    impl = _try(lambda: ([float(v) for v in mng.cap_distance(x, cm, A)], [bool(b) for b in mng.is_in_cap(x, cm, A)]))
    ctx.seen({k: c[k] for k in ('stream', 'cap', 'pts')})
    ctx.count('cap:cm:' + ('neg' if cm < 0 else 'pos'))
    if 'err' in impl:
        ctx.disagree('cap', c, impl, 'values')
        ctx.violate('cap:' + impl['err'], 'cap_distance raised', c)
        return
    dist, inn = impl['ok']
    kinds = c.get('kinds', ['?'] * len(pts))
    for i, p in enumerate(pts):
        q = pxyz(p)
        mg = cap_margin(cap, q)
        md = core.b2f(m['d'][i])
        d = sum(a * b for a, b in zip(cap[:3], q))
        tol = 1e-9 * max(1.0, abs(md), abs(dist[i])) + (3e-6 if abs(d) > 1 - 1e-9 else 0.0)
        one = _cap_one(c, i)
        if math.isnan(dist[i]) or math.isnan(md):
            if not (math.isnan(dist[i]) and math.isnan(md)):
                ctx.disagree('cap/distance', one, dist[i], md)
        elif abs(dist[i] - md) > tol:
            ctx.disagree('cap/distance', one, dist[i], md)
        # distance oracle: angle(radius) - angle(point), computed with atan2 (well conditioned), sign flipped for cm<0
        cr = [cap[1] * q[2] - cap[2] * q[1], cap[2] * q[0] - cap[0] * q[2], cap[0] * q[1] - cap[1] * q[0]]
        ang = math.atan2(math.sqrt(sum(a * a for a in cr)), d)
        a = abs(cm)
        rad = math.atan2(math.sqrt(max(0.0, a * (2 - a))), 1 - a)
        wantd = math.degrees(rad - ang) * (-1 if cm < 0 else 1)
        if math.isnan(dist[i]) and abs(cm) <= 2 and not math.isnan(wantd):
            ctx.violate('cap:distance-nan', 'cap_distance is NaN for the %s point %r of cap %r (radius - separation = %r)' % (kinds[i], p, cap, wantd), one)
        if not math.isnan(dist[i]) and abs(dist[i] - wantd) > 1e-9 * max(1, abs(wantd)) + 3e-6:
            ctx.violate('cap:distance-value', 'cap_distance = %r, radius - separation = %r' % (dist[i], wantd), one)
        if c.get('exact'):
            ctx.count('cap:point:exact-boundary')
            if inn[i] != m['in'][i]:
                ctx.disagree('cap/in', one, inn[i], m['in'][i])
            if not inn[i]:
                ctx.violate('cap:boundary-point-outside', 'is_in_cap gives False for %r, which lies exactly on the boundary of the cap %r '
                            '(1 - x.p = cm; the cap is closed)' % (p, cap), one)
            continue
        if abs(mg) < MARGIN:
            ctx.count('cap:point:boundary-undecided')
            continue
        ctx.count('cap:point:%s:%s' % (kinds[i], 'in' if mg > 0 else 'out'))
        if inn[i] != m['in'][i]:
            ctx.disagree('cap/in', one, inn[i], m['in'][i])
        if inn[i] != (mg > 0):
            sig = 'cap:' + ('cap-centre-outside' if kinds[i] == 'centre' and mg > 0 else 'wrong-membership')
            ctx.violate(sig, 'is_in_cap gives %s (distance %r) for point %r; 1 - x.p %s |cm|' %
                        (inn[i], dist[i], p, '<=' if (mg > 0) == (cm >= 0) else '>'), one)


# ---- set_use_caps
def oracle_use_caps(caps, u, idx, add, tol, ad, an):
    """statement: exactly the listed bits (plus the old ones when add), minus later doubles of a kept cap.
    double = same centre within tol and (same cm within tol, or cm of opposite sign and equal size within tol unless allowed)."""
    bits = set(i for i in range(64) if add and (u >> i) & 1) | set(idx)
    if not ad:
        T = Fraction(tol)
        kept = []
        for j in sorted(bits):
            if j >= len(caps):
                kept.append(j)
                continue
            dbl = False
            for i in kept:
                if i >= len(caps):
                    continue
                a, b = caps[i], caps[j]
                d2 = sum((Fraction(a[k]) - Fraction(b[k])) ** 2 for k in range(3))
                if d2 < T * T and (abs(Fraction(a[3]) - Fraction(b[3])) < T or (abs(Fraction(a[3]) + Fraction(b[3])) < T and not an)):
                    dbl = True
            if not dbl:
                kept.append(j)
        bits = set(kept)
    return sum(1 << i for i in bits)


def gen_usecaps_case(ctx):
    rng = ctx.rng
    n = rng.randint(1, 7)
    tol = rng.choice([1e-10, 1e-10, 1e-7, 1e-5])
    focus = unit(rng)
    caps = []
    for k in range(n):
        r = rng.random()
        if k == 0 or r < 0.45:
            caps.append(gen_cap(rng, focus))
        else:
            b = list(rng.choice(caps))
            kind = rng.random()
            if kind < 0.25:
                pass                                               # exact double
            elif kind < 0.4:
                b = [b[0] + rng.uniform(-0.3, 0.3) * tol, b[1] + rng.uniform(-0.3, 0.3) * tol, b[2], b[3] + rng.uniform(-0.5, 0.5) * tol]
            elif kind < 0.5:
                b = [b[0] + 3 * tol, b[1], b[2], b[3]]             # centre beyond tol
            elif kind < 0.6:
                b = b[:3] + [b[3] + rng.choice([-3, 3]) * tol]     # cm beyond tol
            elif kind < 0.8:
                b = b[:3] + [-b[3] + rng.uniform(-0.5, 0.5) * tol]  # same cap, opposite sign
            else:
                b = b[:3] + [gen_cm(rng) * rng.choice([1, -1])]    # same centre, unrelated size
            caps.append(b)
    r = rng.random()
    if r < 0.3:
        idx = list(range(n))
    elif r < 0.6:
        idx = sorted(rng.sample(range(n), rng.randint(0, n)))
    elif r < 0.8:
        idx = [rng.randrange(n) for _ in range(rng.randint(1, n + 2))]       # unordered, repeats
    else:
        idx = [rng.randrange(n)]
    return {'stream': 'usecaps', 'caps': caps, 'u': gen_mask(rng, n), 'idx': idx, 'add': rng.random() < 0.3, 'tol': tol,
            'ad': rng.random() < 0.25, 'an': rng.random() < 0.3}


def usecaps_line(c):
    return {'p': 'C12', 'op': 'usecaps', 'rows': [capJ(x) for x in c['caps']], 'u': c['u'], 'idx': c['idx'], 'add': c['add'],
            'tol': fb(c['tol']), 'ad': c['ad'], 'an': c['an']}


def impl_usecaps(c):
    from pydl.pydlutils import mangle as mng

    def f():
        p = _mp({'n': len(c['caps']), 'u': c['u'], 'caps': c['caps']})
        r = mng.set_use_caps(p, list(c['idx']), add=c['add'], tol=c['tol'], allow_doubles=c['ad'], allow_neg_doubles=c['an'])
        assert int(r) == int(p.use_caps)
        return int(r)
    return _try(f)


def usecaps_sig(c, impl=None):
    """None if set_use_caps meets the statement on c, else the class of the failure"""
    impl = impl if impl is not None else impl_usecaps(c)
    want = oracle_use_caps(c['caps'], c['u'], c['idx'], c['add'], c['tol'], c['ad'], c['an'])
    if impl == {'ok': want}:
        return None
    if 'err' in impl:
        return 'usecaps:' + impl['err']
    # does the plain bit-setting step (allow_doubles=True) already fail?
    plain = oracle_use_caps(c['caps'], c['u'], c['idx'], c['add'], c['tol'], True, c['an'])
    if impl_usecaps(dict(c, ad=True)) != {'ok': plain}:
        return 'usecaps:wrong-bits'
    if impl['ok'] & ~want == 0:
        return 'usecaps:non-double-removed'
    return 'usecaps:double-kept'


def check_usecaps(ctx, c, m=None):
    if m is None:
        m = core.driver([usecaps_line(c)])[0]
    impl = impl_usecaps(c)
    want = oracle_use_caps(c['caps'], c['u'], c['idx'], c['add'], c['tol'], c['ad'], c['an'])
    plain = oracle_use_caps(c['caps'], c['u'], c['idx'], c['add'], c['tol'], True, c['an'])
    ctx.seen({k: v for k, v in c.items()}, nontrivial=plain != 0)
    ctx.count('usecaps:' + ('allow-doubles' if c['ad'] else ('removed=%d' % bin(plain ^ want).count('1'))))
    ctx.count('usecaps:index-list:' + ('range' if c['idx'] == list(range(len(c['caps']))) else
                                       ('sorted-subset' if c['idx'] == sorted(set(c['idx'])) else 'unordered/repeats')))
    if impl != {'ok': m}:
        ctx.disagree('usecaps', c, impl, m)
    sig = usecaps_sig(c, impl)
    if sig is not None:
        c2 = _shrink_usecaps(c, sig)
        ctx.violate(sig, 'set_use_caps gives %s, the index list %s (add=%s, old mask %d) defines %d' %
                    (impl_usecaps(c2), c2['idx'], c2['add'], c2['u'],
                     oracle_use_caps(c2['caps'], c2['u'], c2['idx'], c2['add'], c2['tol'], c2['ad'], c2['an'])), c2)


def _shrink_usecaps(c, sig):
    """smaller variants with the same class of failure: defaults for the switches, fewer indices, fewer caps"""
    best = c
    for k, v in (('add', False), ('an', False), ('ad', True)):
        c2 = dict(best, **{k: v})
        if c2 != best and usecaps_sig(c2) == sig:
            best = c2
    idx = core.shrink_list(best['idx'], lambda xs: usecaps_sig(dict(best, idx=xs)) == sig, minlen=1)
    best = dict(best, idx=idx)
    # drop caps that are not indexed (re-number the index list)
    keep = core.shrink_list(list(range(len(best['caps']))),
                            lambda ks: all(i in ks for i in best['idx']) and
                            usecaps_sig(dict(best, caps=[best['caps'][k] for k in ks], idx=[ks.index(i) for i in best['idx']],
                                             u=0 if not best['add'] else best['u'])) == sig, minlen=1)
    if all(i in keep for i in best['idx']):
        c3 = dict(best, caps=[best['caps'][k] for k in keep], idx=[keep.index(i) for i in best['idx']],
                  u=0 if not best['add'] else best['u'])
        if usecaps_sig(c3) == sig:
            best = c3
    return best


def exhaustive_usecaps(ctx):
    """bounded-exhaustive family (thorough): every index list of length <= 3 over 3 caps, every switch setting,
    over cap triples that hold each kind of double"""
    import itertools
    x, y = [0.0, 0.0, 1.0], [1.0, 0.0, 0.0]
    triples = [[x + [0.5], x + [0.5], y + [0.5]], [x + [0.5], y + [0.5], x + [-0.5]], [x + [-0.3], x + [-0.5], x + [-0.3]],
               [x + [0.5], x + [0.5 + 3e-11], x + [0.5]], [x + [0.5], y + [1.0], [0.0, 1.0, 0.0, 1.5]], [x + [0.3], x + [-0.5], x + [0.5]]]
    out = []
    for caps in triples:
        for L in range(0, 4):
            for idx in itertools.product(range(3), repeat=L):
                for add, ad, an in itertools.product([False, True], repeat=3):
                    out.append({'stream': 'usecaps', 'caps': caps, 'u': 5 if add else 7, 'idx': list(idx), 'add': add, 'tol': 1e-10,
                                'ad': ad, 'an': an})
    return out


def stream_usecaps(ctx):
    cases = [gen_usecaps_case(ctx) for _ in range(ctx.n(600, 20000))]
    if ctx.tier == 'thorough':
        ex = exhaustive_usecaps(ctx)
        ctx.count('usecaps:exhaustive-family', len(ex))
        cases += ex
    model = core.driver_parallel([usecaps_line(c) for c in cases])
    for c, m in zip(cases, model):
        check_usecaps(ctx, c, m)


# ---- storage: record -> ManglePolygon, balkans assembly
def stream_storage(ctx):
    from pydl.pydlutils import mangle as mng
    rng = ctx.rng
    d = ctx.tmpdir()
    for _ in range(ctx.n(25, 400)):
        focus = unit(rng)
        polys = [gen_poly(rng, focus) for _ in range(rng.randint(1, 5))]
        if max(P['n'] for P in polys) < 2:
            polys.append({'n': 2, 'u': 3, 'caps': [gen_cap(rng, focus), gen_cap(rng, focus)]})
        pad = rng.choice([0, 1, 2])
        mc = max(P['n'] for P in polys) + pad
        # stored rows beyond NCAPS are arbitrary caps (must be ignored)
        stored = [dict(P, caps=P['caps'] + [gen_cap(rng, focus) for _ in range(mc - P['n'])]) for P in polys]
        fn = os.path.join(d, 'c12s.fits')
        write_fits(fn, stored)
        conv = mng.read_fits_polygons(fn, convert=True)
        impl = [{'n': int(q.ncaps), 'u': int(q.use_caps), 'rows': [capJ(list(q.x[i]) + [q.cm[i]]) for i in range(q.x.shape[0])]} for q in conv]
        model = core.driver([{'p': 'C12', 'op': 'record', 'poly': polyJ(P)} for P in stored])
        c = {'stream': 'record', 'polys': stored}
        ctx.seen(c)
        ctx.count('storage:record')
        if impl != model:
            ctx.disagree('record', c, impl, model)
        if impl != [polyJ(P) for P in polys]:
            ctx.violate('storage:record', 'ManglePolygon(FITS row) does not hold exactly the first NCAPS caps', c)
    for _ in range(ctx.n(25, 400)):
        focus = unit(rng)
        bcaps = [gen_cap(rng, focus) for _ in range(rng.randint(1, 14))]
        if rng.random() < 0.5:
            # window files hold balkans whose caps repeat a centre: a cap next to the complement of a smaller or equal one (a
            # ring / rim), or a cap listed twice.  Every stored cap is in use (USE_CAPS = all ones of NCAPS bits).
            for _ in range(rng.randint(1, 3)):
                k = rng.randrange(len(bcaps))
                twin = list(bcaps[k])
                if rng.random() < 0.7:
                    twin[3] = -twin[3]
                bcaps.insert(k + 1, twin)
        blist = []
        for _ in range(rng.randint(1, 6)):
            n = rng.randint(1, min(6, len(bcaps)))
            blist.append([rng.randint(0, len(bcaps) - n), n])
        malformed = rng.random() < 0.15
        if malformed:
            k = rng.randrange(len(blist))
            n = rng.randint(2, 4)
            blist[k] = [max(0, len(bcaps) - rng.randint(0, n - 1)), n]
        c = {'stream': 'balkans', 'blist': blist, 'bcaps': bcaps}
        check_balkans(ctx, c)


def check_balkans(ctx, c):
    d = ctx.tmpdir()
    blist, bcaps = c['blist'], c['bcaps']

    def f():
        write_balkans(d, blist, bcaps)
        b = read_balkans(d)
        return [{'n': int(b['NCAPS'][k]), 'u': int(b['USE_CAPS'][k]),
                 'rows': [capJ(list(b['XCAPS'][k][i]) + [b['CMCAPS'][k][i]]) for i in range(int(b['NCAPS'][k]))]} for k in range(len(b))]
    impl = _try(f)
    m = core.driver([{'p': 'C12', 'op': 'balkans', 'blist': blist, 'bcaps': [capJ(x) for x in bcaps]}])[0]
    wf = all(i + n <= len(bcaps) for i, n in blist)
    ctx.seen(c)
    ctx.count('storage:balkans:' + ('well-formed' if wf else 'slice-outside-bcaps') + (':err' if 'err' in impl else ''))
    if impl != m:
        ctx.disagree('balkans', c, impl, m)
    if wf:
        want = [{'n': n, 'u': (1 << n) - 1, 'rows': [capJ(x) for x in bcaps[i:i + n]]} for i, n in blist]
        if impl != {'ok': want}:
            ctx.violate('storage:balkans-slice', 'window_read(balkans=True): polygon caps are not bcaps[ICAP:ICAP+NCAPS]', c)


# ---------------------------------------------------------------- the check
def run(ctx):
    ok = core.audit(ctx, LEAN_MODULES, THEOREMS)
    n0 = len(ctx.disagreements)
    stream_cap(ctx)
    stream_polygon(ctx)
    stream_window(ctx)
    stream_usecaps(ctx)
    stream_storage(ctx)
    from harness.props import c12_ply
    c12_ply.stream_ply(ctx)
    c12_ply.stream_ext(ctx)
    if (not ok or len(ctx.disagreements) > n0) and not ctx.violations:
        directed_search(ctx)


def directed_search(ctx):
    """failing-input search on the real code alone (oracle only): the families where this code has failed before"""
    from pydl.pydlutils import mangle as mng
    rng = ctx.rng
    for _ in range(ctx.n(2000, 20000)):
        c = unit(rng)
        cm = rng.choice([0.5, 1e-3, 1.0, 1.9])
        got = bool(mng.is_in_cap(np.array(c), cm, np.array([c]))[0])
        ctx.count('search:centre')
        if not got:
            ctx.violate('cap:cap-centre-outside', 'is_in_cap(x, %r, [x]) is False for x = %r' % (cm, c),
                        {'stream': 'cap', 'cap': c + [cm], 'pts': [c], 'kinds': ['centre']})
            break
    for n in range(1, 7):
        for i in range(n):
            focus = unit(rng)
            c = {'stream': 'usecaps', 'caps': [gen_cap(rng, focus) for _ in range(n)], 'u': 0, 'idx': [i], 'add': False, 'tol': 1e-10,
                 'ad': True, 'an': False}
            r = impl_usecaps(c)
            ctx.count('search:usecaps')
            if r != {'ok': 1 << i}:
                ctx.violate('usecaps:' + (r.get('err') or 'wrong-bits'), 'set_use_caps(p, [%d]) gives %s' % (i, r), c)


def _prior_call(case):
    """a failing input may be a HISTORY: the run met the case with work arrays that had held other points before.  The replay
    recreates that: the same shapes are first passed through the real functions with other contents."""
    from pydl.pydlutils import mangle as mng
    try:
        pts = case.get('pts') or []
        if pts:
            other = [[(v * 0.37 + 11.0) % 80.0 for v in p] if len(p) == 2 else [p[2], p[0], p[1]] for p in pts]
            A = _points(other)
            cap = case.get('cap') or (case.get('poly') or {}).get('caps', [None])[0] or ((case.get('polys') or [{}])[0].get('caps') or [None])[0]
            if cap:
                mng.cap_distance(np.array(cap[:3], dtype='d'), cap[3], A)
                mng.is_in_cap(np.array(cap[:3], dtype='d'), cap[3], A)
    except Exception:
        pass


def replay(ctx, case):
    core.audit(ctx, LEAN_MODULES, THEOREMS)
    s = case.get('stream')
    _prior_call(case)
    if s == 'window':
        check_window(ctx, case)
    elif s == 'polygon':
        check_polygon(ctx, case)
    elif s == 'cap':
        check_cap(ctx, case)
    elif s == 'usecaps':
        check_usecaps(ctx, case)
    elif s == 'balkans':
        check_balkans(ctx, case)
    elif s == 'circlecap':
        from harness.props import c12_ply
        c12_ply.check_circlecap(ctx, case)
    elif s in ('addcaps', 'polyn'):
        from harness.props import c12_ply
        c12_ply.check_addcaps(ctx, case)
    elif s in ('ply', 'ply-malformed', 'plylex'):
        from harness.props import c12_ply
        c12_ply.check_ply(ctx, dict(case, stream='ply-malformed' if s == 'plylex' and 'F' not in case else ('ply' if 'F' in case else s)))
    else:
        run(ctx)


LEVEL_TEXT = ('Machine-checked Lean 4 theorems over an executable model of cap_distance / is_in_cap / is_cap_used / is_in_polygon / '
              'is_in_window / set_use_caps / ManglePolygon(FITS row) / window_read(balkans=True): over the reals the arccos test is '
              'exactly 1 - x.p <= cm (cm >= 0) resp. 1 - x.p >= |cm| (cm < 0) and a cap always contains its centre; a polygon is the '
              'AND of its used caps among the first n (no caps: everything); window lookup returns the least polygon index containing '
              'the point or (-1, False), independent of the storage form; set_use_caps sets exactly the listed bits minus later '
              'doubles of a kept cap; balkans polygon k holds bcaps[ICAP_k : ICAP_k+NCAPS_k] - for all list lengths, masks and index '
              'lists. The model is tied to the repository on every run by I/O correspondence through ManglePolygon objects, .ply text, '
              'FITS raw / converted and window_blist/bcaps files, with an independent exact-arithmetic membership oracle. '
              'Extension: read_mangle_polygons is modelled character by character (scanners for strip/split/the header regex, then the '
              'token-level parser with every exception the code raises); proved for all polygon lists: the canonical file parses back to '
              'exactly the keyword lines and polygons (ids, weights, pixel, str, caps, all-caps mask) under the float-text round-trip '
              'hypothesis, membership is therefore independent of the text format, and a bad first line / a cap count that differs '
              'from the rows present / zero caps are refused; circle_cap(r, p) contains exactly the points within r degrees; add_caps / '
              'polyn append caps, keep the mask, and give the intersection once the caps are selected; one-cap FITS rows keep their cap.')
LEVEL_NOTE = ('Trusted: Lean kernel, axioms propext/Classical.choice/Quot.sound at most, the hand-written model (validated only by the '
              'correspondence sample), astropy FITS/Table I/O, float<->text. The theorems are over exact reals: float rounding of the dot '
              'product / arccos is not exhibited by the model beyond the clip to [-1,1]; decisions within 1e-12 of a cap boundary are '
              'not compared. For cm < 0 the code includes the boundary circle (1 - x.p >= |cm|) where the statement says complement; '
              'stated as cap_formula_neg. FITS byte parsing is astropy (compared, not modelled). .ply: the round trip is proved on the '
              'lexed lines (ply_roundtrip_lex); on characters it is ply_roundtrip_partial / ply_window_format_independent_partial with '
              'the named hypothesis hlex (scanners applied to the rendered text give the canonical lines) - evaluated for a concrete file '
              'in Lean and compared for every generated file (plylex stream), not proved in general. float(text) is a parameter (table '
              'of Python float() per token), ASCII files only. record_scalar assumes 0 + x = x (all floats but -0.0).')

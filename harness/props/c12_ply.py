"""C12 extension: the Mangle ASCII polygon format.  Streams `ply` (generated well-formed files with every lexical freedom the
real reader allows), `ply-malformed` (one mutation each) and `plylex` (the model's hand-written scanners against Python's
str / re on every line of every generated file).  Real code: pydl.pydlutils.mangle.read_mangle_polygons; model:
lean/PydlVerif/Model/ManglePly.lean (ops plyparse / plylex)."""
import os
import re
import math
import numpy as np
from harness import core

R1 = re.compile(r'polygon\s+(\d+)\s+\(([^)]+)\):')


def _base():
    from harness.props import c12
    return c12


# ---------------------------------------------------------------- text generation
def fmt_float(rng, v, exact=False):
    r = rng.random() * (0.6 if exact else 1.0)
    if r < 0.45:
        return repr(float(v))
    if r < 0.6:
        return '%.17e' % v                      # exponent format
    if r < 0.7:
        return '%.15E' % v
    if r < 0.8:
        return '%.10g' % v                      # shortened: the TEXT is the input, both sides read the same token
    if r < 0.9:
        s = repr(float(v))
        return s if s.startswith('-') else '+' + s
    return ('%.6f' % v).rstrip('0') or '0'      # may end in '.', may be '-0.'


def ws(rng, must=True):
    r = rng.random()
    if r < 0.7:
        return ' ' if must else ''
    if r < 0.85:
        return ' ' * rng.randint(1 if must else 0, 4)
    return rng.choice(['\t', ' \t', '  \t '])


def gen_ply(ctx, many=False):
    """a well-formed file as a structure: first line, keyword/blank/comment lines, polygons (meta entries in file order, cap rows)"""
    rng = ctx.rng
    base = _base()
    focus = base.unit(rng)
    npoly = rng.randint(20, 60) if many else rng.randint(1, 6)
    polys = []
    exact = rng.random() < 0.5          # only number formats that round-trip (repr, 17 digits): unit centres stay unit
    for k in range(npoly):
        n = rng.randint(1, 6) if rng.random() > 0.15 else 1
        caps = [base.gen_cap(rng, focus) for _ in range(n)]
        pid = k if rng.random() < 0.5 else rng.randrange(0, 10 ** rng.randint(1, 9))
        meta = [('caps', str(n))]
        meta.append(('weight', fmt_float(rng, rng.choice([1.0, 0.0, rng.uniform(0, 1), rng.uniform(-5, 5)]))))
        if rng.random() < 0.6:
            meta.append(('pixel', str(rng.choice([0, -1, rng.randrange(0, 5000)]))))
        if rng.random() < 0.8:
            meta.append(('str', fmt_float(rng, rng.choice([0.0, rng.uniform(0, 12.6), 10 ** rng.uniform(-12, -3)]))))
        if rng.random() < 0.2:
            rng.shuffle(meta)
        polys.append({'id': pid, 'meta': meta, 'rows': [[fmt_float(rng, v, exact) for v in c] for c in caps]})
    kw = []
    for _ in range(rng.choice([0, 1, 1, 2, 3])):
        kw.append(rng.choice(['snapped', 'balkanized', 'pixelization 6s', 'real 10', '', '# a comment', 'unit d', 'pixelization -1d']))
    return {'first': '%d polygons' % npoly, 'kw': kw, 'polys': polys}


def render(rng, F, style):
    """the text of the file.  style 'mangle' = exactly what Mangle writes; 'free' = every freedom the reader is known to allow"""
    free = style == 'free'
    nl = '\r\n' if (free and rng.random() < 0.15) else '\n'
    out = []
    lead = (lambda: ws(rng, False)) if free else (lambda: '')
    out.append(lead() + F['first'] + (ws(rng, False) if free else ''))
    for k in F['kw']:
        out.append(lead() + k)
    for P in F['polys']:
        a = (lambda: ws(rng)) if free else (lambda: ' ')
        o = (lambda: ws(rng, False)) if free else (lambda: ' ')
        pid = str(P['id'])
        if free and rng.random() < 0.2:
            pid = '0' * rng.randint(1, 3) + pid
        inner = (',' + o()).join('%s%s%s' % (v, a(), k) for k, v in P['meta'])
        tail = rng.choice(['', '', ' trailing', '  # c']) if free else ''
        out.append(lead() + 'polygon' + a() + pid + a() + '(' + o() + inner + (o() if free else '') + '):' + tail)
        for row in P['rows']:
            out.append((lead() if free else ' ') + a().join(row) + (ws(rng, False) if free else ''))
        if free and rng.random() < 0.25:
            out.append(rng.choice(['', '   ', '# between polygons', 'extra 1 2 3']))    # after the announced rows: ignored
    text = nl.join(out)
    if not (free and rng.random() < 0.2):
        text += nl
    return text


MUTATIONS = ['empty-file', 'blank-first', 'word-first', 'float-first', 'no-polygon-lines', 'no-colon', 'no-caps-key', 'unknown-key',
             'one-word-piece', 'float-caps', 'negative-caps', 'zero-caps', 'more-announced-eof', 'more-announced-mid',
             'fewer-announced', 'row-3', 'row-5', 'row-2', 'row-1-all', 'ragged', 'word-in-row', 'blank-before-rows',
             'polygons-line', 'dup-caps', 'empty-parens', 'bare-polygon', 'comma-in-row', 'empty-piece', 'indented-first-int']
MUST_FAIL = {'empty-file', 'blank-first', 'word-first', 'no-polygon-lines', 'no-colon', 'no-caps-key', 'more-announced-eof',
             'more-announced-mid', 'word-in-row', 'row-2'}


def mutate(rng, F, kind):
    """text of the file with ONE malformation (or unusual but accepted form)"""
    import copy
    F = copy.deepcopy(F)
    k = rng.randrange(len(F['polys']))
    P = F['polys'][k]
    if kind == 'empty-file':
        return ''
    if kind == 'blank-first':
        F['first'] = rng.choice(['', '   '])
    elif kind == 'word-first':
        F['first'] = rng.choice(['polygons', 'x polygons', 'SIMPLE = T', '0x10 polygons', '1__0 polygons', '_1 polygons', '1_ polygons'])
    elif kind == 'float-first':
        F['first'] = rng.choice(['3.0 polygons', '1e2 polygons'])
    elif kind == 'indented-first-int':
        F['first'] = rng.choice(['+%d polygons', '-%d polygons', '1_0%d polygons', '%d']) % len(F['polys'])
    elif kind == 'no-polygon-lines':
        F['polys'] = []
    elif kind == 'no-caps-key':
        P['meta'] = [m for m in P['meta'] if m[0] != 'caps']
        if not P['meta']:
            P['meta'] = [('weight', '1')]
    elif kind == 'unknown-key':
        P['meta'].insert(rng.randrange(len(P['meta']) + 1), (rng.choice(['foo', 'Caps', 'id', 'strs']), '1'))
    elif kind == 'float-caps':
        P['meta'] = [(a, (b + '.0') if a == 'caps' else b) for a, b in P['meta']]
    elif kind == 'negative-caps':
        P['meta'] = [(a, '-%d' % rng.randint(1, 12) if a == 'caps' else b) for a, b in P['meta']]
    elif kind == 'zero-caps':
        P['meta'] = [(a, '0' if a == 'caps' else b) for a, b in P['meta']]
        P['rows'] = []
    elif kind == 'more-announced-eof':
        P = F['polys'][-1]
        P['meta'] = [(a, str(len(P['rows']) + rng.randint(1, 3)) if a == 'caps' else b) for a, b in P['meta']]
    elif kind == 'more-announced-mid':
        if len(F['polys']) < 2:
            F['polys'].append(copy.deepcopy(P))
        P = F['polys'][rng.randrange(len(F['polys']) - 1)]
        P['meta'] = [(a, str(len(P['rows']) + rng.randint(1, 2)) if a == 'caps' else b) for a, b in P['meta']]
    elif kind == 'fewer-announced':
        P['rows'].append(list(P['rows'][0]))
    elif kind == 'row-3':
        P['rows'][rng.randrange(len(P['rows']))].pop()
        if len(P['rows']) > 1 and rng.random() < 0.5:
            P['rows'] = [r[:3] for r in P['rows']]
    elif kind == 'row-5':
        P['rows'][rng.randrange(len(P['rows']))].insert(3, '7.5')
    elif kind == 'row-2':
        P['rows'] = [r[:2] for r in P['rows']]
    elif kind == 'row-1-all':
        P['rows'] = [r[:1] for r in P['rows']]
    elif kind == 'ragged':
        if len(P['rows']) < 2:
            P['rows'].append(list(P['rows'][0]))
            P['meta'] = [(a, '2' if a == 'caps' else b) for a, b in P['meta']]
        P['rows'][rng.randrange(len(P['rows']))] = P['rows'][0][:2]
        if P['rows'][0] == P['rows'][-1]:
            P['rows'][0] = P['rows'][0] + ['1']
    elif kind == 'word-in-row':
        r = P['rows'][rng.randrange(len(P['rows']))]
        r[rng.randrange(len(r))] = rng.choice(['abc', '1,5', '0x1p3', '1.2.3', '--1', '1e', 'polygon'])
    elif kind == 'comma-in-row':
        r = P['rows'][rng.randrange(len(P['rows']))]
        r[0] = r[0] + ','
    elif kind == 'dup-caps':
        P['meta'].append(('caps', str(rng.choice([len(P['rows']), len(P['rows']) + 1]))))
    elif kind == 'empty-piece':
        P['meta'].insert(rng.randrange(len(P['meta']) + 1), ('', ''))
    elif kind == 'one-word-piece':
        P['meta'].insert(rng.randrange(len(P['meta']) + 1), ('', rng.choice(['1', 'weight'])))
    text = render(rng, F, rng.choice(['mangle', 'free']))
    lines = text.split('\n')
    hp = [i for i, l in enumerate(lines) if l.strip().startswith('polygon ') or l.strip().startswith('polygon\t')]
    if kind == 'no-colon' and hp:
        i = rng.choice(hp)
        lines[i] = lines[i].replace('):', rng.choice([')', ') :', ':', ');']), 1)
    elif kind == 'blank-before-rows' and hp:
        lines.insert(rng.choice(hp) + 1, '')
    elif kind == 'polygons-line' and hp:
        lines.insert(rng.choice(hp), rng.choice(['polygons 3 ( 1 caps):', 'polygonal', 'polygon']))
    elif kind == 'empty-parens' and hp:
        i = rng.choice(hp)
        lines[i] = re.sub(r'\(.*\)', rng.choice(['()', '( )', '(1 caps) extra)']), lines[i])
    elif kind == 'bare-polygon' and hp:
        i = rng.choice(hp)
        lines[i] = rng.choice(['polygon', 'polygon 5', 'polygon x ( 1 caps):', 'polygon5 ( 1 caps):', 'polygon 5( 1 caps):'])
    return '\n'.join(lines)


# ---------------------------------------------------------------- real code, model, lexical oracle
def float_table(text):
    toks = set(text.split()) | set(t for t in re.split(r'[\s,()]+', text)) | {''}
    tab = []
    for t in sorted(toks):
        try:
            tab.append([t, core.f2b(float(t))])
        except ValueError:
            tab.append([t, None])
    return tab


def impl_parse(ctx, text):
    from pydl.pydlutils import mangle as mng
    fn = os.path.join(ctx.tmpdir(), 'c12x.ply')
    with open(fn, 'wb') as f:
        f.write(text.encode('ascii'))
    try:
        pl = mng.read_mangle_polygons(fn)
    except Exception as e:
        return {'err': type(e).__name__}, None
    out = []
    for p in pl:
        x = np.asarray(p.x, dtype=np.float64).reshape(-1, 3)
        cm = np.asarray(p.cm, dtype=np.float64).reshape(-1)
        out.append({'id': int(p.id), 'n': int(p.ncaps), 'u': int(p.use_caps), 'w': core.f2b(float(p.weight)), 'pixel': int(p.pixel),
                    'str': None if p._str is None else core.f2b(float(p._str)),
                    'rows': [[core.f2b(float(v)) for v in list(x[i]) + [cm[i]]] for i in range(x.shape[0])]})
    return {'ok': {'header': list(pl.header), 'polys': out}}, pl


def py_lex(ctx):
    """the three views the reader takes of each line, with Python's own str / re (independent of the model's scanners)"""
    with open(os.path.join(ctx.tmpdir(), 'c12x.ply'), 'r') as f:
        lines = [l.strip() for l in f.readlines()]
    out = []
    for l in lines:
        m = R1.match(l)
        out.append({'starts': l.startswith('polygon'),
                    'hdr': None if m is None else [m.group(1), [pc.strip().split() for pc in m.group(2).strip().split(',')]],
                    'toks': re.split(r'\s+', l.strip()), 'raw': l})
    return out


def expected(F):
    """what the statement says a well-formed file holds (from the generator's structure, Python float()/int() on the tokens)"""
    out = []
    for P in F['polys']:
        md = dict(P['meta'])
        out.append({'id': P['id'], 'n': len(P['rows']), 'u': (1 << len(P['rows'])) - 1, 'w': core.f2b(float(md.get('weight', '1.0'))),
                    'pixel': int(md.get('pixel', '-1')), 'str': core.f2b(float(md['str'])) if 'str' in md else None,
                    'rows': [[core.f2b(float(t)) for t in r] for r in P['rows']]})
    return out


def check_ply(ctx, c, m=None, ml=None):
    base = _base()
    text = c['text']
    if m is None:
        m, ml = core.driver([{'p': 'C12', 'op': 'plyparse', 'text': text, 'ftab': float_table(text)},
                             {'p': 'C12', 'op': 'plylex', 'text': text}])
    impl, pl = impl_parse(ctx, text)
    stream = c['stream']
    ctx.seen({'stream': stream, 'text': text})
    kind = c.get('kind', c.get('style'))
    ctx.count('%s:%s:%s' % (stream, kind, impl.get('err', 'ok')))
    if impl != m:
        ctx.disagree(stream, c, impl, m)
    lx = py_lex(ctx)
    ctx.count('plylex:lines', len(lx))
    ctx.count('plylex:header-lines-matched', sum(1 for x in lx if x['hdr'] is not None))
    if lx != ml:
        i = next((i for i in range(min(len(lx), len(ml))) if lx[i] != ml[i]), min(len(lx), len(ml)))
        ctx.disagree('plylex', dict(c, line_index=i), lx[i] if i < len(lx) else None, ml[i] if i < len(ml) else None)
    if stream == 'ply':
        # statement level: the file holds exactly the generated polygons; membership does not depend on the storage format
        F = c['F']
        if 'err' in impl:
            ctx.violate('ply:' + impl['err'], 'read_mangle_polygons raised %s on a well-formed file' % impl['err'], c)
            return
        ctx.count('ply:npoly=%s' % (len(F['polys']) if len(F['polys']) < 7 else 'many'))
        ctx.count('ply:caps', sum(len(P['rows']) for P in F['polys']))
        if impl['ok']['polys'] != expected(F):
            k = next((k for k, (a, b) in enumerate(zip(impl['ok']['polys'], expected(F))) if a != b), None)
            ctx.violate('ply:wrong-content', 'read_mangle_polygons: polygon %s differs from the file content' % k, c)
            return
        if impl['ok']['header'] != [k.strip() for k in F['kw']]:
            ctx.violate('ply:wrong-header', 'PolygonList.header is not the keyword lines', c)
        # membership end to end: polygons read from text vs the same numbers as ManglePolygon objects vs the statement
        from pydl.pydlutils import mangle as mng
        polys = [{'n': len(P['rows']), 'u': (1 << len(P['rows'])) - 1, 'caps': [[float(t) for t in r] for r in P['rows']]} for P in F['polys']]
        if all(all(math.isfinite(v) for cp in P['caps'] for v in cp) for P in polys) and len(polys) <= 8:
            rng = ctx.rng
            kp = base.gen_points(rng, polys, base.unit(rng), 4)[:24]
            pts = [p for _, p in kp]
            got = base._try(lambda: base._canon_window(mng.is_in_window(pl, base._points(pts))))
            obj = base._try(lambda: base._canon_window(mng.is_in_window(mng.PolygonList([base._mp(P) for P in polys]), base._points(pts))))
            ctx.count('ply:window-points', len(pts))
            if got != obj:
                ctx.violate('window:formats-differ:ply-text', 'is_in_window differs between the polygons read from text and the same caps '
                            'as ManglePolygon objects', dict(c, pts=pts))
            elif 'ok' in got and all(abs(math.fsum(v * v for v in cp[:3]) - 1.0) < 1e-13 for P in polys for cp in P['caps']):
                # the exact-arithmetic statement oracle needs unit centres (domain); shortened number formats leave it
                ctx.count('ply:window-oracle-files')
                for p, g in zip(pts, got['ok']):
                    w, dec = base.oracle_window(polys, p)
                    if dec and g != [w >= 0, w]:
                        ctx.violate('window:wrong-index', 'is_in_window (.ply text) gives %s for %r, the caps define %s' % (g, p, [w >= 0, w]),
                                    dict(c, pts=[p]))
    else:
        if c.get('kind') in MUST_FAIL and 'ok' in impl:
            ctx.violate('ply:malformed-accepted:' + c['kind'], 'read_mangle_polygons returned polygons for a file whose %s' % c['kind'], c)
        if 'ok' in impl:
            # whatever is accepted: the stored caps are as many as announced (the two asserts)
            for P in impl['ok']['polys']:
                if len(P['rows']) != P['n'] or P['u'] != (1 << P['n']) - 1:
                    ctx.violate('ply:count-mismatch', 'a polygon with ncaps != stored caps was returned', c)


def stream_ply(ctx):
    rng = ctx.rng
    cases = []
    for i in range(ctx.n(120, 3000)):
        F = gen_ply(ctx, many=(rng.random() < 0.04))
        style = 'mangle' if rng.random() < 0.35 else 'free'
        cases.append({'stream': 'ply', 'style': style, 'F': F, 'text': render(rng, F, style)})
    for i in range(ctx.n(180, 4000)):
        F = gen_ply(ctx)
        kind = MUTATIONS[i % len(MUTATIONS)]
        cases.append({'stream': 'ply-malformed', 'kind': kind, 'text': mutate(rng, F, kind)})
    lines = []
    for c in cases:
        lines.append({'p': 'C12', 'op': 'plyparse', 'text': c['text'], 'ftab': float_table(c['text'])})
        lines.append({'p': 'C12', 'op': 'plylex', 'text': c['text']})
    model = core.driver_parallel(lines)
    for k, c in enumerate(cases):
        check_ply(ctx, c, model[2 * k], model[2 * k + 1])


# ---------------------------------------------------------------- circle_cap / add_caps / polyn / copy
def _sep_deg(a, b):
    """angular separation in degrees, atan2 form (well conditioned everywhere; independent of arccos)"""
    cr = [a[1] * b[2] - a[2] * b[1], a[2] * b[0] - a[0] * b[2], a[0] * b[1] - a[1] * b[0]]
    return math.degrees(math.atan2(math.sqrt(math.fsum(v * v for v in cr)), math.fsum(x * y for x, y in zip(a, b))))


def _polyobj(q):
    return {'n': int(q.ncaps), 'u': int(q.use_caps),
            'rows': [[core.f2b(float(v)) for v in list(q.x[i]) + [q.cm[i]]] for i in range(q.x.shape[0])]}


def stream_ext(ctx):
    from pydl.pydlutils import mangle as mng
    base = _base()
    rng = ctx.rng
    stream_record1(ctx)
    # ---- circle_cap
    cases, lines = [], []
    for _ in range(ctx.n(150, 4000)):
        npt = rng.randint(1, 5)
        as_radec = rng.random() < 0.5
        cen = [base.gen_centre(rng) for _ in range(npt)]
        pts = [base.radec_of(c) if as_radec else c for c in cen]
        per_point = rng.random() < 0.4
        rs = [rng.choice([0.0, 180.0, 90.0, rng.uniform(0, 180), 10 ** rng.uniform(-4, 0)]) for _ in range(npt if per_point else 1)]
        c = {'stream': 'circlecap', 'pts': pts, 'r': rs, 'per_point': per_point}
        cases.append(c)
        lines.append({'p': 'C12', 'op': 'circlecap', 'r': [core.f2b(v) for v in (rs if per_point else rs * npt)], 'pts': [base.ptJ(p) for p in pts]})
    model = core.driver_parallel(lines)
    for c, m in zip(cases, model):
        check_circlecap(ctx, c, m)
    # ---- add_caps / polyn / copy
    cases, lines = [], []
    for _ in range(ctx.n(150, 3000)):
        focus = base.unit(rng)
        P = base.gen_poly(rng, focus)
        while P['n'] < 1:
            P = base.gen_poly(rng, focus)
        kp = base.gen_points(rng, [P], focus, rng.randint(2, 6))
        pts = [p for _, p in kp]
        if rng.random() < 0.5:
            new = [base.gen_cap(rng, focus) for _ in range(rng.randint(1, 3))]
            c = {'stream': 'addcaps', 'poly': P, 'new': new, 'pts': pts}
            lines.append({'p': 'C12', 'op': 'addcaps', 'poly': base.polyJ(P), 'new': [base.capJ(x) for x in new]})
        else:
            O = base.gen_poly(rng, focus)
            while O['n'] < 1:
                O = base.gen_poly(rng, focus)
            n = rng.randrange(O['n']) if rng.random() < 0.85 else O['n'] + rng.randint(0, 2)
            c = {'stream': 'polyn', 'poly': P, 'other': O, 'n': n, 'compl': rng.random() < 0.5, 'pts': pts}
            lines.append({'p': 'C12', 'op': 'polyn', 'poly': base.polyJ(P), 'other': base.polyJ(O), 'n': n, 'compl': c['compl']})
        cases.append(c)
    # second line per case: membership of the expected result polygon (old caps + new ones, old mask) in the model
    for c in cases:
        lines.append({'p': 'C12', 'op': 'inpoly', 'poly': base.polyJ(_expected_q(c) or c['poly']), 'pts': [base.ptJ(p) for p in c['pts']], 'ncaps': 0})
    model = core.driver_parallel(lines)
    for k, c in enumerate(cases):
        check_addcaps(ctx, c, model[k], model[len(cases) + k])


def _added(c):
    if c['stream'] == 'addcaps':
        return c['new']
    O = c['other']
    return [O['caps'][c['n']][:3] + [(-1.0 if c['compl'] else 1.0) * O['caps'][c['n']][3]]] if c['n'] < O['n'] else None


def _expected_q(c):
    a = _added(c)
    P = c['poly']
    return None if a is None else {'n': P['n'] + len(a), 'u': P['u'], 'caps': P['caps'] + a}


def stream_record1(ctx):
    """one-cap FITS tables: scalar XCAPS / CMCAPS columns -> ManglePolygon(row) takes the `shape == (3,)` branches"""
    from pydl.pydlutils import mangle as mng
    base = _base()
    rng = ctx.rng
    d = ctx.tmpdir()
    for _ in range(ctx.n(20, 300)):
        focus = base.unit(rng)
        stored = []
        for _ in range(rng.randint(1, 5)):
            n = 1 if rng.random() < 0.7 else 0
            stored.append({'n': n, 'u': base.gen_mask(rng, max(n, 1)) & 0x7fffffff, 'caps': [base.gen_cap(rng, focus)]})   # a cap is stored even when NCAPS = 0
        fn = os.path.join(d, 'c12r1.fits')
        base.write_fits(fn, stored)
        c = {'stream': 'record1', 'polys': stored}
        impl = base._try(lambda: [_polyobj(q) for q in mng.read_fits_polygons(fn, convert=True)])
        model = core.driver([{'p': 'C12', 'op': 'record1', 'poly': base.polyJ(P)} for P in stored])
        ctx.seen(c)
        ctx.count('storage:record1:ncaps0=%d' % sum(1 for P in stored if P['n'] == 0))
        if impl != {'ok': [m.get('ok') for m in model]}:
            ctx.disagree('record1', c, impl, model)
        if 'err' in impl:
            ctx.violate('storage:record1:' + impl['err'], 'ManglePolygon(FITS row) raised on a one-cap table', c)
        elif [(q['n'], q['u'], [[core.b2f(v) for v in r] for r in q['rows']]) for q in impl['ok']] != \
                [(P['n'], P['u'], P['caps']) for P in stored]:          # as numbers: 0.0 + -0.0 = 0.0 (the sign of a zero is lost)
            ctx.violate('storage:record1', 'ManglePolygon(row of a one-cap table) does not hold NCAPS, USE_CAPS and the stored cap', c)


def check_circlecap(ctx, c, m=None):
    from pydl.pydlutils import mangle as mng
    base = _base()
    pts, rs = c['pts'], c['r']
    npt = len(pts)
    if m is None:
        m = core.driver([{'p': 'C12', 'op': 'circlecap', 'r': [core.f2b(v) for v in (rs if c['per_point'] else rs * npt)],
                          'pts': [base.ptJ(p) for p in pts]}])[0]
    A = np.array(pts, dtype=np.float64)
    rad = np.array(rs, dtype=np.float64) if c['per_point'] else (float(rs[0]) if ctx.rng.random() < 0.5 else np.array(rs[0]))
    impl = base._try(lambda: mng.circle_cap(rad, A))
    ctx.seen({k: c[k] for k in ('stream', 'pts', 'r', 'per_point')})
    ctx.count('circlecap:%s:%s' % ('radec' if len(pts[0]) == 2 else 'xyz', 'per-point-radius' if c['per_point'] else 'scalar-radius'))
    if 'err' in impl:
        ctx.disagree('circlecap', c, impl, 'caps')
        ctx.violate('circlecap:' + impl['err'], 'circle_cap raised', c)
        return
    x, cm = impl['ok']
    for i in range(npt):
        got = [float(v) for v in x[i]] + [float(cm[i])]
        mod = [core.b2f(v) for v in m[i]]
        if any(abs(a - b) > 1e-12 + 1e-9 * abs(b) for a, b in zip(got, mod)):
            ctx.disagree('circlecap', dict(c, point_index=i), got, mod)
        # statement: the cap contains exactly the points within r degrees of the centre
        r = rs[i] if c['per_point'] else rs[0]
        cen = base.pxyz(pts[i])
        for _ in range(3):
            q = base.norm([a + ctx.rng.gauss(0, max(1e-3, math.radians(r))) for a in cen]) if ctx.rng.random() < 0.7 else base.unit(ctx.rng)
            s = _sep_deg(got[:3], q)
            if abs(s - r) < 1e-5:
                ctx.count('circlecap:point:boundary-undecided')
                continue
            ins = bool(mng.is_in_cap(x[i], cm[i], np.array([q]))[0])
            ctx.count('circlecap:point:' + ('in' if s < r else 'out'))
            if ins != (s < r):
                ctx.violate('circlecap:wrong-membership', 'circle_cap(%r, %r): point %r at %r degrees reported %s' % (r, pts[i], q, s, ins),
                            dict(c, q=q))


def check_addcaps(ctx, c, m=None, mm=None):
    from pydl.pydlutils import mangle as mng
    base = _base()
    P, pts = c['poly'], c['pts']
    p0 = base._mp(P)
    before = _polyobj(p0)
    if c['stream'] == 'addcaps':
        new = np.array(c['new'], dtype=np.float64)
        if m is None:
            m = core.driver([{'p': 'C12', 'op': 'addcaps', 'poly': base.polyJ(P), 'new': [base.capJ(x) for x in c['new']]}])[0]
        impl = base._try(lambda: mng.ManglePolygon.add_caps(p0, new[:, :3].copy(), new[:, 3].copy()))
    else:
        O = c['other']
        if m is None:
            m = core.driver([{'p': 'C12', 'op': 'polyn', 'poly': base.polyJ(P), 'other': base.polyJ(O), 'n': c['n'], 'compl': c['compl']}])[0]
        o = base._mp(O)
        impl = base._try(lambda: p0.polyn(o, c['n'], complement=c['compl']))
    added = _added(c)
    ctx.seen({k: v for k, v in c.items()})
    ctx.count('%s:%s' % (c['stream'], impl.get('err', 'ok')))
    q = impl.get('ok')
    canon = {'ok': _polyobj(q)} if q is not None else impl
    if canon != m:
        ctx.disagree(c['stream'], c, canon, m)
    if _polyobj(p0) != before:
        ctx.violate('addcaps:input-modified', 'add_caps / polyn changed the polygon it was called on', c)
    if q is None:
        if added is not None:
            ctx.violate('%s:%s' % (c['stream'], impl['err']), '%s raised %s on a valid call' % (c['stream'], impl['err']), c)
        return
    want = {'n': P['n'] + len(added), 'u': P['u'], 'rows': [base.capJ(x) for x in P['caps'] + added]}
    if canon['ok'] != want:
        ctx.violate('addcaps:wrong-polygon', 'the new polygon is not the old caps followed by the new ones with the old use-mask', c)
        return
    # membership as the use-mask defines it (real is_in_polygon on the result vs the statement oracle), then with every cap selected
    Q = {'n': want['n'], 'u': P['u'], 'caps': P['caps'] + added}
    got = base._try(lambda: [bool(b) for b in mng.is_in_polygon(q, base._points(pts))])
    if mm is None:
        mm = core.driver([{'p': 'C12', 'op': 'inpoly', 'poly': base.polyJ(Q), 'pts': [base.ptJ(p) for p in pts], 'ncaps': 0}])[0]
    full = dict(Q, u=(1 << Q['n']) - 1)
    q2 = q.copy()
    q2.use_caps = full['u']
    got2 = base._try(lambda: [bool(b) for b in mng.is_in_polygon(q2, base._points(pts))])
    if int(q.use_caps) != P['u'] or _polyobj(q)['rows'] != want['rows']:
        ctx.violate('copy:not-independent', 'changing use_caps of a copy changed the original', c)
    q3 = q.copy()
    q3.cm[0] = -q3.cm[0] + 0.125
    q3.x[0, 0] = 7.0
    if _polyobj(q) != want or _polyobj(q.copy()) != want:
        ctx.violate('copy:not-independent', 'changing the arrays of a copy changed the original (or copy() is not exact)', c)
    for i, p in enumerate(pts):
        for lab, QQ, g in (('mask', Q, got), ('all-selected', full, got2)):
            ins, dec = base.oracle_poly(QQ, base.pxyz(p))
            if not dec or 'ok' not in g:
                continue
            ctx.count('%s:point:%s:%s' % (c['stream'], lab, 'in' if ins else 'out'))
            if lab == 'mask' and 'ok' in mm and g['ok'][i] != mm['ok'][i]:
                ctx.disagree(c['stream'] + '/membership', dict(c, point_index=i), g['ok'][i], mm['ok'][i])
            if g['ok'][i] != ins:
                ctx.violate('addcaps:wrong-membership', 'is_in_polygon on the polygon from %s (%s) gives %s for %r, the used caps define %s'
                            % (c['stream'], lab, g['ok'][i], p, ins), dict(c, point_index=i))

"""C13 - trace sets: bases are the textbook polynomials, fit / evaluate are consistent (DESIGN §5 C13)."""
import math
import os
from fractions import Fraction
import numpy as np
from harness import core

ID = 'C13'
LEAN_MODULES = ['PydlVerif.Props.C13']
P = 'PydlVerif.C13.'
THEOREMS = [P + t for t in (
    'fpoly_pow', 'fcheb_eq_T', 'fcheb_cos', 'fsplit_eq', 'fleg_bonnet', 'fleg_one', 'fleg_parity',
    'basis_scalar_eq_array', 'basis_entry',
    'fitBasis_entry', 'funcFit_normal', 'funcFit_optimum', 'funcFit_zero_weight', 'funcFit_exact',
    'eval_of_fit', 'xy_of_fit', 'default_grid',
    # extension: the loop of xy2traceset with the real djs_reject inside, traces independent / permutable, FITS-record constructor
    'rejectCall_none', 'tsetFitRej_eq', 'tsetFit_row_is_funcFit', 'tsetFit_row_local', 'tsetFit_other_traces', 'tsetFit_perm',
    'tsXmin_reorder', 'minAll_congr', 'maxAll_congr', 'tsXminmax_reorder', 'tsetFit_perm_full', 'tsetFit_optimum', 'tsTempivar_zero', 'tsetFit_zero_weight', 'ofRec_toRec')]
RULE = ('basis cases: function x order (0..14) x scalar/0-d/1-D abscissae in [-1,1] incl. -1, 0, -0.0, 1; '
        'fit cases: (x, y, invvar with zeros / few good points, ncoeff 1..12, function, ia/inputans, inputfunc) plus malformed shapes and names; '
        'trace-set cases: nTrace x nx position arrays (SDSS: no jump, BOSS: xjumplo/hi/val), fit then evaluate at the same positions '
        'and on the default grid; coefficient-matrix cases through an in-memory FITS record and the two stored trace-set files; '
        'tsrej: xy2traceset with gross outliers / zero weights / masked outliers x maxiter 0,1,2,10,default, each also with the traces re-ordered, '
        'against the model loop that contains C17\'s djs_reject; hdu: trace-set tables built with astropy (in memory and written to / read from a FITS file), '
        'column order shuffled, extra columns, one required or jump column missing; dtype: integer (i4/i8/u2) and float32 pixel positions. '
        'A case is non-trivial when it reaches a basis row >= 2, a normal-equation solve, or an evaluation; distinct = distinct case payloads')
TRUSTED = ['hand-written model lean/PydlVerif/Model/Trace.lean tied to the code by the I/O correspondence of this run',
           'scipy.special.legendre/chebyt + numpy.polyval (the model uses the three-term recurrences; agreement sampled to 1e-9 for orders <= 12)',
           'numpy.linalg.solve (parameter `solve` of the model, contract alpha.res = beta; driver instance: Gaussian elimination)',
           'numpy dot/sum (order of summation not modelled; compared to tolerance)',
           'hand-written models lean/PydlVerif/Model/TraceIter.lean (loop with djs_reject, FITS-record constructor) and Model/Reject.lean (C17) tied to the code by the tsrej / hdu streams',
           'astropy.io.fits (the FITS record is modelled as its list of (column name, first-row value))']
ASSUMPTIONS = ['float64 arrays, 1-D x/y/invvar for func_fit and rectangular 2-D arrays of one shape for TraceSet (integer / float32 positions: '
               'compared with the float64 run of the same values by the dtype stream, not modelled separately)',
               'tsetFit_perm_full: sigma permutes the trace numbers (maps [0,nTrace) into and onto itself); explicit or default xmin/xmax',
               'ia is a bool array of length ncoeff; inputans, when given, has length ncoeff',
               'theorems are over ordered fields (exact arithmetic); optimum needs invvar >= 0, exact recovery needs a positive definite normal matrix',
               'maxiter >= 0 (a negative maxiter leaves ycurfit unassigned: UnboundLocalError, modelled and compared, outside the statement)']
LEVEL_TEXT = ('Machine-checked Lean 4 theorems over an executable generic model of the basis functions, func_fit and TraceSet: '
              'monomials are powers, the Chebyshev recurrence equals Mathlib\'s Chebyshev T (so T_k(cos t) = cos kt), the Legendre recurrence '
              'satisfies Bonnet, P_k(1)=1 and parity, scalar = 1-element array; func_fit\'s result solves the weighted normal equations on the '
              'free coefficients, hence is the weighted-least-squares optimum among vectors with the prescribed fixed coefficients, ignores data '
              'at zero-weight points and recovers exact data; TraceSet.xy at the fitting positions returns the fitted values with or without the '
              'x-jump; the default grid is xmin, xmin+1, ..., xmax - for all orders, lengths, masks and shapes. Extension: the whole loop of '
              'xy2traceset with the real djs_reject (C17 model) inside: the rejection step as called there never rejects and always ends the loop '
              '(rejectCall_none), so the loop is ONE func_fit per trace (tsetFitRej_eq, tsetFit_row_is_funcFit), whose coefficients are the weighted '
              'least-squares optimum over all points of non-zero invvar*inmask (tsetFit_optimum), untouched by values at zero-weight points '
              '(tsetFit_zero_weight); every trace is fitted on its own (tsetFit_row_local, tsetFit_other_traces) and re-ordering the traces re-orders '
              'the rows (tsetFit_perm_full, explicit or default xmin/xmax: min/max of xpos proved independent of the row order); a trace set stored as a FITS record and read back evaluates identically (ofRec_toRec). Model tied to the code on every run '
              'by I/O correspondence at Float (and exact Rat runs of the fits) plus numpy.polynomial / lstsq oracles and metamorphic oracles on the real code.')
LEVEL_NOTE = ('Trusted: Lean kernel, axioms propext/Classical.choice/Quot.sound at most, the hand-written model (validated only by the '
              'correspondence sample), scipy/numpy kernels named in TRUSTED. flegendre/fchebyshev call scipy polynomial objects; the model is '
              'the textbook recurrence and their agreement is sampled (1e-9, orders <= 12), not proved. Theorems are exact-field statements; '
              'float rounding is outside them (fits compared to a conditioning-scaled tolerance). The code computes in the dtype of xpos when that is '
              'floating (float32 in, float32 coefficients) and, since fix b42c4b4, in float64 for integer positions; these are not modelled as '
              'separate arithmetics: integer runs must equal the float64 run bit for bit, float32 runs (float32 or float64 values; mixed precision '
              'raised AssertionError before fix 45c4a77) agree with it to 2e-4. '
              'xy2traceset never rejects anything although its docstring speaks of rejection iterations (no lower/upper is passed to djs_reject) and '
              'outmask is all True even at masked points: the model and the theorems state exactly that; the property is silent about outmask. '
              'No theorem of the extension is partial.')

FUNCS = ['legendre', 'chebyshev', 'chebyshev_split', 'poly']
EPS = 2.220446049250313e-16


# ------------------------------------------------------------------ protocol helpers
def fb(v):
    return [core.f2b(x) for x in v]


def fb2(a):
    return [fb(r) for r in a]


def bf(v):
    return [core.b2f(x) for x in v]


def bf2(a):
    return [bf(r) for r in a]


def same(a, b):
    """elementwise IEEE code: identical up to the sign of zero / NaN payload"""
    return a == b or (isinstance(a, float) and isinstance(b, float) and math.isnan(a) and math.isnan(b))


def same_list(a, b):
    return len(a) == len(b) and all(same(x, y) for x, y in zip(a, b))


def close_list(a, b, tol=core.REL_TOL, scale=1.0):
    if len(a) != len(b):
        return False
    for x, y in zip(a, b):
        if math.isnan(x) or math.isnan(y):
            if not (math.isnan(x) and math.isnan(y)):
                return False
        elif math.isinf(x) or math.isinf(y):
            if x != y:
                return False
        elif abs(x - y) > tol * max(1.0, abs(x), abs(y), scale):
            return False
    return True


def flat(a):
    return [float(v) for r in a for v in r]


def shape2(a):
    return [len(a), len(a[0]) if len(a) else 0]


# ------------------------------------------------------------------ oracle (numpy.polynomial; independent of pydl and of the model)
def oracle_basis(func, x, m):
    """(m, n) array of the textbook basis"""
    x = np.atleast_1d(np.asarray(x, dtype='d')).ravel()
    if func == 'legendre':
        return np.polynomial.legendre.legvander(x, m - 1).T
    if func == 'chebyshev':
        return np.polynomial.chebyshev.chebvander(x, m - 1).T
    if func == 'poly':
        return np.array([x ** k for k in range(m)])
    if func == 'chebyshev_split':
        out = np.ones((m, x.size))
        out[0] = np.where(x >= 0, 1.0, 0.0)
        if m > 2:
            out[2:] = np.polynomial.chebyshev.chebvander(x, m - 2).T[1:]
        return out
    raise KeyError(func)


def oracle_xnorm(x, xmin, xmax, jump):
    x = np.asarray(x, dtype='d')
    if jump is not None:
        lo, hi, val = jump
        frac = np.clip((x - lo) / (hi - lo), 0.0, 1.0)
        x = x + frac * val
    return (2.0 * x - (xmin + xmax)) / (xmax - xmin)


def oracle_fit(c):
    """weighted least squares on the free coefficients by dense lstsq; returns (res, cond(alpha)) or None (outside the statement)"""
    x = np.array(c['x'], dtype='d')
    y = np.array(c['y'], dtype='d')
    n = x.size
    w = np.ones(n) if c.get('invvar') is None else np.array(c['invvar'], dtype='d')
    nc = c['ncoeff']
    if len(c['y']) != n or w.size != n or (w < 0).any():
        return None
    if c.get('inputfunc') is not None and len(c['inputfunc']) != n:
        return None
    ngood = int((w > 0).sum())
    if nc < 1 or ngood < max(2, nc) or c['func'] not in FUNCS:
        return None
    if c['func'] == 'chebyshev_split' and nc < 2:
        return None
    A = oracle_basis(c['func'], x, nc).T
    if c.get('inputfunc') is not None:
        A = A * np.array(c['inputfunc'], dtype='d')[:, None]
    ia = np.ones(nc, dtype=bool) if c.get('ia') is None else np.array(c['ia'], dtype=bool)
    ans = np.zeros(nc) if c.get('inputans') is None else np.array(c['inputans'], dtype='d')
    free = np.nonzero(ia)[0]
    fixed = np.nonzero(~ia)[0]
    res = np.zeros(nc)
    res[fixed] = ans[fixed]
    r = y - A[:, fixed] @ ans[fixed]
    cond = 1.0
    if free.size:
        sw = np.sqrt(w)
        Af = A[:, free]
        alpha = Af.T @ (Af * w[:, None])
        cond = float(np.linalg.cond(alpha)) if np.isfinite(alpha).all() else float('inf')
        sol = np.linalg.lstsq(Af * sw[:, None], r * sw, rcond=None)[0]
        res[free] = sol
    return res, cond, A


def fit_tol(cond):
    return max(core.REL_TOL, 2e3 * EPS * cond)


COND_MAX = 1e8


# ------------------------------------------------------------------ real code
def _impl_basis(c):
    from pydl.pydlutils.trace import fchebyshev, fchebyshev_split, fpoly
    from pydl.goddard.math import flegendre
    f = {'legendre': flegendre, 'chebyshev': fchebyshev, 'chebyshev_split': fchebyshev_split, 'poly': fpoly}[c['func']]
    if c['form'] == 'pyfloat':
        x = float(c['x'][0])
    elif c['form'] == 'pyint':       # integer abscissae -1, 0, 1: the result is a float array all the same
        x = int(c['x'][0])
    elif c['form'] == 'intarray':
        x = np.array([int(v) for v in c['x']], dtype=np.int64)
    elif c['form'] == 'npfloat':
        x = np.float64(c['x'][0])
    elif c['form'] == '0d':
        x = np.array(c['x'][0], dtype='d')
    else:
        x = np.array(c['x'], dtype='d')
    try:
        r = f(x, c['m'])
        return {'ok': [[float(v) for v in row] for row in r]}
    except Exception as e:
        return {'err': core.exc_kind(e)}


def _arr(v, dtype='d'):
    return None if v is None else np.array(v, dtype=dtype)


def _impl_fit(c):
    from pydl.pydlutils.trace import func_fit
    try:
        res, yfit = func_fit(_arr(c['x']), _arr(c['y'], c.get('ydtype', 'd')), c['ncoeff'], invvar=_arr(c.get('invvar')),
                             function_name=c['func'], ia=_arr(c.get('ia'), bool), inputans=_arr(c.get('inputans')),
                             inputfunc=_arr(c.get('inputfunc')))
        return {'ok': {'res': [float(v) for v in res], 'yfit': [float(v) for v in np.atleast_1d(yfit)]}}
    except Exception as e:
        return {'err': core.exc_kind(e)}


def _ts_kwargs(c):
    kw = {}
    for k in ('func', 'ncoeff', 'xmin', 'xmax', 'maxiter', 'xjumplo', 'xjumphi', 'xjumpval'):
        if c.get(k) is not None:
            kw[k] = c[k]
    if c.get('invvar') is not None:
        kw['invvar'] = np.array(c['invvar'], dtype='d').reshape(c['shape'])
    if c.get('inmask') is not None:
        kw['inmask'] = np.array(c['inmask'], dtype=bool).reshape(c['shape'])
    return kw


def _impl_tsfit(c):
    """TraceSet(xpos, ypos, ...) and, on success, xy at the same positions and on the default grid"""
    from pydl.pydlutils.trace import xy2traceset, traceset2xy
    xpos = np.array(c['xpos'], dtype='d').reshape(c['shape'])
    ypos = np.array(c['ypos'], dtype='d').reshape(c['shape'])
    kw = _ts_kwargs(c)
    before = {k: v.copy() for k, v in [('xpos', xpos), ('ypos', ypos)] + [(k, kw[k]) for k in ('invvar', 'inmask') if k in kw]}
    try:
        t = xy2traceset(xpos, ypos, **kw)
    except Exception as e:
        return {'err': core.exc_kind(e)}, None
    out = {'coeff': t.coeff.tolist(), 'yfit': t.yfit.tolist(), 'outmask': t.outmask.tolist(),
           'xmin': float(t.xmin), 'xmax': float(t.xmax)}
    # history: the caller's arrays fitted again (same objects, no mask this time) must give the fit of THOSE arguments -
    # a call that leaves something of its own mask / weights behind in them shows here
    cur = {'xpos': xpos, 'ypos': ypos}
    cur.update({k: kw[k] for k in ('invvar', 'inmask') if k in kw})
    changed = [k for k in before if not np.array_equal(before[k], cur[k], equal_nan=True)]
    if changed:
        out['inputs_changed'] = changed
        try:
            kw2 = {k: v for k, v in kw.items() if k != 'inmask'}
            t2 = xy2traceset(xpos, ypos, **kw2)
            kw3 = dict(kw2)
            if 'invvar' in kw3:
                kw3['invvar'] = before['invvar'].copy()
            t3 = xy2traceset(before['xpos'].copy(), before['ypos'].copy(), **kw3)
            if not np.allclose(t2.coeff, t3.coeff, rtol=1e-9, atol=1e-12, equal_nan=True):
                out['second_call_differs'] = {'same-arrays': t2.coeff.tolist(), 'fresh-arrays': t3.coeff.tolist()}
        except Exception as e:
            out['second_call_differs'] = {'err': core.exc_kind(e)}
    try:
        for dt in ('f4', 'i4'):
            try:
                traceset2xy(t, xpos.astype(dt))
            except Exception:
                pass
        out['xy'] = {'ok': traceset2xy(t, xpos)[1].tolist()}
    except Exception as e:
        out['xy'] = {'err': core.exc_kind(e)}
    return {'ok': out}, t


def _fits_rec(c):
    """an in-memory FITS trace-set record (no file)"""
    from astropy.io import fits
    coeff = np.array(c['coeff'], dtype='d').reshape(1, c['ntrace'], c['ncoeff'])
    cols = [fits.Column(name='FUNC', format='16A', array=np.array([c['func']])),
            fits.Column(name='XMIN', format='D', array=np.array([c['xmin']], dtype='d')),
            fits.Column(name='XMAX', format='D', array=np.array([c['xmax']], dtype='d')),
            fits.Column(name='COEFF', format='%dD' % (c['ntrace'] * c['ncoeff']),
                        dim='(%d,%d)' % (c['ncoeff'], c['ntrace']), array=coeff)]
    if c.get('xjumplo') is not None:
        fmt = c.get('jumpfmt', 'D')
        for k in ('xjumplo', 'xjumphi', 'xjumpval'):
            cols.append(fits.Column(name=k.upper(), format=fmt, array=np.array([c[k]], dtype='f4' if fmt == 'E' else 'd')))
    return fits.BinTableHDU.from_columns(cols).data


def _impl_xy(c, t=None):
    from pydl.pydlutils.trace import TraceSet, traceset2xy
    try:
        if t is None:
            t = TraceSet(_fits_rec(c))
        xpos = None if c.get('xpos') is None else np.array(c['xpos'], dtype='d').reshape(c['xshape'])
        if c.get('xjumplo') is not None:
            # the answer must not depend on what the same object was asked before: evaluate once with the other flag first
            try:
                traceset2xy(t, xpos, not c['ignore_jump'])
            except Exception:
                pass
        if xpos is not None:
            # ... nor on the dtype of the positions it was asked at before (single precision, integer pixel numbers)
            for dt in ('f4', 'i4'):
                try:
                    traceset2xy(t, xpos.astype(dt), c['ignore_jump'])
                except Exception:
                    pass
        x, y = traceset2xy(t, xpos, c['ignore_jump'])
        return {'ok': {'x': x.tolist(), 'y': y.tolist()}}
    except Exception as e:
        return {'err': core.exc_kind(e)}


# ------------------------------------------------------------------ model lines
def _line_basis(c):
    l = {'p': 'C13', 'op': 'basis', 'func': c['func'], 'm': c['m']}
    if c['form'] in ('array', 'intarray'):
        l['xs'] = fb(c['x'])
    else:
        l['x'] = core.f2b(c['x'][0])
    return l


def _opt(v, f):
    return None if v is None else f(v)


def _line_fit(c, mode=None):
    l = {'p': 'C13', 'op': 'fit', 'x': fb(c['x']), 'y': fb(c['y']), 'ncoeff': c['ncoeff'], 'func': c['func'],
         'invvar': _opt(c.get('invvar'), fb), 'ia': c.get('ia'), 'inputans': _opt(c.get('inputans'), fb),
         'inputfunc': _opt(c.get('inputfunc'), fb)}
    if mode:
        l['mode'] = mode
    return l


def _rows(v, shape):
    n, m = shape
    return [list(v[i * m:(i + 1) * m]) for i in range(n)]


def _line_tsfit(c):
    sh = c['shape']
    return {'p': 'C13', 'op': 'tsfit', 'then': 'xy', 'xpos': fb2(_rows(c['xpos'], sh)), 'ypos': fb2(_rows(c['ypos'], sh)),
            'invvar': _opt(c.get('invvar'), lambda v: fb2(_rows(v, sh))),
            'inmask': _opt(c.get('inmask'), lambda v: _rows(v, sh)),
            'func': c.get('func') or 'legendre', 'ncoeff': c['ncoeff'] if c.get('ncoeff') is not None else 3,
            'xmin': _opt(c.get('xmin'), core.f2b), 'xmax': _opt(c.get('xmax'), core.f2b),
            'maxiter': c['maxiter'] if c.get('maxiter') is not None else 10,
            'xjumplo': _opt(c.get('xjumplo'), core.f2b), 'xjumphi': _opt(c.get('xjumphi'), core.f2b),
            'xjumpval': _opt(c.get('xjumpval'), core.f2b)}


def _line_xy(c):
    return {'p': 'C13', 'op': 'xy', 'func': c['func'], 'xmin': core.f2b(c['xmin']), 'xmax': core.f2b(c['xmax']),
            'coeff': fb2(_rows(c['coeff'], (c['ntrace'], c['ncoeff']))), 'ncoeff': c['ncoeff'],
            'xjumplo': _opt(c.get('xjumplo'), core.f2b), 'xjumphi': _opt(c.get('xjumphi'), core.f2b),
            'xjumpval': _opt(c.get('xjumpval'), core.f2b),
            'xpos': _opt(c.get('xpos'), lambda v: fb2(_rows(v, c['xshape']))), 'ignore_jump': bool(c['ignore_jump'])}


def _dec_fit(m, rat=False):
    if 'err' in m or 'driver_error' in m:
        return m
    if rat:
        q = lambda p: float(Fraction(p[0], p[1]))
        return {'ok': {'res': [q(p) for p in m['ok']['res']], 'yfit': [q(p) for p in m['ok']['yfit']]}}
    return {'ok': {'res': bf(m['ok']['res']), 'yfit': bf(m['ok']['yfit'])}}


# ------------------------------------------------------------------ generators
def _abscissae(rng, n, special=True):
    """n abscissae in [-1, 1]: jittered grid, shuffled; the endpoints and zero are put in"""
    xs = [-1.0 + 2.0 * (i + rng.uniform(0.15, 0.85)) / n for i in range(n)]
    if special and n >= 3:
        for v in rng.sample([-1.0, 1.0, 0.0, -0.0, 0.5, -0.5], rng.randrange(0, 4)):
            i = min(range(n), key=lambda k: abs(xs[k] - v))
            xs[i] = v
    if rng.random() < 0.5:
        rng.shuffle(xs)
    return xs


def _gen_basis(ctx):
    rng = ctx.rng
    cases = []
    sp = [-1.0, 1.0, 0.0, -0.0, 0.5, -0.5, 1e-300, -1e-300, 0.9999999999999999, -0.9999999999999999]
    for func in FUNCS:
        for m in range(0, 15):
            cases.append({'stream': 'basis', 'func': func, 'm': m, 'form': 'array', 'x': sp})
            for form in ('pyfloat', 'npfloat', '0d'):
                cases.append({'stream': 'basis', 'func': func, 'm': m, 'form': form, 'x': [rng.choice(sp + [rng.uniform(-1, 1)])]})
            cases.append({'stream': 'basis', 'func': func, 'm': m, 'form': 'pyint', 'x': [float(rng.choice([-1, 0, 1]))]})
            if m % 3 == 0:
                cases.append({'stream': 'basis', 'func': func, 'm': m, 'form': 'intarray', 'x': [-1.0, 0.0, 1.0, 0.0]})
    for _ in range(ctx.n(400, 20000)):
        func = rng.choice(FUNCS)
        m = rng.choice([1, 2, 3, 4, 5, 6, 7, 8, 9, 10, 11, 12, 12, 13, 14])
        form = rng.choice(['array', 'array', 'array', 'pyfloat', 'npfloat', '0d'])
        if form == 'array':
            n = rng.choice([0, 1, 2, 3, 5, 8, 13, 21, 34])
            x = [rng.choice(sp) if rng.random() < 0.15 else rng.uniform(-1, 1) for _ in range(n)]
        else:
            x = [rng.choice(sp) if rng.random() < 0.3 else rng.uniform(-1, 1)]
        cases.append({'stream': 'basis', 'func': func, 'm': m, 'form': form, 'x': x})
    # outside [-1, 1] (correspondence only; the statement is about [-1, 1])
    for _ in range(ctx.n(40, 2000)):
        cases.append({'stream': 'basis', 'func': rng.choice(FUNCS), 'm': rng.randrange(1, 10), 'form': 'array',
                      'x': [rng.uniform(-2.5, 2.5) for _ in range(rng.randrange(1, 6))], 'outside': True})
    return cases


def _gen_fit_case(rng, kind=None):
    func = rng.choice(['legendre', 'legendre', 'chebyshev', 'chebyshev', 'chebyshev_split', 'poly'])
    ncoeff = rng.choice([1, 2, 2, 3, 3, 4, 5, 6, 7, 8, 9, 10, 11, 12])
    if func == 'poly':
        ncoeff = min(ncoeff, rng.choice([4, 6, 8]))
    if func == 'chebyshev_split' and ncoeff < 2:
        ncoeff = 2
    n = ncoeff + rng.choice([0, 1, 2, 3, 5, 8, 13, 21])
    n = max(n, 2)
    x = _abscissae(rng, n)
    if func == 'chebyshev_split':
        # both constants must be determined: points on both sides of 0
        if all(v >= 0 for v in x) or all(v < 0 for v in x):
            x[0] = -abs(x[0]) - 0.01 if abs(x[0]) < 0.98 else -0.5
            x[-1] = abs(x[-1])
    c0 = [rng.uniform(-3, 3) for _ in range(ncoeff)]
    A = oracle_basis(func, x, ncoeff).T
    noise = rng.choice([0.0, 0.0, 1e-3, 0.1])
    y = [float(v) + noise * rng.gauss(0, 1) for v in A @ np.array(c0)]
    c = {'stream': 'fit', 'kind': kind or 'plain', 'func': func, 'ncoeff': ncoeff, 'x': x, 'y': y,
         'invvar': None, 'ia': None, 'inputans': None, 'inputfunc': None}
    r = rng.random()
    if r < 0.25:
        pass
    elif r < 0.5:
        c['invvar'] = [rng.uniform(0.2, 5.0) for _ in range(n)]
    else:
        # weights with zeros; keep at least ncoeff good points in most cases
        w = [rng.uniform(0.2, 5.0) for _ in range(n)]
        nzero = rng.randrange(0, max(1, n - ncoeff + 1))
        for i in rng.sample(range(n), nzero):
            w[i] = 0.0
        c['invvar'] = w
    if rng.random() < 0.15:
        # data stored as integer counts or in single precision: the same numbers, the coefficients are still real numbers
        if rng.random() < 0.5:
            c['y'] = [float(round(v * 7)) for v in c['y']]
            c['ydtype'] = rng.choice(['i8', 'i4'])
        else:
            c['y'] = [float(np.float32(v)) for v in c['y']]
            c['ydtype'] = 'f4'
    if c['invvar'] is not None and rng.random() < 0.3:
        # inverse variances in the units of the data: fluxes of 1e6 have weights of 1e-12 (powers of two: exact rescaling)
        sc = 2.0 ** rng.choice([-60, -40, -27, 20, 40])
        c['invvar'] = [v * sc for v in c['invvar']]
        c['wscale'] = sc
    if rng.random() < 0.4 and ncoeff >= 1:
        ia = [rng.random() < 0.6 for _ in range(ncoeff)]
        if rng.random() < 0.1:
            ia = [False] * ncoeff
        c['ia'] = ia
        if rng.random() < 0.8:
            c['inputans'] = [c0[k] if rng.random() < 0.5 else rng.uniform(-3, 3) for k in range(ncoeff)]
            fixed = [k for k in range(ncoeff) if not ia[k]]
            if len(fixed) >= 2 and rng.random() < 0.3:
                # prescribed values that cancel in a sum (+v, -v, the others 0) are prescribed values all the same
                v = rng.choice([1.5, 2.0, 0.25, rng.uniform(0.5, 3)])
                for k in fixed:
                    c['inputans'][k] = 0.0
                a, b = rng.sample(fixed, 2)
                c['inputans'][a], c['inputans'][b] = v, -v
    if rng.random() < 0.15:
        c['inputfunc'] = [rng.uniform(0.5, 2.0) for _ in range(n)]
    return c


def _gen_fit(ctx):
    rng = ctx.rng
    cases = [_gen_fit_case(rng) for _ in range(ctx.n(500, 20000))]
    # few good points: 0, 1, fewer than ncoeff
    for _ in range(ctx.n(60, 1500)):
        c = _gen_fit_case(rng, 'fewgood')
        n = len(c['x'])
        k = rng.choice([0, 1, 1, 2, max(0, c['ncoeff'] - 1), max(0, c['ncoeff'] - 2)])
        k = min(k, n)
        w = [0.0] * n
        for i in rng.sample(range(n), k):
            w[i] = rng.uniform(0.2, 5.0)
        c['invvar'] = w
        cases.append(c)
    # negative weights (not 'good' but used by the normal equations as they are): correspondence only
    for _ in range(ctx.n(30, 800)):
        c = _gen_fit_case(rng, 'negweight')
        n = len(c['x'])
        w = [rng.uniform(0.5, 5.0) for _ in range(n)]
        for i in rng.sample(range(n), rng.randrange(1, max(2, n // 4))):
            w[i] = -rng.uniform(0.01, 0.2)
        c['invvar'] = w
        cases.append(c)
    # malformed / refused
    for _ in range(ctx.n(40, 600)):
        c = _gen_fit_case(rng, 'malformed')
        n = len(c['x'])
        k = rng.randrange(7)
        if k == 0:
            c['y'] = c['y'][:-1]
        elif k == 1:
            c['invvar'] = [1.0] * (n + 1)
        elif k == 2:
            c['inputfunc'] = [1.0] * (n - 1)
        elif k == 3:
            c['func'] = rng.choice(['npoly', 'Legendre', '', 'cheby'])
        elif k == 4:
            c['func'] = 'chebyshev_split'
            c['ncoeff'] = 1
            c['ia'] = None
            c['inputans'] = None
        elif k == 5:
            c['func'] = rng.choice(['flegendre', 'fchebyshev', 'fchebyshev_split', 'fpoly'])
            if c['func'] == 'fchebyshev_split' and c['ncoeff'] < 2:
                c['func'] = 'fpoly'
        else:
            c['ncoeff'] = 0
            c['ia'] = None
            c['inputans'] = None
        cases.append(c)
    return cases


def _gen_ts_case(rng, kind=None):
    style = kind or rng.choice(['sdss', 'sdss', 'boss', 'boss', 'free'])
    ntrace = rng.choice([1, 1, 2, 3, 5])
    func = rng.choice(['legendre', 'legendre', 'legendre', 'chebyshev', 'poly'])
    ncoeff = rng.choice([1, 2, 3, 3, 4, 5, 6, 8, 10, 12])
    if func == 'poly':
        ncoeff = min(ncoeff, 6)
    nx = ncoeff + rng.choice([1, 2, 4, 8, 16, 24])
    c = {'stream': 'tsfit', 'style': style, 'shape': [ntrace, nx], 'func': func, 'ncoeff': ncoeff}
    if style == 'free':
        a = rng.uniform(-50, 50)
        b = a + rng.uniform(5, 200)
        xrows = [[a + (b - a) * (v + 1) / 2 for v in _abscissae(rng, nx)] for _ in range(ntrace)]
        if ntrace >= 3 and rng.random() < 0.5:
            xrows[-1] = list(xrows[0])      # first and last trace share their positions, the inner ones do not
        if rng.random() < 0.5:
            c['xmin'] = math.floor(a)
            c['xmax'] = math.floor(a) + math.ceil(b - a) + 1
    else:
        # detector pixels: integer (or regularly spaced) positions 0 .. N-1
        npix = rng.choice([nx, nx, 2 * nx - 1, 2048, 4128])
        step = (npix - 1) // (nx - 1)
        off = rng.choice([0, 0, 3]) if npix <= 2 * nx else 0
        xrows = [[float(off + step * j) for j in range(nx)] for _ in range(ntrace)]
        if rng.random() < 0.5 or npix > 2 * nx:
            c['xmin'] = 0.0
            c['xmax'] = float(max(npix - 1, off + step * (nx - 1)))
    xmin = c.get('xmin', min(min(r) for r in xrows))
    xmax = c.get('xmax', max(max(r) for r in xrows))
    jump = None
    if style == 'boss' or (style == 'free' and rng.random() < 0.3):
        lo = xmin + (xmax - xmin) * rng.uniform(0.3, 0.6)
        if style == 'boss':
            lo = math.floor(lo) + 0.5
        if xmin <= 0.0 < xmax and rng.random() < 0.25:
            lo = 0.0            # a jump that starts exactly at pixel 0 is still a jump
        hi = lo + rng.choice([2.0, 2.0, 1.0, 5.5])
        val = rng.choice([1.0 / 3, 0.33333334, -0.25, 0.8, 0.0])
        c['xjumplo'], c['xjumphi'], c['xjumpval'] = lo, hi, val
        jump = (lo, hi, val)
    ys = []
    for r in xrows:
        xn = oracle_xnorm(r, xmin, xmax, jump)
        c0 = [rng.uniform(-2, 2) * (100.0 if k == 0 else 10.0 / (k + 1)) for k in range(ncoeff)]
        yy = oracle_basis(func, xn, ncoeff).T @ np.array(c0)
        noise = rng.choice([0.0, 1e-3, 0.05])
        ys.append([float(v) + noise * rng.gauss(0, 1) for v in yy])
    c['xpos'] = [v for r in xrows for v in r]
    c['ypos'] = [v for r in ys for v in r]
    r = rng.random()
    if r < 0.35:
        c['invvar'] = [rng.uniform(0.2, 5.0) if rng.random() < 0.85 else 0.0 for _ in range(ntrace * nx)]
    if rng.random() < 0.3:
        c['inmask'] = [rng.random() < 0.85 for _ in range(ntrace * nx)]
    if rng.random() < 0.3:
        c['maxiter'] = rng.choice([0, 1, 20])
    if rng.random() < 0.1:
        del c['func']
        c['ncoeff'] = None
    return c


def _gen_ts(ctx):
    rng = ctx.rng
    cases = [_gen_ts_case(rng) for _ in range(ctx.n(150, 5000))]
    for _ in range(ctx.n(24, 400)):
        c = _gen_ts_case(rng)
        c['style'] += ':odd'
        k = rng.randrange(6)
        if k == 0:
            c['maxiter'] = -1
        elif k == 1:
            c['xjumplo'] = 3.0
            c['xjumphi'] = None
            c['xjumpval'] = None
        elif k == 2:
            c['func'] = 'chebyshev_split'
            c['ncoeff'] = max(2, c['ncoeff'] or 3)
        elif k == 3:
            c['func'] = 'nofunc'
        elif k == 4:
            # a whole trace without good points
            n, m = c['shape']
            w = c.get('invvar') or [1.0] * (n * m)
            w[:m] = [0.0] * m
            c['invvar'] = w
        else:
            n, m = c['shape']
            w = [0.0] * (n * m)
            for i in range(n):
                for j in rng.sample(range(m), rng.choice([1, 2])):
                    w[i * m + j] = 1.0
            c['invvar'] = w
        cases.append(c)
    return cases


def _gen_xy_case(rng):
    ntrace = rng.choice([1, 2, 3, 6])
    ncoeff = rng.choice([1, 2, 3, 4, 5, 6, 8, 10, 12])
    func = rng.choice(['legendre', 'legendre', 'chebyshev', 'poly'])
    xmin = float(rng.choice([0, 0, 0, 10, -5]))
    xmax = xmin + float(rng.choice([7, 15, 31, 63]))
    if rng.random() < 0.2:
        xmin += rng.uniform(0, 1)
        xmax += rng.uniform(0, 1)
    c = {'stream': 'xy', 'func': func, 'ntrace': ntrace, 'ncoeff': ncoeff, 'xmin': xmin, 'xmax': xmax,
         'coeff': [rng.uniform(-2, 2) * (1000.0 if k % ncoeff == 0 else 10.0) for k in range(ntrace * ncoeff)],
         'ignore_jump': rng.random() < 0.3, 'xpos': None}
    if rng.random() < 0.5:
        lo = math.floor(xmin + (xmax - xmin) * rng.uniform(0.2, 0.7)) + 0.5
        c['xjumplo'], c['xjumphi'], c['xjumpval'] = lo, lo + rng.choice([1.0, 2.0, 4.0]), rng.choice([0.25, -0.5, 0.375, 1.0 / 3])
        if xmin <= 0.0 and rng.random() < 0.3:
            # zero is a legitimate jump position: xjumplo == 0, or xjumphi == 0 when the range starts below 0
            if xmin < -2.0 and rng.random() < 0.5:
                c['xjumplo'], c['xjumphi'] = -2.0, 0.0
            else:
                c['xjumplo'], c['xjumphi'] = 0.0, rng.choice([1.0, 2.0, 4.0])
        if rng.random() < 0.4:
            # single-precision columns as in the BOSS files; values exactly representable so that hi - lo is exact in float32
            c['jumpfmt'] = 'E'
            c['xjumpval'] = float(np.float32(c['xjumpval']))
    if rng.random() < 0.5:
        nrow = ntrace + rng.choice([0, 0, 0, 1])
        ncol = rng.choice([1, 3, 9])
        c['xshape'] = [nrow, ncol]
        c['xpos'] = [rng.choice([xmin, xmax, (xmin + xmax) / 2]) if rng.random() < 0.2 else rng.uniform(xmin, xmax)
                     for _ in range(nrow * ncol)]
    return c


def _gen_xy(ctx):
    rng = ctx.rng
    cases = [_gen_xy_case(rng) for _ in range(ctx.n(150, 5000))]
    for _ in range(ctx.n(12, 200)):
        c = _gen_xy_case(rng)
        k = rng.randrange(3)
        if k == 0:
            c['func'] = rng.choice(['chebyshev_split', 'flegendre', 'x'])
        elif k == 1 and c['ntrace'] > 1:
            c['xshape'] = [c['ntrace'] - 1, 2]
            c['xpos'] = [rng.uniform(c['xmin'], c['xmax']) for _ in range(2 * (c['ntrace'] - 1))]
        else:
            c['xmax'] = c['xmin'] + rng.choice([0.5, 1.5, 2.999999])
        cases.append(c)
    return cases


# ------------------------------------------------------------------ streams
def _basis(ctx, cases, oracle_only=False):
    model = [None] * len(cases) if oracle_only else core.driver_parallel([_line_basis(c) for c in cases])
    for c, m in zip(cases, model):
        impl = _impl_basis(c)
        ctx.seen(c, nontrivial=c['m'] >= 3 and len(c['x']) > 0)
        ctx.count('basis:%s:%s:%s' % (c['func'], c['form'], 'err' if 'err' in impl else 'ok'))
        exact = c['func'] in ('poly', 'chebyshev_split')
        if m is not None:
            if 'ok' in impl and 'ok' in m:
                mm = bf2(m['ok'])
                ok = shape2(mm) == shape2(impl['ok']) and all(
                    (same_list(a, b) if exact else close_list(a, b)) for a, b in zip(impl['ok'], mm))
                if not ok:
                    ctx.disagree('basis', c, impl, {'ok': mm})
            elif impl != m:
                ctx.disagree('basis', c, impl, m)
        # property oracle: textbook values on [-1, 1], orders 1..12; scalar = 1-element array
        minm = 2 if c['func'] == 'chebyshev_split' else 1
        if c['m'] < minm:
            if impl != {'err': 'ValueError'}:
                ctx.violate('basis:%s:order-not-refused' % c['func'], 'order %d: got %s' % (c['m'], impl), c)
            continue
        if 'err' in impl:
            ctx.violate('basis:%s:raises:%s' % (c['func'], impl['err']), 'basis function raised on a valid input', c)
            continue
        want = oracle_basis(c['func'], c['x'], c['m'])
        got = np.array(impl['ok'], dtype='d').reshape(c['m'], -1)
        if got.shape != want.shape:
            ctx.violate('basis:%s:shape' % c['func'], 'shape %s, expected %s' % (got.shape, want.shape), c)
            continue
        if not c.get('outside') and c['m'] <= 12:
            bad = np.abs(got - want) > 1e-9 * np.maximum(1.0, np.abs(want))
            if bad.any():
                k, i = [int(v) for v in np.argwhere(bad)[0]]
                ctx.violate('basis:%s:value' % c['func'], 'row %d at x=%r: %r, textbook %r' % (k, c['x'][i], got[k, i], want[k, i]),
                            dict(c, x=[c['x'][i]], form=c['form']))
        if c['form'] == 'array' and len(c['x']) >= 2:
            # history: the caller's abscissa array changed IN PLACE between two calls with the same order (a work buffer that is
            # refilled, `x *= 0.5`): the second answer belongs to the present contents (seeded change C13-19: a last-call memo that
            # keeps the array by reference)
            from pydl.pydlutils.trace import fchebyshev, fchebyshev_split, fpoly
            from pydl.goddard.math import flegendre
            f = {'legendre': flegendre, 'chebyshev': fchebyshev, 'chebyshev_split': fchebyshev_split, 'poly': fpoly}[c['func']]
            try:
                # the reference first, on its own array object, before the work buffer exists (a memo that holds the buffer would
                # answer a later fresh array with the same values from the stale entry as well)
                fresh = np.array(f(np.array(c['x'], dtype='d') * 0.5, c['m']), dtype='d')
                buf = np.array(c['x'], dtype='d')
                f(buf, c['m'])
                buf *= 0.5
                second = np.array(f(buf, c['m']), dtype='d')
                ctx.count('basis:history:array-changed-in-place')
                if second.shape != fresh.shape or not np.array_equal(second, fresh, equal_nan=True):
                    ctx.violate('basis:%s:history' % c['func'],
                                'after `x *= 0.5` on the same array object the basis is not the one of a fresh array with the same values',
                                dict(c, history='x *= 0.5 between two calls'))
            except Exception as e:
                ctx.violate('basis:%s:history-exception' % c['func'], 'second call on the array changed in place raises %r' % (e,), c)
        if c['form'] not in ('array', 'intarray'):
            arr = _impl_basis(dict(c, form='array'))
            if arr != impl and not (('ok' in arr) and same_list(flat(arr['ok']), flat(impl['ok']))):
                ctx.violate('basis:%s:scalar-vs-array' % c['func'], 'scalar %s and 1-element array %s differ' % (impl, arr), c)


def _fit_cmp(a, b, tol, what=('res', 'yfit')):
    sc = max([1.0] + [abs(v) for v in a['res'] if math.isfinite(v)])
    for k in what:
        if not close_list(a[k], b[k], tol, sc):
            return False
    return True


def _fit_oracle(ctx, c, impl):
    o = oracle_fit(c)
    if o is None:
        return 'outside'
    want, cond, A = o
    if not (cond < COND_MAX):
        return 'illcond'
    if 'err' in impl:
        ctx.violate('fit:raises:' + impl['err'], 'func_fit raised on a well-posed problem', c)
        return 'raised'
    tol = fit_tol(cond)
    res = np.array(impl['ok']['res'])
    yfit = np.array(impl['ok']['yfit'])
    sc = max(1.0, float(np.abs(want).max()) if want.size else 1.0)
    ia = np.ones(c['ncoeff'], dtype=bool) if c.get('ia') is None else np.array(c['ia'], dtype=bool)
    # fixed coefficients keep their prescribed values (exactly)
    ans = np.zeros(c['ncoeff']) if c.get('inputans') is None else np.array(c['inputans'], dtype='d')
    if not np.array_equal(res[~ia], ans[~ia]):
        ctx.violate('fit:fixed', 'fixed coefficients %s, prescribed %s' % (res[~ia].tolist(), ans[~ia].tolist()), c)
    # weighted least-squares optimum
    if res.shape != want.shape or (np.abs(res - want) > tol * sc).any():
        ctx.violate('fit:wls', 'coefficients %s, weighted lstsq %s (cond %.3g)' % (res.tolist(), want.tolist(), cond), c)
    if yfit.shape != (len(c['x']),) or (np.abs(yfit - A @ want) > tol * max(sc, float(np.abs(A @ want).max()))).any():
        ctx.violate('fit:yfit', 'fitted values differ from basis . coefficients', c)
    # zero-weight points have no influence: move y (and x) there
    w = None if c.get('invvar') is None else np.array(c['invvar'], dtype='d')
    if w is not None and (w == 0).any():
        rng = ctx.rng
        c2 = dict(c, y=list(c['y']), x=list(c['x']))
        for i in np.nonzero(w == 0)[0]:
            c2['y'][i] = c['y'][i] + rng.uniform(-100, 100)
            if rng.random() < 0.5:
                c2['x'][i] = rng.uniform(-1, 1)
        impl2 = _impl_fit(c2)
        if 'err' in impl2 or not close_list(impl2['ok']['res'], impl['ok']['res'], 1e-12, sc):
            ctx.violate('fit:zero-weight', 'changing data at zero-weight points changed the coefficients: %s -> %s' % (impl, impl2), c)
        ctx.count('oracle:fit:zero-weight')
    # exact data are recovered
    c0 = np.where(ia, np.array([((7 * k + 3) % 11 - 5) / 2.0 for k in range(c['ncoeff'])]), ans)
    c3 = dict(c, y=[float(v) for v in A @ c0], ydtype='d')
    impl3 = _impl_fit(c3)
    if 'err' in impl3 or (np.abs(np.array(impl3['ok']['res']) - c0) > tol * max(1.0, float(np.abs(c0).max()))).any():
        ctx.violate('fit:exact', 'exact combination %s not recovered: %s' % (c0.tolist(), impl3), c)
    return 'checked' if tol == core.REL_TOL else 'checked-scaled-tol'


def _fit(ctx, cases, oracle_only=False):
    model = [None] * len(cases) if oracle_only else core.driver_parallel([_line_fit(c) for c in cases])
    nrat = 0
    ratq = []
    for c, m in zip(cases, model):
        impl = _impl_fit(c)
        o = oracle_fit(c)
        cond = o[1] if o is not None else None
        ctx.seen(c, nontrivial='ok' in impl)
        ctx.count('fit:%s:%s:%s' % (c['kind'], c['func'], impl.get('err', 'ok')))
        if m is not None:
            mm = _dec_fit(m)
            # conditioning of the normal matrix decides the tolerance (LAPACK solve vs the driver's elimination);
            # whether a (nearly) singular system is refused or solved to garbage is rounding, not behaviour
            tol = _model_tol(c, cond)
            lin = 'Other:LinAlgError' in (impl.get('err'), mm.get('err'))
            if ('ok' in impl and 'ok' in mm) or lin:
                if tol is None:
                    ctx.count('fit:model-compare-skipped-illcond')
                elif lin or not _fit_cmp(impl['ok'], mm['ok'], tol):
                    ctx.disagree('fit', c, impl, mm)
                elif len(c['x']) <= 14 and c['ncoeff'] <= 6 and nrat < ctx.n(60, 1500):
                    nrat += 1
                    ratq.append((c, impl, tol))
            elif impl != mm:
                ctx.disagree('fit', c, impl, mm)
        ctx.count('oracle:fit:' + _fit_oracle(ctx, c, impl))
    if ratq:
        # exact run of the model on the rational values of the same floats
        out = core.driver_parallel([_line_fit(c, 'rat') for c, _, _ in ratq], chunk=100)
        for (c, impl, tol), m in zip(ratq, out):
            mm = _dec_fit(m, rat=True)
            ctx.count('fit:rat-run')
            if 'ok' not in mm or not _fit_cmp(impl['ok'], mm['ok'], tol):
                ctx.disagree('fit-rat', c, impl, mm)


def _model_tol(c, cond):
    """tolerance for implementation vs Float model on one fit; None = too ill-conditioned to compare"""
    if cond is None:
        # outside the oracle's domain (few good points, negative weights): estimate from the weights actually used
        cond = _cond_any(c)
    if not (cond < COND_MAX):
        return None
    return fit_tol(cond)


def _cond_any(c):
    try:
        x = np.array(c['x'], dtype='d')
        w = np.ones(x.size) if c.get('invvar') is None else np.array(c['invvar'], dtype='d')
        ngood = int((w > 0).sum())
        ncfit = min(ngood, c['ncoeff'])
        if ngood < 2 or ncfit < 1:
            return 1.0
        func = c['func'][1:] if c['func'].startswith('f') else c['func']
        A = oracle_basis(func, x, ncfit).T
        if c.get('inputfunc') is not None:
            A = A * np.array(c['inputfunc'], dtype='d')[:, None]
        ia = np.ones(c['ncoeff'], dtype=bool) if c.get('ia') is None else np.array(c['ia'], dtype=bool)
        Af = A[:, np.nonzero(ia[:ncfit])[0]]
        if Af.shape[1] == 0:
            return 1.0
        return float(np.linalg.cond(Af.T @ (Af * w[:, None])))
    except Exception:
        return float('inf')


def _ts_conds(c, xmin, xmax):
    """condition number of each trace's normal matrix (for the tolerance only)"""
    n, m = c['shape']
    jump = None
    if c.get('xjumplo') is not None and c.get('xjumphi') is not None and c.get('xjumpval') is not None:
        jump = (c['xjumplo'], c['xjumphi'], c['xjumpval'])
    out = []
    for i in range(n):
        xn = oracle_xnorm(c['xpos'][i * m:(i + 1) * m], xmin, xmax, jump)
        w = np.ones(m)
        if c.get('invvar') is not None:
            w = w * np.array(c['invvar'][i * m:(i + 1) * m])
        if c.get('inmask') is not None:
            w = w * np.array(c['inmask'][i * m:(i + 1) * m], dtype='d')
        out.append(_cond_any({'x': xn.tolist(), 'invvar': w.tolist(), 'ncoeff': c['ncoeff'] if c.get('ncoeff') is not None else 3,
                              'func': c.get('func') or 'legendre'}))
    return out


def _ts_conds_in(c):
    return _ts_conds(c, c['xmin'] if c.get('xmin') is not None else min(c['xpos']),
                     c['xmax'] if c.get('xmax') is not None else max(c['xpos']))


def _tsfit(ctx, cases, oracle_only=False):
    model = [None] * len(cases) if oracle_only else core.driver_parallel([_line_tsfit(c) for c in cases], chunk=200)
    for c, m in zip(cases, model):
        impl, t = _impl_tsfit(c)
        ctx.seen(c, nontrivial='ok' in impl)
        ctx.count('tsfit:%s:%s' % (c['style'], impl.get('err', 'ok')))
        n, mx = c['shape']
        ncoeff = c['ncoeff'] if c.get('ncoeff') is not None else 3
        func = c.get('func') or 'legendre'
        conds = None
        if 'ok' in impl:
            conds = _ts_conds(c, impl['ok']['xmin'], impl['ok']['xmax'])
        if m is not None:
            if 'ok' in impl and 'ok' in m:
                a, b = impl['ok'], m['ok']
                ok = same(a['xmin'], core.b2f(b['xmin'])) and same(a['xmax'], core.b2f(b['xmax'])) and a['outmask'] == b['outmask']
                ok = ok and shape2(a['coeff']) == shape2(b['coeff']) and shape2(a['yfit']) == shape2(b['yfit'])
                if ok:
                    for i in range(n):
                        if not (conds[i] < COND_MAX):
                            ctx.count('tsfit:model-compare-skipped-illcond')
                            continue
                        tol = fit_tol(conds[i])
                        sc = max([1.0] + [abs(v) for v in a['coeff'][i]])
                        ok = ok and close_list(a['coeff'][i], bf(b['coeff'][i]), tol, sc) and close_list(a['yfit'][i], bf(b['yfit'][i]), tol, sc)
                        if 'ok' in a['xy'] and 'ok' in b['xy']:
                            ok = ok and close_list(a['xy']['ok'][i], bf(b['xy']['ok'][i]), tol, sc)
                    if ('ok' in a['xy']) != ('ok' in b['xy']) or ('err' in a['xy'] and a['xy'] != b['xy']):
                        ok = False
                if not ok:
                    ctx.disagree('tsfit', c, impl, {'ok': dict(b, coeff=bf2(b['coeff']), yfit=bf2(b['yfit']))})
            elif impl != m:
                if 'Other:LinAlgError' in (impl.get('err'), m.get('err')) and not all(v < COND_MAX for v in _ts_conds_in(c)):
                    ctx.count('tsfit:model-compare-skipped-illcond')
                else:
                    ctx.disagree('tsfit', c, impl, m)
        # ---- property oracle
        indomain = (func in ('legendre', 'chebyshev', 'poly') and (c.get('maxiter') is None or c['maxiter'] >= 0)
                    and ncoeff >= 1 and (c.get('xjumplo') is None or (c.get('xjumphi') is not None and c.get('xjumpval') is not None)))
        if not indomain:
            ctx.count('oracle:tsfit:outside')
            continue
        if 'err' in impl:
            # a violation only when every trace's fit is well-posed
            if all(v < COND_MAX for v in _ts_conds_in(c)):
                ctx.violate('tsfit:raises:' + impl['err'], 'TraceSet(xpos, ypos, ...) raised on a valid input', c)
            else:
                ctx.count('oracle:tsfit:raised-illcond')
            continue
        a = impl['ok']
        if 'err' in a['xy']:
            ctx.violate('tsfit:xy-raises:' + a['xy']['err'], 'traceset2xy raised on the fitted trace set', c)
            continue
        if a.get('inputs_changed'):
            ctx.count('oracle:tsfit:inputs-changed')
            if a.get('second_call_differs'):
                ctx.violate('tsfit:history', 'a second fit of the same arrays without a mask is not the fit of its own arguments: the first call '
                            'changed the caller\'s %s; %s' % (a['inputs_changed'], str(a['second_call_differs'])[:300]), c)
                continue
        # converting positions to a trace set and evaluating at the same positions returns the fitted values
        for i in range(n):
            sc = max([1.0] + [abs(v) for v in a['yfit'][i]] + [sum(abs(v) for v in a['coeff'][i])])
            if not close_list(a['xy']['ok'][i], a['yfit'][i], core.REL_TOL, sc):
                ctx.violate('tsfit:xy-vs-yfit', 'trace %d: xy at the fitting positions %s, fitted values %s' % (i, a['xy']['ok'][i], a['yfit'][i]), c)
                break
        # the coefficients are the weighted least-squares coefficients in the normalised abscissa
        jump = (c['xjumplo'], c['xjumphi'], c['xjumpval']) if c.get('xjumplo') is not None else None
        for i in range(n):
            w = np.ones(mx)
            if c.get('invvar') is not None:
                w = w * np.array(c['invvar'][i * mx:(i + 1) * mx])
            if c.get('inmask') is not None:
                w = w * np.array(c['inmask'][i * mx:(i + 1) * mx], dtype='d')
            xn = oracle_xnorm(c['xpos'][i * mx:(i + 1) * mx], a['xmin'], a['xmax'], jump)
            o = oracle_fit({'x': xn.tolist(), 'y': c['ypos'][i * mx:(i + 1) * mx], 'invvar': w.tolist(), 'ncoeff': ncoeff, 'func': func})
            if o is None or not (o[1] < COND_MAX):
                ctx.count('oracle:tsfit:trace-outside-or-illcond')
                continue
            want, cond, A = o
            sc = max(1.0, float(np.abs(want).max()))
            if (np.abs(np.array(a['coeff'][i]) - want) > fit_tol(cond) * sc).any():
                ctx.violate('tsfit:wls', 'trace %d: coefficients %s, weighted lstsq %s' % (i, a['coeff'][i], want.tolist()), c)
                break
            ctx.count('oracle:tsfit:trace-checked')
        # default grid
        _grid_oracle(ctx, c, t, 'tsfit')


def _grid_oracle(ctx, c, t, stream):
    """a trace set evaluated on its default grid spans xmin..xmax in unit steps"""
    from pydl.pydlutils.trace import traceset2xy
    try:
        x, y = traceset2xy(t)
    except Exception as e:
        ctx.violate('%s:grid-raises:%s' % (stream, core.exc_kind(e)), 'traceset2xy(tset) raised', c)
        return
    xmin, xmax = float(t.xmin), float(t.xmax)
    nx = int(math.floor(xmax - xmin + 1))
    want = xmin + np.arange(nx, dtype='d')
    ok = x.shape == (t.nTrace, nx) and all(np.array_equal(x[i], want) for i in range(t.nTrace))
    if ok and nx > 0 and (xmax - xmin) == math.floor(xmax - xmin):
        ok = x[0, 0] == xmin and x[0, -1] == xmax
    if not ok:
        ctx.violate(stream + ':grid', 'default grid is not xmin, xmin+1, ..., xmax: shape %s, xmin %r xmax %r' % (x.shape, xmin, xmax), c)
    ctx.count('oracle:%s:grid' % stream)


def _xy_tol_ok(got, want, coeff, func, xn):
    """|got - want| <= 1e-9 * max(1, sum_k |c_k phi_k(x)|)"""
    B = np.abs(oracle_basis(func, xn, len(coeff)))
    sc = np.maximum(1.0, np.abs(np.array(coeff)) @ B)
    return bool((np.abs(np.array(got) - np.array(want)) <= core.REL_TOL * sc).all())


def _xy(ctx, cases, oracle_only=False, tsets=None, models=None):
    if models is not None:
        model = models          # answers of another model operation on the same cases (hdu stream: the record constructor)
    else:
        model = [None] * len(cases) if oracle_only else core.driver_parallel([_line_xy(c) for c in cases], chunk=200)
    for k, (c, m) in enumerate(zip(cases, model)):
        t = tsets[k] if tsets else None
        impl = _impl_xy(c, t)
        ctx.seen(c, nontrivial='ok' in impl)
        ctx.count('xy:%s:%s:%s' % (c.get('src', 'fitsrec'), 'grid' if c.get('xpos') is None else 'xpos', impl.get('err', 'ok')))
        nt, nc = c['ntrace'], c['ncoeff']
        coeff = _rows(c['coeff'], (nt, nc))
        jump = None if (c.get('xjumplo') is None or c['ignore_jump']) else (c['xjumplo'], c['xjumphi'], c['xjumpval'])
        if m is not None:
            if 'ok' in impl and 'ok' in m:
                a = impl['ok']
                bx, by = bf2(m['ok']['x']), bf2(m['ok']['y'])
                ok = shape2(a['x']) == shape2(bx) and shape2(a['y']) == shape2(by) and all(same_list(p, q) for p, q in zip(a['x'], bx))
                if ok:
                    for i in range(len(by)):
                        if i < nt:
                            xn = oracle_xnorm(a['x'][i], c['xmin'], c['xmax'], jump)
                            ok = ok and _xy_tol_ok(a['y'][i], by[i], coeff[i], c['func'], xn)
                        else:
                            ok = ok and same_list(a['y'][i], by[i])
                if not ok:
                    ctx.disagree(c.get('stream', 'xy'), c, impl, {'ok': {'x': bx, 'y': by}})
            elif impl != m:
                ctx.disagree(c.get('stream', 'xy'), c, impl, m)
        # ---- property oracle: values are sum_k coeff_k phi_k(xnorm x); default grid
        nrow = nt if c.get('xpos') is None else c['xshape'][0]
        if c['func'] not in ('legendre', 'chebyshev', 'poly') or nrow < nt or not (c['xmax'] - c['xmin'] > 0):
            ctx.count('oracle:xy:outside')
            continue
        if 'err' in impl:
            ctx.violate('xy:raises:' + impl['err'], 'traceset2xy raised on a valid trace set', c)
            continue
        a = impl['ok']
        if c.get('xpos') is None:
            nx = int(math.floor(c['xmax'] - c['xmin'] + 1))
            want = (c['xmin'] + np.arange(nx, dtype='d')).tolist()
            good = shape2(a['x']) == [nt, nx] and all(r == want for r in a['x'])
            if good and (c['xmax'] - c['xmin']) == math.floor(c['xmax'] - c['xmin']):
                good = a['x'][0][0] == c['xmin'] and a['x'][0][-1] == c['xmax']
            if not good:
                ctx.violate('xy:grid', 'default grid is not xmin, xmin+1, ..., xmax', c)
        for i in range(nt):
            xn = oracle_xnorm(a['x'][i], c['xmin'], c['xmax'], jump)
            want = np.array(coeff[i]) @ oracle_basis(c['func'], xn, nc)
            if not _xy_tol_ok(a['y'][i], want, coeff[i], c['func'], xn):
                ctx.violate('xy:value', 'trace %d: evaluation differs from sum_k coeff_k phi_k(xnorm x)' % i, c)
                break
        ctx.count('oracle:xy:checked')


def _stored(ctx):
    """the two stored trace sets of the repository (SDSS: no jump; BOSS: float32 jump columns), first traces only"""
    from astropy.io import fits
    from pydl.pydlutils.trace import TraceSet
    rng = ctx.rng
    cases, tsets = [], []
    for name in ('sdss', 'boss'):
        f = core.REPO / 'pydl' / 'pydlutils' / 'tests' / 't' / ('%s_traceset.fits' % name)
        if not f.exists():
            ctx.count('stored:%s:missing' % name)
            continue
        with fits.open(str(f)) as h:
            t = TraceSet(h[1].data)
            keep = sorted(rng.sample(range(t.nTrace), 3))
            t.coeff = np.array(t.coeff[keep], dtype='d')
            t.nTrace = 3
        base = {'stream': 'xy', 'src': name, 'func': str(t.func), 'ntrace': 3, 'ncoeff': int(t.ncoeff), 'xmin': float(t.xmin),
                'xmax': float(t.xmax), 'coeff': [float(v) for v in t.coeff.ravel()], 'traces': keep}
        if t.has_jump:
            base.update(xjumplo=float(t.xjumplo), xjumphi=float(t.xjumphi), xjumpval=float(t.xjumpval))
        ncol = 12
        xs = [float(rng.randrange(int(t.xmin), int(t.xmax) + 1)) if rng.random() < 0.5 else rng.uniform(float(t.xmin), float(t.xmax))
              for _ in range(3 * ncol)]
        if t.has_jump:
            xs[:4] = [float(t.xjumplo), float(t.xjumphi), 0.5 * (float(t.xjumplo) + float(t.xjumphi)), float(t.xjumplo) + 0.25]
        for ign in (False, True):
            cases.append(dict(base, ignore_jump=ign, xpos=xs, xshape=[3, ncol]))
            tsets.append(t)
        cases.append(dict(base, ignore_jump=False, xpos=None))
        tsets.append(t)
    if cases:
        _xy(ctx, cases, tsets=tsets)


def _xnorm(ctx):
    """TraceSet.xnorm itself, bit for bit (elementwise IEEE code)"""
    from pydl.pydlutils.trace import TraceSet
    rng = ctx.rng
    cases, lines = [], []
    for _ in range(ctx.n(200, 10000)):
        xmin = rng.choice([0.0, 0.0, -3.5, rng.uniform(-100, 100)])
        xmax = xmin + rng.choice([2047.0, 4127.0, 10.0, rng.uniform(1, 500)])
        lo = rng.uniform(xmin, xmax)
        hi = lo + rng.choice([2.0, 0.5, rng.uniform(0.1, 20)])
        val = rng.choice([1.0 / 3, -0.25, 0.0, rng.uniform(-2, 2)])
        jump = rng.random() < 0.6
        xs = [rng.choice([xmin, xmax, lo, hi, (lo + hi) / 2]) if rng.random() < 0.3 else rng.uniform(xmin - 5, xmax + 5)
              for _ in range(rng.randrange(1, 12))]
        c = {'stream': 'xnorm', 'xmin': xmin, 'xmax': xmax, 'xjumplo': lo, 'xjumphi': hi, 'xjumpval': val, 'jump': jump, 'xs': xs}
        cases.append(c)
        lines.append({'p': 'C13', 'op': 'xnorm', 'func': 'legendre', 'xmin': core.f2b(xmin), 'xmax': core.f2b(xmax), 'coeff': [], 'ncoeff': 0,
                      'xjumplo': core.f2b(lo), 'xjumphi': core.f2b(hi), 'xjumpval': core.f2b(val), 'xs': fb(xs), 'jump': jump})
    model = core.driver_parallel(lines)
    for c, m in zip(cases, model):
        t = TraceSet.__new__(TraceSet)
        t.xmin, t.xmax = np.float64(c['xmin']), np.float64(c['xmax'])
        t.xjumplo, t.xjumphi, t.xjumpval = np.float64(c['xjumplo']), np.float64(c['xjumphi']), np.float64(c['xjumpval'])
        got = [float(v) for v in t.xnorm(np.array(c['xs'], dtype='d'), c['jump'])]
        ctx.seen(c)
        ctx.count('xnorm:' + ('jump' if c['jump'] else 'nojump'))
        if 'ok' not in m or not same_list(got, bf(m['ok'])):
            ctx.disagree('xnorm', c, got, bf(m['ok']) if 'ok' in m else m)
        want = oracle_xnorm(c['xs'], c['xmin'], c['xmax'], (c['xjumplo'], c['xjumphi'], c['xjumpval']) if c['jump'] else None)
        if not close_list(got, want.tolist(), 1e-12):
            ctx.violate('xnorm:value', 'normalised abscissae %s, expected %s' % (got, want.tolist()), c)


# ------------------------------------------------------------------ the check
def run(ctx):
    core.audit(ctx, LEAN_MODULES, THEOREMS)
    _basis(ctx, _gen_basis(ctx))
    _fit(ctx, _gen_fit(ctx))
    _tsfit(ctx, _gen_ts(ctx))
    _xy(ctx, _gen_xy(ctx))
    _stored(ctx)
    _xnorm(ctx)
    from harness.props import c13_ext as X
    X.rej(ctx)
    X.hdu(ctx)
    X.dtype(ctx)
    if (ctx.disagreements or any(not o['ok'] for o in ctx.obligations)) and not ctx.violations:
        # directed failing-input search on the real code: more oracle-only cases around what disagreed
        ctx.notes.append('obligation or correspondence broken: oracle-only search on the real code')
        streams = {d['stream'] for d in ctx.disagreements} or {'basis', 'fit', 'tsfit', 'xy'}
        for d in ctx.disagreements[:50]:
            _replay_case(ctx, d['case'], oracle_only=True)
        if streams & {'basis'}:
            _basis(ctx, _gen_basis(ctx), oracle_only=True)
        if streams & {'fit', 'fit-rat'}:
            _fit(ctx, _gen_fit(ctx) + _gen_fit(ctx), oracle_only=True)
        if streams & {'tsfit'}:
            _tsfit(ctx, _gen_ts(ctx) + _gen_ts(ctx), oracle_only=True)
        if streams & {'xy', 'xnorm'}:
            _xy(ctx, _gen_xy(ctx) + _gen_xy(ctx), oracle_only=True)
        if streams & {'tsrej'}:
            X.rej(ctx, oracle_only=True)
        if streams & {'hdu'}:
            X.hdu(ctx, oracle_only=True)
        if streams & {'dtype'}:
            X.dtype(ctx, oracle_only=True)


def _replay_case(ctx, case, oracle_only=False):
    s = case.get('stream')
    if s == 'basis':
        _basis(ctx, [case], oracle_only)
    elif s == 'fit':
        _fit(ctx, [case], oracle_only)
    elif s == 'tsfit':
        _tsfit(ctx, [case], oracle_only)
    elif s == 'xy' and case.get('src', 'fitsrec') == 'fitsrec':
        _xy(ctx, [case], oracle_only)
    else:
        from harness.props import c13_ext as X
        return X.replay_case(ctx, case, oracle_only)
    return True


def replay(ctx, case):
    core.audit(ctx, LEAN_MODULES, THEOREMS)
    if not _replay_case(ctx, case):
        run(ctx)

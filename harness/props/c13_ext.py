"""C13 extension streams: the iteration loop of xy2traceset with the real djs_reject inside the model (`tsrej`), the
TraceSet-from-FITS-HDU constructor (`hdu`), float32 / integer input arrays (`dtype`)."""
import math
import os
import numpy as np
from harness import core
from harness.props import c13 as B


# ------------------------------------------------------------------ tsrej: xy2traceset through the loop with djs_reject
def _gen_rej_case(rng):
    c = B._gen_ts_case(rng)
    c['stream'] = 'tsrej'
    n, m = c['shape']
    y = c['ypos']
    kind = rng.choice(['plain', 'outliers', 'outliers', 'zero-weights', 'masked-outliers'])
    c['kind'] = kind
    if kind in ('outliers', 'masked-outliers'):
        # gross outliers: a loop that really rejected them (as the docstring of xy2traceset suggests) would give other coefficients
        bad = [k for k in range(n * m) if rng.random() < 0.1] or [rng.randrange(n * m)]
        for k in bad:
            y[k] += rng.choice([-1, 1]) * rng.uniform(50, 500)
        if kind == 'masked-outliers':
            mask = c.get('inmask') or [True] * (n * m)
            for k in bad:
                mask[k] = False
            c['inmask'] = mask
    elif kind == 'zero-weights':
        w = c.get('invvar') or [rng.uniform(0.2, 5.0) for _ in range(n * m)]
        for k in range(n * m):
            if rng.random() < 0.2:
                w[k] = 0.0
        c['invvar'] = w
    c['maxiter'] = rng.choice([0, 0, 1, 2, 10, None])
    if c['maxiter'] is None:
        del c['maxiter']
    c['ctor'] = rng.choice(['xy2traceset', 'TraceSet'])
    return c


def _line_rej(c, reorder=None):
    l = B._line_tsfit(c)
    l['op'] = 'tsfitrej'
    l.pop('then', None)
    if reorder is not None:
        l['reorder'] = reorder
    return l


def _real_ts(c, xpos=None, ypos=None, perm=None, dtype='d'):
    """xy2traceset on the case (optionally other values, traces re-ordered); -> dict or {'err':...}"""
    from pydl.pydlutils.trace import xy2traceset, TraceSet
    sh = c['shape']
    x = np.array(c['xpos'] if xpos is None else xpos, dtype='d').reshape(sh)
    y = np.array(c['ypos'] if ypos is None else ypos, dtype='d').reshape(sh)
    kw = B._ts_kwargs(c)
    if perm is not None:
        x, y = x[perm], y[perm]
        for k in ('invvar', 'inmask'):
            if k in kw:
                kw[k] = kw[k][perm]
    try:
        t = TraceSet(x.copy(), y.copy(), **kw) if c.get('ctor') == 'TraceSet' else xy2traceset(x.copy(), y.copy(), **kw)
    except Exception as e:
        return {'err': core.exc_kind(e)}
    return {'ok': {'coeff': t.coeff.tolist(), 'yfit': t.yfit.tolist(), 'outmask': t.outmask.tolist(),
                   'xmin': float(t.xmin), 'xmax': float(t.xmax)}}


def _cmp_ts(c, a, b, conds):
    """implementation result `a` vs decoded model result `b` (tolerance as in the tsfit stream)"""
    n = c['shape'][0]
    ok = B.same(a['xmin'], core.b2f(b['xmin'])) and B.same(a['xmax'], core.b2f(b['xmax'])) and a['outmask'] == b['outmask']
    ok = ok and B.shape2(a['coeff']) == B.shape2(b['coeff']) and B.shape2(a['yfit']) == B.shape2(b['yfit'])
    skipped = 0
    if ok:
        for i in range(n):
            if not (conds[i] < B.COND_MAX):
                skipped += 1
                continue
            tol = B.fit_tol(conds[i])
            sc = max([1.0] + [abs(v) for v in a['coeff'][i]])
            ok = ok and B.close_list(a['coeff'][i], B.bf(b['coeff'][i]), tol, sc) and B.close_list(a['yfit'][i], B.bf(b['yfit'][i]), tol, sc)
    return ok, skipped


def rej(ctx, cases=None, oracle_only=False):
    rng = ctx.rng
    if cases is None:
        cases = [_gen_rej_case(rng) for _ in range(ctx.n(120, 3000))]
    perms = []
    for c in cases:
        n = c['shape'][0]
        if 'perm' not in c:
            p = list(range(n))
            rng.shuffle(p)
            c['perm'] = p
        perms.append(c['perm'])
    lines = []
    for c in cases:
        lines.append(_line_rej(c))
        lines.append(_line_rej(c, reorder=c['perm']))
    model = [None] * len(lines) if oracle_only else core.driver_parallel(lines, chunk=200)
    for k, c in enumerate(cases):
        n, mx = c['shape']
        m, mp = model[2 * k], model[2 * k + 1]
        impl = _real_ts(c)
        ctx.seen(c, nontrivial='ok' in impl)
        ctx.count('tsrej:%s:%s:maxiter=%s:%s' % (c.get('ctor', 'xy2traceset'), c['kind'], c.get('maxiter', 'default'), impl.get('err', 'ok')))
        implp = _real_ts(c, perm=c['perm'])
        # ---- correspondence: the model loop (C17's djs_reject inside) against the code, plain and with the traces re-ordered
        for tag, im, mo in (('plain', impl, m), ('reordered', implp, mp)):
            if mo is None:
                continue
            if 'rej' not in mo:
                ctx.disagree('tsrej', dict(c, variant=tag), im, mo)
                continue
            mo_r = mo['rej']
            if mo.get('same_as_tsfit') is False:
                ctx.disagree('tsrej', c, 'model: loop with djs_reject differs from tsetFit (%s)' % tag, mo)
                continue
            if 'ok' in im and 'ok' in mo_r:
                conds = B._ts_conds(c, im['ok']['xmin'], im['ok']['xmax'])
                if tag == 'reordered':
                    conds = [conds[j] for j in c['perm']]
                ok, skipped = _cmp_ts(c, im['ok'], mo_r['ok'], conds)
                if skipped:
                    ctx.count('tsrej:model-compare-skipped-illcond', skipped)
                if not ok:
                    ctx.disagree('tsrej', dict(c, variant=tag), im, mo_r)
            elif im != mo_r:
                if 'Other:LinAlgError' in (im.get('err'), mo_r.get('err')) and not all(v < B.COND_MAX for v in B._ts_conds_in(c)):
                    ctx.count('tsrej:model-compare-skipped-illcond')
                else:
                    ctx.disagree('tsrej', dict(c, variant=tag), im, mo_r)
        # ---- property oracles on the real code (independent of the model)
        func = c.get('func') or 'legendre'
        if 'err' in impl:
            if all(v < B.COND_MAX for v in B._ts_conds_in(c)):
                ctx.violate('tsrej:raises:' + impl['err'], 'xy2traceset raised on a valid input', c)
            continue
        a = impl['ok']
        # (1) every trace is fitted on its own: other values in trace j leave the other traces bit-identical
        if n >= 2:
            j = rng.randrange(n)
            y2 = list(c['ypos'])
            for q in range(mx):
                y2[j * mx + q] = y2[j * mx + q] * rng.uniform(-2, 2) + rng.uniform(-100, 100)
            r2 = _real_ts(c, ypos=y2)
            if 'ok' in r2:
                for i in range(n):
                    if i != j and not (B.same_list(a['coeff'][i], r2['ok']['coeff'][i]) and B.same_list(a['yfit'][i], r2['ok']['yfit'][i])):
                        ctx.violate('tsrej:trace-coupling', 'changing ypos of trace %d changed trace %d: %s -> %s'
                                    % (j, i, a['coeff'][i], r2['ok']['coeff'][i]), dict(c, changed_trace=j, ypos2=y2))
                        break
                ctx.count('oracle:tsrej:other-traces')
        # (2) permuting the traces permutes the rows
        if 'ok' in implp:
            p = c['perm']
            b = implp['ok']
            good = all(B.same_list(b['coeff'][i], a['coeff'][p[i]]) and B.same_list(b['yfit'][i], a['yfit'][p[i]]) for i in range(n))
            if not good:
                ctx.violate('tsrej:permutation', 'traces re-ordered by %s: rows of the result are not re-ordered alike' % p, c)
            ctx.count('oracle:tsrej:permutation:%s' % ('explicit-range' if c.get('xmin') is not None else 'default-range'))
        elif all(v < B.COND_MAX for v in B._ts_conds_in(c)):
            ctx.violate('tsrej:permutation:raises:' + implp['err'], 'xy2traceset raised on the re-ordered traces', c)
        # (3) points of zero weight (invvar 0 or masked) never influence the coefficients
        w = np.ones(n * mx)
        if c.get('invvar') is not None:
            w = w * np.array(c['invvar'])
        if c.get('inmask') is not None:
            w = w * np.array(c['inmask'], dtype='d')
        zero = [q for q in range(n * mx) if w[q] == 0]
        if zero:
            y3 = list(c['ypos'])
            for q in zero:
                y3[q] = rng.uniform(-1e4, 1e4)
            r3 = _real_ts(c, ypos=y3)
            conds = B._ts_conds(c, a['xmin'], a['xmax'])
            if 'ok' in r3:
                for i in range(n):
                    if not (conds[i] < B.COND_MAX):
                        continue
                    sc = max([1.0] + [abs(v) for v in a['coeff'][i]])
                    if not B.close_list(a['coeff'][i], r3['ok']['coeff'][i], 1e-12, sc):
                        ctx.violate('tsrej:zero-weight', 'trace %d: values at zero-weight points changed the coefficients %s -> %s'
                                    % (i, a['coeff'][i], r3['ok']['coeff'][i]), dict(c, ypos3=y3))
                        break
                ctx.count('oracle:tsrej:zero-weight')
        # (4) the coefficients are the weighted least-squares optimum over ALL points of non-zero weight (nothing is rejected)
        if func in ('legendre', 'chebyshev', 'poly') and (c.get('xjumplo') is None or (c.get('xjumphi') is not None and c.get('xjumpval') is not None)):
            jump = (c['xjumplo'], c['xjumphi'], c['xjumpval']) if c.get('xjumplo') is not None else None
            ncoeff = c['ncoeff'] if c.get('ncoeff') is not None else 3
            for i in range(n):
                wi = w[i * mx:(i + 1) * mx]
                xn = B.oracle_xnorm(c['xpos'][i * mx:(i + 1) * mx], a['xmin'], a['xmax'], jump)
                o = B.oracle_fit({'x': xn.tolist(), 'y': c['ypos'][i * mx:(i + 1) * mx], 'invvar': wi.tolist(), 'ncoeff': ncoeff, 'func': func})
                if o is None or not (o[1] < B.COND_MAX):
                    ctx.count('oracle:tsrej:trace-outside-or-illcond')
                    continue
                want, cond, A = o
                sc = max(1.0, float(np.abs(want).max()))
                if (np.abs(np.array(a['coeff'][i]) - want) > B.fit_tol(cond) * sc).any():
                    ctx.violate('tsrej:wls', 'trace %d: coefficients %s, weighted lstsq over the kept points %s' % (i, a['coeff'][i], want.tolist()), c)
                    break
                ctx.count('oracle:tsrej:wls-checked')


# ------------------------------------------------------------------ hdu: TraceSet(hdu.data) through real astropy HDUs
def _hdu_cols(c):
    """the columns of the record as the model sees them"""
    nt, nc = c['ntrace'], c['ncoeff']
    cols = [['FUNC', 's', c['func']], ['XMIN', 'n', core.f2b(c['xmin'])], ['XMAX', 'n', core.f2b(c['xmax'])],
            ['COEFF', 'm', nt, nc, B.fb2(B._rows(c['coeff'], (nt, nc)))]]
    if c.get('xjumplo') is not None:
        for k in ('xjumplo', 'xjumphi', 'xjumpval'):
            if k.upper() not in c.get('drop', []):
                cols.append([k.upper(), 'n', core.f2b(c[k])])
    for k in c.get('drop', []):
        cols = [q for q in cols if q[0] != k]
    for k in c.get('extra', []):
        cols.append([k, 'n', core.f2b(1.5)])
    order = c.get('order')
    if order:
        cols = [cols[i] for i in order if i < len(cols)] + [cols[i] for i in range(len(cols)) if i not in order]
    return cols


def _real_hdu(ctx, c):
    """build the binary table with astropy, write it to a FITS file, read it back, construct the TraceSet"""
    from astropy.io import fits
    from pydl.pydlutils.trace import TraceSet
    nt, nc = c['ntrace'], c['ncoeff']
    coeff = np.array(c['coeff'], dtype='d').reshape(1, nt, nc)
    mk = {'FUNC': lambda: fits.Column(name='FUNC', format='16A', array=np.array([c['func']])),
          'XMIN': lambda: fits.Column(name='XMIN', format='D', array=np.array([c['xmin']], dtype='d')),
          'XMAX': lambda: fits.Column(name='XMAX', format='D', array=np.array([c['xmax']], dtype='d')),
          'COEFF': lambda: fits.Column(name='COEFF', format='%dD' % (nt * nc), dim='(%d,%d)' % (nc, nt), array=coeff)}
    fmt = c.get('jumpfmt', 'D')
    for k in ('xjumplo', 'xjumphi', 'xjumpval'):
        if c.get(k) is not None:
            mk[k.upper()] = (lambda k=k: fits.Column(name=k.upper(), format=fmt, array=np.array([c[k]], dtype='f4' if fmt == 'E' else 'd')))
    for k in c.get('extra', []):
        mk[k] = (lambda k=k: fits.Column(name=k, format='D', array=np.array([1.5])))
    cols = [mk[q[0]]() for q in _hdu_cols(c)]
    hdu = fits.BinTableHDU.from_columns(cols)
    if c.get('via') == 'file':
        path = os.path.join(str(ctx.tmpdir()), 'c13_hdu_%d.fits' % c['k'])
        fits.HDUList([fits.PrimaryHDU(), hdu]).writeto(path, overwrite=True)
        with fits.open(path) as h:
            data = h[1].data
            t = TraceSet(data)
            t.coeff = np.array(t.coeff)
        os.remove(path)
        return t
    return TraceSet(hdu.data)


def _line_hdu(c):
    return {'p': 'C13', 'op': 'hduxy', 'cols': _hdu_cols(c),
            'xpos': B._opt(c.get('xpos'), lambda v: B.fb2(B._rows(v, c['xshape']))), 'ignore_jump': bool(c['ignore_jump'])}


def _line_rec(c):
    l = B._line_xy(c)
    l['op'] = 'recxy'
    return l


def hdu(ctx, cases=None, oracle_only=False):
    rng = ctx.rng
    if cases is None:
        cases = []
        for k in range(ctx.n(100, 2500)):
            c = B._gen_xy_case(rng)
            c['stream'] = 'hdu'
            c['k'] = k
            c['via'] = 'file' if rng.random() < 0.2 else 'memory'
            c['src'] = 'hdu'
            r = rng.random()
            if r < 0.12 and c.get('xjumplo') is not None:
                c['drop'] = [rng.choice(['XJUMPHI', 'XJUMPVAL'])]      # a BOSS table with a jump column missing
            elif r < 0.2:
                c['drop'] = [rng.choice(['FUNC', 'XMIN', 'XMAX', 'COEFF'])]
            elif r < 0.35:
                c['extra'] = rng.sample(['YJUMPLO', 'XJUMP', 'NOTE'], rng.choice([1, 2]))
            if rng.random() < 0.4:
                o = list(range(7))
                rng.shuffle(o)
                c['order'] = o
            cases.append(c)
    lines = []
    for c in cases:
        lines.append(_line_hdu(c))
        lines.append(_line_rec(c))
    model = [None] * len(lines) if oracle_only else core.driver_parallel(lines, chunk=200)
    good, tsets, good_model = [], [], []
    for k, c in enumerate(cases):
        m, mr = model[2 * k], model[2 * k + 1]
        try:
            t = _real_hdu(ctx, c)
            err = None
        except Exception as e:
            t, err = None, core.exc_kind(e)
        has_jump_cols = c.get('xjumplo') is not None and 'XJUMPLO' not in c.get('drop', [])
        ctx.count('hdu:%s:%s:%s:%s' % (c['via'], 'jump' if has_jump_cols else 'nojump',
                                        'drop=' + ','.join(c.get('drop', [])) if c.get('drop') else 'complete', err or 'ok'))
        if err is not None:
            ctx.seen(c, nontrivial=False)
            if m is not None and m != {'err': err}:
                ctx.disagree('hdu', c, {'err': err}, m)
            if not c.get('drop'):
                ctx.violate('hdu:raises:' + err, 'TraceSet(hdu.data) raised on a complete trace-set table', c)
            continue
        # attributes read from the table
        if m is not None and 'ok' in m:
            mo = m['ok']
            attrs = [int(t.nTrace), int(t.ncoeff), str(t.func), bool(t.has_jump)]
            if attrs != [mo['ntrace'], mo['ncoeff'], mo['func'], mo['has_jump']]:
                ctx.disagree('hdu', c, {'attrs': attrs}, {k2: mo[k2] for k2 in ('ntrace', 'ncoeff', 'func', 'has_jump')})
                continue
        # statement level: the object holds what the table held
        if not (np.array_equal(np.asarray(t.coeff, dtype='d').ravel(), np.array(c['coeff'], dtype='d')) and float(t.xmin) == c['xmin']
                and float(t.xmax) == c['xmax'] and str(t.func) == c['func']
                and (not has_jump_cols or (float(t.xjumplo), float(t.xjumphi), float(t.xjumpval)) == (c['xjumplo'], c['xjumphi'], c['xjumpval']))):
            ctx.violate('hdu:fields', 'TraceSet(hdu.data) does not hold the values of the table', c)
            continue
        # the model of "store, read back, evaluate" (ofRec_toRec) must agree with "read the columns, evaluate"
        if m is not None and mr is not None and not c.get('drop') and m != {kk: vv for kk, vv in mr.items()}:
            mo = m.get('ok')
            if not (mo is not None and 'ok' in mr and mo['x'] == mr['ok']['x'] and mo['y'] == mr['ok']['y']):
                ctx.disagree('hdu', c, 'model: hduxy and recxy differ', {'hduxy': m, 'recxy': mr})
                continue
        good.append(c)
        tsets.append(t)
        good_model.append(m)
    # evaluation: the common comparison and oracle of the xy stream, with the object built from the HDU on the implementation side
    # and the record constructor on the model side
    if good:
        B._xy(ctx, good, oracle_only=oracle_only, tsets=tsets, models=None if oracle_only else good_model)


# ------------------------------------------------------------------ dtype: float32 / integer input arrays
def _gen_dtype_case(rng):
    ntrace = rng.choice([1, 2, 3])
    func = rng.choice(['legendre', 'chebyshev', 'poly'])
    ncoeff = rng.choice([1, 2, 3, 4])
    nx = ncoeff + rng.choice([3, 6, 12])
    step = rng.choice([1, 1, 2, 16])
    off = rng.choice([0, 0, 5])
    xrows = [[float(off + step * j) for j in range(nx)] for _ in range(ntrace)]
    c = {'stream': 'dtype', 'shape': [ntrace, nx], 'func': func, 'ncoeff': ncoeff, 'style': 'dtype'}
    if rng.random() < 0.5:
        c['xmin'], c['xmax'] = 0.0, float(off + step * (nx - 1) + rng.choice([0, 3]))
    xmin = c.get('xmin', float(off))
    xmax = c.get('xmax', float(off + step * (nx - 1)))
    ys = []
    for r in xrows:
        xn = B.oracle_xnorm(r, xmin, xmax, None)
        c0 = [rng.uniform(-2, 2) * (100.0 if k == 0 else 10.0 / (k + 1)) for k in range(ncoeff)]
        yy = B.oracle_basis(func, xn, ncoeff).T @ np.array(c0)
        ys.append([float(np.float32(float(v) + rng.choice([0.0, 0.05]) * rng.gauss(0, 1))) for v in yy])   # representable in float32
    c['xpos'] = [v for r in xrows for v in r]
    c['ypos'] = [v for r in ys for v in r]
    c['xdtype'] = rng.choice(['i4', 'i8', 'i8', 'f4', 'u2'])
    c['ydtype'] = rng.choice(['d', 'd', 'f4'])      # also mixed precision: float32 positions with float64 values
    if c['xdtype'] == 'f4' and func == 'poly':
        c['ncoeff'] = min(ncoeff, 3)
    return c


def _real_dtype(c, xdt, ydt):
    from pydl.pydlutils.trace import xy2traceset, traceset2xy
    sh = c['shape']
    x = np.array(c['xpos'], dtype='d').reshape(sh).astype(xdt)
    y = np.array(c['ypos'], dtype='d').reshape(sh).astype(ydt)
    kw = {k: c[k] for k in ('func', 'ncoeff', 'xmin', 'xmax') if c.get(k) is not None}
    try:
        t = xy2traceset(x, y, **kw)
        xy = traceset2xy(t, x)[1]
        gx, gy = traceset2xy(t)
        return {'ok': {'coeff': t.coeff.astype('d').tolist(), 'yfit': t.yfit.astype('d').tolist(), 'xy': xy.astype('d').tolist(),
                       'grid_x': gx.astype('d').tolist(), 'grid_y': gy.astype('d').tolist(),
                       'dtypes': [str(t.coeff.dtype), str(t.yfit.dtype), str(xy.dtype), str(gy.dtype)]}}
    except Exception as e:
        return {'err': core.exc_kind(e)}


def dtype(ctx, cases=None, oracle_only=False):
    """positions given as integer pixel numbers or in single precision.  What the code computes in: the arrays of the trace set
    take the dtype of `xpos` when that is a floating type (float32 positions: float32 coefficients and values) and float64 for
    integer positions, whose normalised abscissae are float64 anyway.  Integer positions: every operation is the float64 one on the
    same values, so the result must equal the float64 run bit for bit (and with it the model, which the tsfit stream compares
    to that run); float32: compared with the float64 run to single-precision accuracy."""
    rng = ctx.rng
    if cases is None:
        cases = [_gen_dtype_case(rng) for _ in range(ctx.n(60, 1500))]
    model = [None] * len(cases) if oracle_only else core.driver_parallel([B._line_tsfit(c) for c in cases], chunk=200)
    for c, m in zip(cases, model):
        ref = _real_dtype(c, 'd', 'd')
        got = _real_dtype(c, c['xdtype'], c['ydtype'])
        ctx.seen(c, nontrivial='ok' in got)
        ctx.count('dtype:x=%s:y=%s:%s' % (c['xdtype'], c['ydtype'], got.get('err', ','.join(got['ok']['dtypes']) if 'ok' in got else '')))
        if 'ok' not in ref:
            ctx.violate('dtype:raises:' + ref['err'], 'xy2traceset / traceset2xy raised on float64 pixel positions', c)
            continue
        a = ref['ok']
        n = c['shape'][0]
        # correspondence of the float64 run with the model (as in the tsfit stream; these fits are well conditioned)
        if m is not None:
            if 'ok' not in m:
                ctx.disagree('dtype', c, ref, m)
            else:
                b = m['ok']
                for i in range(n):
                    sc = max([1.0] + [abs(v) for v in a['coeff'][i]])
                    if not (B.close_list(a['coeff'][i], B.bf(b['coeff'][i]), 1e-7, sc) and B.close_list(a['yfit'][i], B.bf(b['yfit'][i]), 1e-7, sc)):
                        ctx.disagree('dtype', c, ref, {'ok': dict(b, coeff=B.bf2(b['coeff']), yfit=B.bf2(b['yfit']))})
                        break
        if 'err' in got:
            ctx.violate('dtype:raises:' + got['err'], 'xy2traceset / traceset2xy raised on %s positions, %s values' % (c['xdtype'], c['ydtype']), c)
            continue
        g = got['ok']
        integer = c['xdtype'][0] in 'iu'
        exact = integer and c['ydtype'] == 'd'
        for i in range(n):
            sc = max([1.0] + [abs(v) for v in a['yfit'][i]] + [sum(abs(v) for v in a['coeff'][i])])
            tol = 1e-9 if integer else 2e-4
            if exact and not (B.same_list(g['coeff'][i], a['coeff'][i]) and B.same_list(g['yfit'][i], a['yfit'][i]) and B.same_list(g['xy'][i], a['xy'][i])):
                ctx.violate('dtype:integer-positions', 'trace %d: integer pixel positions give coefficients %s / fitted values %s / xy %s, the same '
                            'positions in float64 give %s / %s / %s' % (i, g['coeff'][i], g['yfit'][i][:4], g['xy'][i][:4], a['coeff'][i], a['yfit'][i][:4], a['xy'][i][:4]), c)
                break
            if not (B.close_list(g['coeff'][i], a['coeff'][i], tol, sc) and B.close_list(g['yfit'][i], a['yfit'][i], tol, sc)):
                ctx.violate('dtype:coefficients', 'trace %d: %s positions / %s values give coefficients %s, float64 gives %s'
                            % (i, c['xdtype'], c['ydtype'], g['coeff'][i], a['coeff'][i]), c)
                break
            # fit -> evaluate at the same positions returns the fitted values; the default grid spans xmin..xmax in unit steps
            if not B.close_list(g['xy'][i], g['yfit'][i], tol, sc):
                ctx.violate('dtype:xy-vs-yfit', 'trace %d: xy at the fitting positions %s, fitted values %s' % (i, g['xy'][i], g['yfit'][i]), c)
                break
            if g['grid_x'][i] != a['grid_x'][i] or not B.close_list(g['grid_y'][i], a['grid_y'][i], tol, sc):
                ctx.violate('dtype:grid', 'trace %d: default grid %s... values %s..., float64 run %s... %s...'
                            % (i, g['grid_x'][i][:3], g['grid_y'][i][:3], a['grid_x'][i][:3], a['grid_y'][i][:3]), c)
                break
        else:
            ctx.count('oracle:dtype:%s' % ('bit-exact' if exact else 'integer-1e-9' if integer else 'float32-2e-4'))


def replay_case(ctx, case, oracle_only=False):
    s = case.get('stream')
    if s == 'tsrej':
        rej(ctx, [case], oracle_only)
    elif s == 'hdu':
        hdu(ctx, [case], oracle_only)
    elif s == 'dtype':
        dtype(ctx, [case], oracle_only)
    else:
        return False
    return True

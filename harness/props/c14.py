"""C14 - IDL built-in replacements smooth, median, uniq, rebin (DESIGN §5 C14)."""
import os
import math
import statistics
import multiprocessing
from fractions import Fraction
import numpy as np
from harness import core

ID = 'C14'
LEAN_MODULES = ['PydlVerif.Props.C14']
P = 'PydlVerif.C14.'
THEOREMS = [P + t for t in (
    'npSum_eq_sum',
    'smooth_length', 'smooth_identity', 'smooth_interior', 'smooth_edges_untouched', 'smooth_truncate',
    'isort_sorted_perm', 'median_plain', 'medfilt1_contract', 'median_running', 'median_running_model',
    'medfilt2_contract', 'median_running2', 'median_running2_model',
    'uniq_sorted', 'uniq_all_equal', 'uniq_index', 'uniq_index_all_equal', 'uniq_values',
    'rebin_shape', 'rebin_rejects', 'rebin_shrink', 'rebin_expand', 'rebin_sample', 'rebin_keep',
    'rebin_axes_step', 'laneRebin_length', 'rebin_axis_elem', 'sample_float_exact')]
RULE = ('smooth: every (n, width) with n <= 20 (quick) / 40 (thorough), widths -2..n+3, both edge modes, plus random longer '
        'vectors (n up to 400, widths up to 300: all three branches of numpy pairwise summation); median: vectors and 2-D arrays '
        'with ties, both `even` settings, per-axis medians, running medians for all odd widths <= n (1-D) and k x k (2-D), plus even '
        'and oversized widths for the error branch; uniq: sorted int/float arrays built from run lengths (incl. constant arrays), '
        'sorting index arrays with random tie order, unsorted arrays (code-vs-model only); rebin: 1-3-D shapes with sides <= 6 and '
        'per-axis expand (factor <= 60) / keep / shrink choices, both `sample` settings, non-integral factors and rank changes, and the '
        '1-D family arange(n) x factor F (n < 30, F <= 78) for the sample index. Value styles: small integers (ties), uniform, 16 decades '
        'of dynamic range, constants, ramps, signed zeros. A case is non-trivial when it reaches window / index arithmetic (width >= 3, '
        'n >= 2, a factor != 1) or an error branch; distinct = distinct case payloads.')
TRUSTED = ['hand-written model lean/PydlVerif/Model/Idl.lean tied to the code by the bit-exact I/O correspondence of this run',
           'numpy pairwise summation / numpy.median / scipy.signal.medfilt, medfilt2d: modelled (pwSum, isort, medfilt1, medfilt2) and '
           'compared bit for bit, their contract (sum; middle of the sorted zero-padded window) is what the theorems use',
           'oracle libraries: scipy.ndimage.uniform_filter1d / median_filter, numpy.interp, statistics, fractions, math.fsum']
ASSUMPTIONS = ['float arrays are float64 and finite (no NaN / inf); float32 and integer arrays are checked for shape, dtype and '
               '(float32, tolerance 1e-5) values by the oracle only',
               'smooth: 1-D input, integer width; edge_truncate is IDL-exact for odd width <= n+1 (the statement asks width <= n)',
               'median: odd filter widths (even ones are refused by scipy with ValueError, modelled and compared); no signed-zero ties',
               'uniq: the array (or the array taken through the index) is sorted ascending; unsorted input is outside the statement',
               'rebin: positive dimensions; integer dtypes follow the documented limitation of the docstring (issue #60, xfail test) and '
               'are checked for shape/dtype and for sample/shrink values only']
TECHNIQUE = 'machine-checked proof (Lean 4) + bit-exact correspondence at Float + exact Rat run + independent oracle'

TOL = core.REL_TOL


# ---------------------------------------------------------------- helpers
def fb(xs):
    return [core.f2b(v) for v in xs]


def unb(bs):
    return [core.b2f(b) for b in bs]


def frac(q):
    return Fraction(int(q[0]), int(q[1]))


def scale_of(xs):
    m = max((abs(v) for v in xs), default=0.0)
    return m if m > 0 else 1.0


def near(a, b, scale):
    """a float, b float or Fraction"""
    return abs(Fraction(a) - Fraction(b)) <= Fraction(TOL) * Fraction(scale)


def values(rng, n, style=None):
    """n finite float64 values in one of several styles"""
    style = style or rng.choice(['smallint', 'smallint', 'uniform', 'wide', 'const', 'ramp', 'tiesf', 'zeros'])
    if style == 'smallint':
        return [float(rng.randrange(-4, 5)) for _ in range(n)]
    if style == 'uniform':
        return [rng.uniform(-10, 10) for _ in range(n)]
    if style == 'wide':
        return [rng.uniform(-1, 1) * 10.0 ** rng.randrange(-8, 9) for _ in range(n)]
    if style == 'const':
        c = rng.choice([0.0, 1.0, -2.5, 1e300, rng.uniform(-3, 3)])
        return [c] * n
    if style == 'ramp':
        a, b = rng.uniform(-3, 3), rng.uniform(-2, 2)
        return [a + b * i for i in range(n)]
    if style == 'tiesf':
        pool = [rng.uniform(-5, 5) for _ in range(max(1, n // 3))]
        return [rng.choice(pool) for _ in range(n)]
    if style == 'zeros':
        return [rng.choice([0.0, -0.0, 1.5, -1.5]) for _ in range(n)]
    raise ValueError(style)


def novzero(xs):
    """replace -0.0 by 0.0 (median streams: a -0.0/0.0 tie has no defined winner)"""
    return [0.0 if v == 0 else v for v in xs]


class _NoModel(list):
    """placeholder answers when the Lean driver cannot run: comparisons against it are skipped"""


_NOANSWER = object()


def _drv(ctx, lines, **kw):
    """driver call that does not abort the check: a driver that does not build / crashes is a broken
    obligation (never silently green) and the streams continue with the oracles alone (step 5)"""
    if not lines:
        return []
    try:
        return core.driver_parallel(lines, **kw)
    except core.DriverError as e:
        if not getattr(ctx, '_c14_nomodel', False):
            ctx._c14_nomodel = True
            ctx.oblige('lean driver', False, 'build', str(e))
            ctx.notes.append('Lean driver unavailable: oracle-only run')
        return _NoModel([_NOANSWER] * len(lines))


class _Rec:
    """stand-in for core.Ctx inside a worker process: records the calls, the parent replays them"""

    def __init__(self, tier):
        self.tier = tier
        self.events = []
        self.evaluations = 0
        self.notes = []
        self.violations = []
        self.disagreements = []
        self.obligations = []

    def n(self, quick, thorough):
        return thorough if self.tier == 'thorough' else quick

    def seen(self, case, nontrivial=True):
        self.events.append(('seen', case, nontrivial))

    def count(self, key, k=1):
        self.events.append(('count', key, k))

    def disagree(self, stream, case, impl, model):
        self.disagreements.append(1)
        self.events.append(('disagree', stream, case, impl, model))

    def violate(self, signature, what, case):
        self.violations.append(1)
        self.events.append(('violate', signature, what, case))

    def oblige(self, name, ok, kind='theorem', detail=''):
        self.events.append(('oblige', name, ok, kind, detail))


def _worker(job):
    fname, part, tier, kw = job
    rec = _Rec(tier)
    globals()[fname](rec, part, **kw)
    return rec.events, rec.evaluations, rec.notes


def _replay_events(ctx, events, evaluations, notes):
    for e in events:
        if e[0] == 'seen':
            ctx.seen(e[1], nontrivial=e[2])
        elif e[0] == 'count':
            ctx.count(e[1], e[2])
        elif e[0] == 'disagree':
            ctx.disagree(*e[1:])
        elif e[0] == 'violate':
            ctx.violate(*e[1:])
        elif e[0] == 'oblige':
            if not getattr(ctx, '_c14_nomodel', False):
                ctx._c14_nomodel = True
                ctx.oblige(*e[1:])
    ctx.evaluations += evaluations
    for n_ in notes:
        if n_ not in ctx.notes:
            ctx.notes.append(n_)


def _spread(ctx, fn, cases, chunk, **kw):
    """run a stream in chunks (bounds memory); thorough tier: chunks go to worker processes (fork: pydl
    and the case list are inherited), results are replayed in order, so the run stays deterministic"""
    parts = [cases[i:i + chunk] for i in range(0, len(cases), chunk)]
    if ctx.tier != 'thorough' or len(parts) < 4 or isinstance(ctx, _Rec):
        for part in parts:
            fn(ctx, part, **kw)
        return
    nproc = max(2, min(12, (os.cpu_count() or 4) - 2))
    with multiprocessing.get_context('fork').Pool(nproc) as pool:
        for res in pool.imap(_worker, [(fn.__name__, part, ctx.tier, kw) for part in parts]):
            _replay_events(ctx, *res)


def run_impl(f):
    try:
        return f()
    except Exception as e:  # exceptions of the real code are outputs
        return {'err': core.exc_kind(e)}


# ================================================================ smooth
def _smooth_impl(c):
    from pydl import smooth
    a = np.array(c['x'], dtype=np.float64)
    a0 = a.copy()
    r = smooth(a, c['w'], edge_truncate=c['trunc'])
    if not np.array_equal(a, a0, equal_nan=True):
        return {'err': 'input-array-modified'}     # every later use of the caller's array is then wrong
    return {'ok': fb(r.tolist()), 'shape': list(r.shape), 'dtype': str(r.dtype)}


def _smooth_rule(x, w, trunc):
    """direct statement: centred boxcar mean of odd width on the interior, edges untouched,
    or nearest-edge replication with edge_truncate.  Exactly rounded sums (math.fsum)."""
    n = len(x)
    ww = w + 1 if w % 2 == 0 else w
    if ww < 3:
        return list(x)
    h = ww // 2
    out = []
    for i in range(n):
        if h <= i <= n - 1 - h:
            out.append(math.fsum(x[i - h:i + h + 1]) / ww)
        elif trunc:
            out.append(math.fsum(x[min(max(j, 0), n - 1)] for j in range(i - h, i + h + 1)) / ww)
        else:
            out.append(x[i])
    return out


def _smooth_cases(ctx):
    rng = ctx.rng
    cases = []
    nmax = ctx.n(20, 40)
    for n in range(1, nmax + 1):
        for w in range(-2, n + 4):
            for trunc in (False, True):
                cases.append({'stream': 'smooth', 'kind': 'grid', 'x': values(rng, n), 'w': w, 'trunc': trunc})
    for _ in range(ctx.n(400, 6000)):
        n = rng.choice([rng.randrange(1, 40), rng.randrange(1, 40), rng.randrange(40, 160), rng.randrange(160, 400)])
        w = rng.choice([rng.randrange(0, n + 2), rng.randrange(0, 12), rng.randrange(max(1, n - 3), n + 2), min(n, 300)])
        cases.append({'stream': 'smooth', 'kind': 'random', 'x': values(rng, n), 'w': w, 'trunc': rng.random() < 0.5})
    return cases


def _smooth(ctx, cases):
    lines = [{'p': ID, 'op': 'smooth', 'x': fb(c['x']), 'w': c['w'], 'trunc': c['trunc']} for c in cases]
    qsel = [i for i, c in enumerate(cases) if len(c['x']) <= 64 or i % 7 == 0]
    model = _drv(ctx, lines)
    modelq = _drv(ctx, [dict(lines[i], mode='q') for i in qsel])
    qof = dict(zip(qsel, modelq))
    from scipy.ndimage import uniform_filter1d
    for k, (c, m) in enumerate(zip(cases, model)):
        x, w, trunc = c['x'], c['w'], c['trunc']
        n = len(x)
        ww = w + 1 if w % 2 == 0 else w
        impl = run_impl(lambda: _smooth_impl(c))
        ctx.seen(c, nontrivial=(ww >= 3 and n >= 2))
        branch = 'identity' if ww < 3 else ('wider-than-n' if ww > n + 1 else ('truncate' if trunc else 'plain'))
        ctx.count('smooth:' + branch + (':pairwise' if ww >= 8 else '') + (':halving' if ww > 128 else ''))
        if m is not _NOANSWER and impl.get('ok') != m:
            ctx.disagree('smooth', c, impl, m)
        if 'ok' not in impl:
            ctx.violate('smooth:exception', 'smooth raised %s' % impl, c)
            continue
        got = unb(impl['ok'])
        sc = scale_of(x)
        if k in qof and qof[k] is not _NOANSWER:
            rq = [frac(q) for q in qof[k]]
            if len(rq) != len(got) or not all(near(a, b, sc) for a, b in zip(got, rq)):
                ctx.disagree('smooth-rat', c, got, [float(v) for v in rq])
        # oracle
        if impl['shape'] != [n] or impl['dtype'] != 'float64':
            ctx.violate('smooth:shape-dtype', 'result %s %s for input of length %d' % (impl['shape'], impl['dtype'], n), c)
            continue
        if ww > n + 1 and trunc:
            ctx.count('smooth:oracle-skipped-outside-domain')
            continue
        want = _smooth_rule(x, w, trunc)
        h = ww // 2
        for i in range(n):
            interior = ww >= 3 and h <= i <= n - 1 - h
            if ww < 3 or (not interior and not trunc):
                ok = core.f2b(got[i]) == core.f2b(x[i])
                what = 'edge/identity point changed'
            else:
                # the mean of a window is judged on the scale of THAT window (a sum over the window only cannot be off by more
                # than a few ulps of its largest sample): an error proportional to samples elsewhere in the array is an error
                wsc = scale_of([x[min(max(j, 0), n - 1)] for j in range(i - h, i + h + 1)])
                ok = near(got[i], want[i], wsc)
                what = 'boxcar mean differs'
            if not ok:
                sig = 'smooth:%s:%s' % ('identity' if ww < 3 else 'truncate' if trunc else 'plain',
                                        'interior' if interior else 'edge')
                ctx.violate(sig, '%s at i=%d: got %r want %r' % (what, i, got[i], want[i]), c)
                break
        if ww >= 3 and n >= 1 and ww <= n + 1:
            # other library: uniform filter with edge replication
            xa = np.array(x)
            u = uniform_filter1d(xa, size=ww, mode='nearest')
            idx = range(n) if trunc else range(h, n - h)
            if not all(abs(got[i] - u[i]) <= 1e-7 * sc for i in idx):
                ctx.violate('smooth:vs-uniform_filter1d', 'differs from scipy.ndimage.uniform_filter1d(mode=nearest)', c)


# ================================================================ median
def _median_plain_cases(ctx):
    rng = ctx.rng
    cases = []
    for n in range(1, ctx.n(25, 60)):
        for even in (False, True):
            for _ in range(ctx.n(3, 12)):
                cases.append({'stream': 'median', 'kind': 'vector', 'shape': [n], 'x': novzero(values(rng, n)), 'even': even})
    for _ in range(ctx.n(100, 2000)):
        shape = [rng.randrange(1, 7) for _ in range(rng.choice([2, 2, 3]))]
        n = int(np.prod(shape))
        cases.append({'stream': 'median', 'kind': 'nd', 'shape': shape, 'x': novzero(values(rng, n)), 'even': rng.random() < 0.5})
    for _ in range(ctx.n(60, 1200)):
        shape = [rng.randrange(1, 9), rng.randrange(1, 9)]
        n = shape[0] * shape[1]
        cases.append({'stream': 'median', 'kind': 'axis', 'shape': shape, 'x': novzero(values(rng, n)),
                      'axis': rng.randrange(2), 'even': rng.random() < 0.5})
    return cases


def _median_impl(c):
    from pydl import median
    a = np.array(c['x'], dtype=np.float64).reshape(c['shape'])
    a0 = a.copy()
    if 'axis' in c:
        r = median(a, axis=c['axis'], even=c['even'])
        if not np.array_equal(a, a0, equal_nan=True):
            return {'err': 'input-array-modified'}
        return {'ok': fb(np.asarray(r).ravel().tolist()), 'shape': list(np.shape(r))}
    r = median(a, even=c['even'])
    if not np.array_equal(a, a0, equal_nan=True):
        return {'err': 'input-array-modified'}
    return {'ok': fb([float(r)]), 'shape': list(np.shape(r))}


def _lanes(c):
    a = np.array(c['x'], dtype=np.float64).reshape(c['shape'])
    if 'axis' in c:
        a = np.moveaxis(a, c['axis'], -1)
        return [list(map(float, l)) for l in a.reshape(-1, a.shape[-1])]
    return [list(map(float, a.ravel()))]


def _median_plain(ctx, cases):
    lines = [{'p': ID, 'op': 'median', 'xs': [fb(l) for l in _lanes(c)], 'even': True if 'axis' in c else c['even']}
             for c in cases]
    model = _drv(ctx, lines)
    for c, m in zip(cases, model):
        impl = run_impl(lambda: _median_impl(c))
        lanes = _lanes(c)
        n = len(lanes[0])
        ctx.seen(c, nontrivial=n >= 2)
        ctx.count('median:%s:%s:%s' % (c['kind'], 'odd' if n % 2 else 'evencount', 'even' if c['even'] else 'noeven'))
        mm = None if m is _NOANSWER else ({'ok': [r['ok'] for r in m]} if all('ok' in r for r in m) else {'err': [r.get('err') for r in m if 'err' in r][0]})
        if mm is not None and {k: impl.get(k) for k in ('ok', 'err') if k in impl} != mm:
            ctx.disagree('median', c, impl, mm)
        if 'ok' not in impl:
            ctx.violate('median:exception', 'median raised %s' % impl, c)
            continue
        got = unb(impl['ok'])
        for lane, g in zip(lanes, got):
            if n % 2 == 1 or not ('axis' in c or c['even']):
                want = sorted(lane)[n // 2]               # IDL: upper middle
                ok = g == want and want == statistics.median_high(lane)
            else:
                want = statistics.median(lane)
                ok = near(g, want, scale_of(lane))
            if not ok:
                ctx.violate('median:plain:%s' % ('axis' if 'axis' in c else 'even' if c['even'] else 'noeven'),
                            'median %r, IDL rule gives %r' % (g, want), c)
                break


def _medrun_cases(ctx):
    rng = ctx.rng
    cases = []
    nmax = ctx.n(16, 40)
    for n in range(1, nmax + 1):
        for w in range(1, n + 3):
            cases.append({'stream': 'medrun1', 'kind': 'grid', 'x': novzero(values(rng, n)), 'w': w})
    for _ in range(ctx.n(200, 3000)):
        n = rng.randrange(1, 120)
        w = rng.choice([2 * rng.randrange(0, (n + 1) // 2 + 1) + 1, 2 * rng.randrange(0, (n + 1) // 2 + 1) + 1, rng.randrange(1, n + 3)])
        cases.append({'stream': 'medrun1', 'kind': 'random', 'x': novzero(values(rng, n)), 'w': w})
    for n0 in range(1, ctx.n(7, 11)):
        for n1 in range(1, ctx.n(7, 11)):
            for w in range(1, min(n0, n1) + 3):
                if w % 2 == 0 and rng.random() < 0.6:
                    continue
                cases.append({'stream': 'medrun2', 'kind': 'grid', 'shape': [n0, n1], 'x': novzero(values(rng, n0 * n1)), 'w': w})
    for _ in range(ctx.n(20, 600)):
        n0, n1 = rng.randrange(1, 20), rng.randrange(1, 20)
        w = 2 * rng.randrange(0, min(n0, n1, 9) // 2 + 1) + 1
        cases.append({'stream': 'medrun2', 'kind': 'random', 'shape': [n0, n1], 'x': novzero(values(rng, n0 * n1)), 'w': w})
    return cases


def _medrun_impl(c):
    from pydl import median
    a = np.array(c['x'], dtype=np.float64)
    if c['stream'] == 'medrun2':
        a = a.reshape(c['shape'])
    a0 = a.copy()
    r = median(a, width=c['w'])
    if not np.array_equal(a, a0, equal_nan=True):
        return {'err': 'input-array-modified'}
    return {'ok': fb(r.ravel().tolist()), 'shape': list(r.shape), 'dtype': str(r.dtype)}


def _medrun(ctx, cases):
    from scipy.ndimage import median_filter
    lines = []
    for c in cases:
        if c['stream'] == 'medrun1':
            lines.append({'p': ID, 'op': 'medrun1', 'x': fb(c['x']), 'w': c['w']})
        else:
            n0, n1 = c['shape']
            lines.append({'p': ID, 'op': 'medrun2', 'x': [fb(c['x'][i * n1:(i + 1) * n1]) for i in range(n0)], 'n1': n1, 'w': c['w']})
    model = _drv(ctx, lines, chunk=400)
    for c, m in zip(cases, model):
        impl = run_impl(lambda: _medrun_impl(c))
        two = c['stream'] == 'medrun2'
        shape = c['shape'] if two else [len(c['x'])]
        w = c['w']
        size = int(np.prod(shape))
        if m is not _NOANSWER and 'ok' in m and two:
            m = {'ok': [b for row in m['ok'] for b in row]}
        ctx.seen(c, nontrivial=(w >= 3 and min(shape) >= w))
        ctx.count('%s:%s' % (c['stream'], 'err' if 'err' in impl else 'identity' if (w > min(shape) or w == 1) else 'filter'))
        if m is not _NOANSWER and {k: impl[k] for k in ('ok', 'err') if k in impl} != m:
            ctx.disagree(c['stream'], c, impl, m)
        if w % 2 == 0 or w > min(shape):
            # outside the statement (odd widths not exceeding N): code-vs-model only
            continue
        if 'ok' not in impl:
            ctx.violate(c['stream'] + ':exception', 'median(width=%d) raised %s' % (w, impl), c)
            continue
        if impl['shape'] != shape or impl['dtype'] != 'float64':
            ctx.violate(c['stream'] + ':shape-dtype', 'result %s %s' % (impl['shape'], impl['dtype']), c)
            continue
        a = np.array(c['x']).reshape(shape)
        got = np.array(unb(impl['ok'])).reshape(shape)
        ref = median_filter(a, size=w, mode='nearest')     # interior windows never see the boundary mode
        h = (w - 1) // 2
        edge = [np.array([(i < h) or (i > s - 1 - h) for i in range(s)]) for s in shape]
        emask = edge[0] if not two else (edge[0][:, None] | edge[1][None, :])
        # direct rule on the interior as well: middle of the sorted window
        bad = None
        for idx in np.ndindex(*shape):
            if emask[idx]:
                if core.f2b(got[idx]) != core.f2b(a[idx]):
                    bad = ('edge', idx, got[idx], a[idx])
                    break
            else:
                win = a[tuple(slice(i - h, i + h + 1) for i in idx)].ravel().tolist()
                want = sorted(win)[len(win) // 2]
                if got[idx] != want or got[idx] != ref[idx]:
                    bad = ('interior', idx, got[idx], want)
                    break
        if bad:
            ctx.violate('%s:%s' % (c['stream'], bad[0]), 'running median %s point %s: got %r want %r' % bad, c)


# ================================================================ uniq
def _uniq_cases(ctx):
    rng = ctx.rng
    cases = []

    def runs(n_runs, isfloat):
        vals = sorted(set((rng.uniform(-5, 5) if isfloat else rng.randrange(-20, 21)) for _ in range(n_runs)))
        if isfloat and rng.random() < 0.3:
            # adjacent doubles, tiny magnitudes and denormals are distinct values, however close
            k = rng.randrange(3)
            if k == 0:
                v0 = rng.choice([1.0, -3.5, 1e-8, 123456.0])
                vals = [v0]
                for _ in range(n_runs - 1):
                    vals.append(float(np.nextafter(vals[-1], np.inf)))
            elif k == 1:
                sc = rng.choice([1e-20, 1e-25, 1e-300])
                vals = sorted(set(v * sc for v in vals))
            else:
                vals = sorted(set(5e-324 * rng.randrange(0, 40) for _ in range(n_runs)))
        out = []
        for v in vals:
            out += [v] * rng.choice([1, 1, 1, 2, 3, rng.randrange(1, 8)])
        return out
    for _ in range(ctx.n(600, 10000)):
        isfloat = rng.random() < 0.5
        x = runs(rng.choice([1, 1, 2, 3, rng.randrange(1, 12)]), isfloat)
        cases.append({'stream': 'uniq', 'kind': 'sorted', 'float': isfloat, 'x': x})
    for n in range(1, ctx.n(12, 40)):
        cases.append({'stream': 'uniq', 'kind': 'constant', 'float': n % 2 == 0, 'x': [3.5 if n % 2 == 0 else 7] * n})
        cases.append({'stream': 'uniq', 'kind': 'constant', 'float': False, 'x': [0] * n, 'index': rng.sample(range(n), n)})
    for _ in range(ctx.n(600, 10000)):
        isfloat = rng.random() < 0.5
        x = runs(rng.choice([1, 2, 3, rng.randrange(1, 12)]), isfloat)
        rng.shuffle(x)
        # a sorting index with random order inside the ties
        idx = sorted(range(len(x)), key=lambda i: (x[i], rng.random()))
        cases.append({'stream': 'uniq', 'kind': 'index', 'float': isfloat, 'x': x, 'index': idx})
    for _ in range(ctx.n(150, 3000)):
        # outside the statement: unsorted data, partial / negative / out-of-range index
        isfloat = rng.random() < 0.5
        n = rng.randrange(1, 10)
        x = [(float(rng.randrange(3)) if isfloat else rng.randrange(3)) for _ in range(n)]
        c = {'stream': 'uniq', 'kind': 'unsorted', 'float': isfloat, 'x': x}
        if rng.random() < 0.5:
            c['kind'] = 'anyindex'
            c['index'] = [rng.randrange(-n - 1, n + 1) for _ in range(rng.randrange(1, 8))]
        cases.append(c)
    return cases


def _uniq_impl(c):
    from pydl import uniq
    x = np.array(c['x'], dtype=np.float64 if c['float'] else np.int64)
    x0 = x.copy()
    if 'index' in c:
        r = uniq(x, np.array(c['index'], dtype=np.int64))
    else:
        r = uniq(x)
    if not np.array_equal(x, x0):
        return {'err': 'input-array-modified'}
    if r.ndim != 1 or r.dtype.kind != 'i':
        return {'ok': [int(v) for v in r.ravel()], 'bad': 'ndim %d dtype %s' % (r.ndim, r.dtype)}
    return {'ok': [int(v) for v in r]}


def _uniq(ctx, cases):
    lines = []
    for c in cases:
        l = {'p': ID, 'op': 'uniq_f' if c['float'] else 'uniq_i', 'x': fb(c['x']) if c['float'] else c['x']}
        if 'index' in c:
            l['index'] = c['index']
        lines.append(l)
    model = _drv(ctx, lines)
    for c, m in zip(cases, model):
        impl = run_impl(lambda: _uniq_impl(c))
        x = c['x']
        ctx.seen(c, nontrivial=len(x) >= 2)
        ctx.count('uniq:%s:%s' % (c['kind'], 'err' if 'err' in impl else 'ok'))
        if m is not _NOANSWER and {k: impl[k] for k in ('ok', 'err') if k in impl} != m:
            ctx.disagree('uniq', c, impl, m)
        if c['kind'] in ('unsorted', 'anyindex'):
            continue
        if 'ok' not in impl or 'bad' in impl:
            ctx.violate('uniq:exception', 'uniq returned %s' % impl, c)
            continue
        idx = c.get('index', list(range(len(x))))
        q = [x[i] for i in idx]
        assert all(a <= b for a, b in zip(q, q[1:]))
        ends = [k for k in range(len(q)) if k == len(q) - 1 or q[k] != q[k + 1]]
        if len(ends) == 1 and 'index' in c:
            want = [len(q) - 1]            # IDL's UNIQ: constant array -> n-1, not index[n-1]
        else:
            want = [idx[k] for k in ends]
        if impl['ok'] != want:
            ctx.violate('uniq:%s' % c['kind'], 'uniq = %s, last-of-run rule gives %s' % (impl['ok'], want),
                        _shrink_uniq(c))
        elif not (len(ends) == 1 and 'index' in c) and [x[i] for i in impl['ok']] != sorted(set(x)):
            ctx.violate('uniq:values', 'x[uniq] is not the distinct values once each', c)


def _shrink_uniq(c):
    if 'index' in c:
        return c

    def fails(xs):
        c2 = dict(c, x=xs)
        r = run_impl(lambda: _uniq_impl(c2))
        ends = [k for k in range(len(xs)) if k == len(xs) - 1 or xs[k] != xs[k + 1]]
        return r.get('ok') != ends
    return dict(c, x=core.shrink_list(c['x'], fails, minlen=1))


# ================================================================ rebin
def _divisors(n):
    return [k for k in range(1, n + 1) if n % k == 0]


def _rebin_cases(ctx):
    rng = ctx.rng
    cases = []

    def mk(shape, d, sample, kind, style=None, dtype='float64'):
        n = int(np.prod(shape))
        if dtype == 'float64':
            x = values(rng, n, style)
        elif dtype == 'float32' or rng.random() < 0.5:
            x = [float(rng.randrange(-50, 200) if dtype != 'uint8' else rng.randrange(0, 256)) for _ in range(n)]
        else:
            # the whole range of the integer type: a block average is taken of values whose SUM does not fit the type
            # (int64: kept below 2^52 so that the float image of the values is exact)
            info = np.iinfo(dtype)
            lo, hi = max(int(info.min), -2**52), min(int(info.max), 2**52)
            x = [float(rng.choice([hi, hi - rng.randrange(0, 50), lo, lo + rng.randrange(0, 50), rng.randrange(lo, hi + 1)])) for _ in range(n)]
        return {'stream': 'rebin', 'kind': kind, 'shape': list(shape), 'x': x, 'd': list(d), 'sample': sample, 'dtype': dtype}

    def newdim(s, maxf):
        mode = rng.choice(['expand', 'keep', 'shrink'])
        if mode == 'expand':
            return s * rng.choice([2, 3, rng.randrange(2, maxf + 1), rng.randrange(2, maxf + 1)])
        if mode == 'shrink':
            return rng.choice(_divisors(s))
        return s
    # 1-D: every length <= 6 (quick) / 12 with every shrink target and a range of expansion factors
    for n in range(1, ctx.n(7, 13)):
        for sample in (False, True):
            for d in _divisors(n):
                cases.append(mk([n], [d], sample, '1d-shrink' if d < n else '1d-keep'))
            for F in (list(range(2, 13)) + [49, 60] if ctx.tier != 'thorough' else range(2, 61)):
                cases.append(mk([n], [n * F], sample, '1d-expand'))
    # longer shrinks: block sums with >= 8 and > 128 terms
    for _ in range(ctx.n(40, 600)):
        f = rng.choice([8, 9, 16, 17, 31, 64, 128, 129, 130, 200, 257, rng.randrange(2, 300)])
        d = rng.randrange(1, 5)
        cases.append(mk([f * d], [d], rng.random() < 0.3, '1d-shrink-long'))
    # 2-D / 3-D: random shapes with sides <= 6, all combinations of expand / keep / shrink
    for _ in range(ctx.n(800, 6000)):
        nd = rng.choice([2, 2, 3])
        shape = [rng.randrange(1, 7) for _ in range(nd)]
        maxf = 60 if nd == 2 else 12
        for _try in range(20):
            d = [newdim(s, maxf) for s in shape]
            if int(np.prod(d)) <= ctx.n(6000, 20000):
                break
        else:
            d = list(shape)
        cases.append(mk(shape, d, rng.random() < 0.4, '%dd' % nd))
    # every shape with sides <= 6 (1-3-D) x every combination of expand / keep / shrink per axis
    # (thorough: all of them, both `sample` settings; quick: a random subset); factors drawn per case
    import itertools
    combos = []
    for nd in (1, 2, 3):
        for shape in itertools.product(range(1, 7), repeat=nd):
            for modes in itertools.product('EKS', repeat=nd):
                combos.append((shape, modes))
    if ctx.tier != 'thorough':
        combos = rng.sample(combos, 400)
    for shape, modes in combos:
        for sample in ((False, True) if ctx.tier == 'thorough' else (rng.random() < 0.4,)):
            d = []
            budget = 4000
            for s_, m_ in zip(shape, modes):
                if m_ == 'E':
                    fmax = max(2, min(60, budget // max(1, s_)))
                    F = rng.choice([2, 3, rng.randrange(2, fmax + 1)])
                    d.append(s_ * F)
                    budget = max(1, budget // F)
                elif m_ == 'S':
                    d.append(rng.choice(_divisors(s_)[:-1] or [s_]))
                else:
                    d.append(s_)
            cases.append(mk(list(shape), d, sample, 'grid-%dd' % len(shape)))
    # bigger block sums along each axis of a 2-D / 3-D array (summation order along non-innermost axes)
    for _ in range(ctx.n(40, 600)):
        nd = rng.choice([2, 3])
        k = rng.randrange(nd)
        shape = [rng.randrange(1, 4) for _ in range(nd)]
        d = list(shape)
        f = rng.choice([8, 9, 17, 40, 130])
        shape[k] = shape[k] * f
        cases.append(mk(shape, d, False, '%dd-shrink-long' % nd, style=rng.choice(['wide', 'uniform'])))
    # refusals: non-integral factors, rank changes
    for _ in range(ctx.n(150, 3000)):
        nd = rng.choice([1, 2, 3])
        shape = [rng.randrange(1, 9) for _ in range(nd)]
        if rng.random() < 0.35:
            d = [rng.randrange(1, 12) for _ in range(rng.choice([k for k in (1, 2, 3, 4) if k != nd]))]
            kind = 'rank-change'
        else:
            d = [newdim(s, 6) for s in shape]
            k = rng.randrange(nd)
            d[k] = rng.randrange(1, 30)
            kind = 'nonintegral' if (d[k] % shape[k] != 0 and shape[k] % d[k] != 0) else 'integral-after-all'
        cases.append(mk(shape, d, rng.random() < 0.5, kind))
    # other dtypes (oracle only for the values)
    for _ in range(ctx.n(80, 1500)):
        nd = rng.choice([1, 2])
        shape = [rng.randrange(1, 7) for _ in range(nd)]
        d = [newdim(s, 8) for s in shape]
        cases.append(mk(shape, d, rng.random() < 0.5, 'dtype', dtype=rng.choice(['float32', 'int64', 'int32', 'uint8', 'int16'])))
    # integer block averages (shrink without sample), every integer width
    for _ in range(ctx.n(60, 1000)):
        f = rng.choice([2, 2, 3, 4])
        m = rng.randrange(1, 4)
        shape, d = [f * m], [m]
        if rng.random() < 0.4:
            k = rng.randrange(1, 4)
            shape, d = shape + [k], d + [k]
        cases.append(mk(shape, d, False, 'int-shrink', dtype=rng.choice(['int64', 'int32', 'uint8', 'int16', 'uint16', 'int8'])))
    return cases


def _rebin_impl(c):
    from pydl import rebin
    a = np.array(c['x'], dtype=np.float64).astype(c.get('dtype', 'float64')).reshape(c['shape'])
    a0 = a.copy()
    r = rebin(a, tuple(c['d']), sample=c['sample'])
    out = {'shape': list(r.shape), 'dtype': str(r.dtype), 'untouched': bool(np.array_equal(a, a0))}
    if r.dtype == np.float64:
        out['ok'] = fb(r.ravel().tolist())
    else:
        out['vals'] = [float(v) for v in r.ravel()]
    return out


def _lane_rule(x, d, sample, integer=False):
    """IDL rule for one lane, exact (Fractions); x list of Fraction"""
    d0 = len(x)
    out = []
    if d > d0:
        for i in range(d):
            fl, rem = divmod(i * d0, d)
            if sample or fl >= d0 - 1:
                out.append(x[fl])
            else:
                out.append(x[fl] + Fraction(rem, d) * (x[fl + 1] - x[fl]))
    elif d == d0:
        out = list(x)
    else:
        f = d0 // d
        for i in range(d):
            if sample:
                out.append(x[i * f])
            elif integer:
                out.append(Fraction(math.floor(sum(x[i * f:(i + 1) * f]) / f)))
            else:
                out.append(sum(x[i * f:(i + 1) * f]) / f)
    return out


def _rebin_rule(a, d, sample, order=None, integer=False):
    """axis by axis with the exact lane rule; `order` = order in which the axes are treated"""
    a = np.array(a, dtype=object)
    for k in (order if order is not None else range(a.ndim)):
        a = np.apply_along_axis(lambda lane: np.array(_lane_rule(list(lane), d[k], sample, integer), dtype=object), k, a)
    return a


def _rebin_valid(shape, d):
    if len(shape) != len(d):
        return False
    return all((b % a == 0) if b > a else (a % b == 0) for a, b in zip(shape, d))


def _rebin(ctx, cases, rat=True):
    fcases = [c for c in cases]
    lines = [{'p': ID, 'op': 'rebin', 'shape': c['shape'], 'x': fb(c['x']), 'd': c['d'], 'sample': c['sample']} for c in fcases]
    sel = [i for i, c in enumerate(fcases) if c.get('dtype', 'float64') == 'float64']
    model = dict(zip(sel, _drv(ctx, [lines[i] for i in sel], chunk=300)))
    qsel = [i for i in sel if rat and (int(np.prod(fcases[i]['d'])) <= 1500 or i % 5 == 0)]
    modelq = dict(zip(qsel, _drv(ctx, [dict(lines[i], mode='q') for i in qsel], chunk=200)))
    for k, c in enumerate(fcases):
        impl = run_impl(lambda: _rebin_impl(c))
        shape, d, sample = c['shape'], c['d'], c['sample']
        dtype = c.get('dtype', 'float64')
        valid = _rebin_valid(shape, d)
        nontriv = (not valid) or any(a != b for a, b in zip(shape, d))
        ctx.seen(c, nontrivial=nontriv)
        if valid:
            modes = ''.join('E' if b > a else 'K' if a == b else 'S' for a, b in zip(shape, d))
            ctx.count('rebin:%s:%s:%s' % (dtype if dtype != 'float64' else 'f8', modes, 'sample' if sample else 'interp'))
        else:
            ctx.count('rebin:refused:%s:%s' % (c['kind'], impl.get('err', 'no-error')))
        if k in model and model[k] is not _NOANSWER:
            m = model[k]
            mcanon = {'err': m['err']} if 'err' in m else {'ok': m['ok']['x'], 'shape': m['ok']['shape']}
            icanon = {'err': impl['err']} if 'err' in impl else {'ok': impl.get('ok'), 'shape': impl['shape']}
            if icanon != mcanon:
                ctx.disagree('rebin', _min_rebin(c), icanon if 'err' in icanon else _first_diff(icanon, mcanon),
                             mcanon if 'err' in mcanon else _first_diff(mcanon, icanon))
        # ---- oracle
        if not valid:
            if impl.get('err') != 'ValueError':
                ctx.violate('rebin:not-refused:%s' % c['kind'], 'expected ValueError for %s -> %s, got %s' % (shape, d, impl.get('err', 'a result')), c)
            continue
        if 'err' in impl:
            ctx.violate('rebin:exception:%s' % impl['err'], 'rebin raised %s for %s -> %s' % (impl['err'], shape, d), c)
            continue
        if impl['shape'] != d or impl['dtype'] != dtype:
            ctx.violate('rebin:shape-dtype', 'result %s %s, requested %s %s' % (impl['shape'], impl['dtype'], d, dtype), c)
            continue
        if not impl['untouched']:
            ctx.violate('rebin:input-modified', 'rebin changed its input array', c)
        a = np.array(c['x'], dtype=np.float64).astype(dtype)
        xs = [Fraction(float(v)) for v in a.ravel()]
        sc = scale_of([float(v) for v in a.ravel()])
        A = np.array(xs, dtype=object).reshape(shape)
        integer = np.dtype(dtype).kind in 'iu'
        if integer and not sample and any(b > a_ for a_, b in zip(shape, d)):
            ctx.count('rebin:integer-expand-values-not-judged')
            continue
        want = _rebin_rule(A, d, sample, integer=integer).ravel().tolist()
        got = unb(impl['ok']) if 'ok' in impl else impl['vals']
        tol = TOL if dtype == 'float64' else 1e-5
        if sample or integer:
            okv = all(Fraction(g) == w for g, w in zip(got, want))
        else:
            okv = all(abs(Fraction(g) - w) <= Fraction(tol) * Fraction(sc) for g, w in zip(got, want))
        if not okv:
            bad = next(i for i, (g, w) in enumerate(zip(got, want)) if abs(Fraction(g) - w) > (0 if (sample or integer) else Fraction(tol) * Fraction(sc)))
            modes = ''.join('E' if b > a_ else 'K' if a_ == b else 'S' for a_, b in zip(shape, d))
            sig = 'rebin:%s:%s%s' % ('sample' if sample else 'interp',
                                     'expand' if 'E' in modes else 'shrink' if 'S' in modes else 'keep',
                                     '' if dtype == 'float64' else ':' + dtype)
            ctx.violate(sig, 'flat element %d of rebin(%s -> %s, sample=%s) is %r, IDL rule gives %r'
                        % (bad, shape, d, sample, got[bad], float(want[bad])), _min_rebin(c, oracle=True))
            continue
        if k in modelq and modelq[k] is not _NOANSWER and 'ok' in modelq[k]:
            rq = [frac(q) for q in modelq[k]['ok']['x']]
            if len(rq) != len(got) or not all(abs(Fraction(g) - w) <= Fraction(TOL) * Fraction(sc) for g, w in zip(got, rq)):
                ctx.disagree('rebin-rat', _min_rebin(c), got[:20], [float(v) for v in rq[:20]])
            elif sample and not all(Fraction(g) == w for g, w in zip(got, rq)):
                ctx.disagree('rebin-rat-index', _min_rebin(c), got[:20], [float(v) for v in rq[:20]])
            ctx.count('rebin:rat-run')
        if dtype == 'float64' and len(shape) >= 2 and not sample and int(np.prod(d)) <= 2000:
            # the per-axis operators commute: treating the axes in reverse order must give the same array
            rev = _rebin_rule(A, d, sample, order=list(reversed(range(len(shape))))).ravel().tolist()
            if rev != want:
                ctx.violate('rebin:oracle-self-check', 'axis order changes the exact rule (oracle bug)', c)
        if dtype == 'float64' and len(shape) == 1 and not sample and d[0] > shape[0]:
            ref = np.interp(np.arange(d[0]) * (shape[0] / d[0]), np.arange(shape[0]), np.array(c['x']))
            if not all(abs(g - r) <= 1e-7 * sc for g, r in zip(got, ref)):
                ctx.violate('rebin:vs-numpy-interp', 'differs from numpy.interp with clamped right edge', c)


def _first_diff(a, b):
    if a.get('shape') != b.get('shape') or a.get('ok') is None or b.get('ok') is None:
        return {'shape': a.get('shape'), 'n': None if a.get('ok') is None else len(a['ok'])}
    for i, (u, v) in enumerate(zip(a['ok'], b['ok'])):
        if u != v:
            return {'shape': a['shape'], 'first_diff_at': i, 'value': core.b2f(u), 'bits': u}
    return {'shape': a['shape']}


def _rebin_oracle_fails(c):
    """does the real code break the IDL rule on this (float64) case?"""
    impl = run_impl(lambda: _rebin_impl(c))
    if 'ok' not in impl or not _rebin_valid(c['shape'], c['d']):
        return False
    xs = [Fraction(float(v)) for v in c['x']]
    want = _rebin_rule(np.array(xs, dtype=object).reshape(c['shape']), c['d'], c['sample']).ravel().tolist()
    sc = scale_of(c['x'])
    got = unb(impl['ok'])
    if c['sample']:
        return any(Fraction(g) != w for g, w in zip(got, want))
    return any(abs(Fraction(g) - w) > Fraction(TOL) * Fraction(sc) for g, w in zip(got, want))


def _min_rebin(c, oracle=False):
    """smaller case with the same symptom: one axis at a time, data replaced by 0, 1, 2, ..."""
    if c.get('dtype', 'float64') != 'float64' or not _rebin_valid(c['shape'], c['d']):
        return c
    if not oracle:
        return c
    best = c
    for k in range(len(c['shape'])):
        n, d = c['shape'][k], c['d'][k]
        c1 = {'stream': 'rebin', 'kind': 'shrunk', 'shape': [n], 'x': [float(i) for i in range(n)], 'd': [d],
              'sample': c['sample'], 'dtype': 'float64'}
        try:
            if _rebin_oracle_fails(c1):
                best = c1
                break
        except Exception:
            pass
    return best


def _rebin_family(ctx):
    """1-D family arange(n) -> n*F, sample=True: the index rule x[(i*n)//(n*F)] = x[i//F] (oracle only; D11 lives here)"""
    from pydl import rebin
    fails = []
    for n in range(1, ctx.n(30, 41)):
        x = np.arange(float(n))
        for F in range(1, ctx.n(79, 121)):
            try:
                r = rebin(x, (n * F,), sample=True)
            except Exception as e:      # an exception on a documented request is an answer, not a harness crash
                ctx.violate('rebin:sample:exception', 'rebin(arange(%d.), (%d,), sample=True) raised %s: %s' % (n, n * F, type(e).__name__, str(e)[:120]),
                            {'stream': 'rebin', 'kind': 'family', 'shape': [n], 'x': [float(i) for i in range(n)], 'd': [n * F], 'sample': True, 'dtype': 'float64'})
                return fails
            ctx.evaluations += 1
            want = np.repeat(x, F)
            if r.shape != want.shape or not np.array_equal(r, want):
                fails.append((n, F))
    ctx.count('rebin:family-arange-sample', (ctx.n(30, 41) - 1) * (ctx.n(79, 121) - 1))
    if fails:
        ctx.count('rebin:family-failing-pairs', len(fails))
        n, F = min(fails, key=lambda t: t[0] * t[1])
        c = {'stream': 'rebin', 'kind': 'family', 'shape': [n], 'x': [float(i) for i in range(n)], 'd': [n * F],
             'sample': True, 'dtype': 'float64'}
        r = rebin(np.arange(float(n)), (n * F,), sample=True)
        bad = next(i for i in range(n * F) if r[i] != i // F)
        ctx.violate('rebin:sample:expand',
                    'rebin(arange(%d.), (%d,), sample=True)[%d] is x[%d], IDL rule x[floor(%d*%d/%d)] = x[%d]; %d of the (n, F) pairs fail'
                    % (n, n * F, bad, int(r[bad]), bad, n, n * F, bad // F, len(fails)), c)
    return fails


def _rebin_interp_boundary(ctx):
    """non-sample expansion of arange(n) by F: at i = m*F the exact position p = i*n/(n*F) is the integer m.
    The code floors the float product (n/(n*F))*i, which can come out as m - 1ulp; then it interpolates
    x[m-1] + (1-eps)(x[m]-x[m-1]) instead of returning x[m].  Counted here and judged against exact arithmetic:
    the interpolant is continuous, so this is rounding (<= 1e-9 of the data scale), not a wrong sample."""
    from pydl import rebin
    worst = Fraction(0)
    nfloor = 0
    npts = 0
    for n in range(2, ctx.n(30, 41)):
        x = [float(3 * i * i - 7 * i) for i in range(n)]
        xa = np.array(x)
        sc = scale_of(x)
        for F in range(2, ctx.n(79, 121)):
            d = n * F
            try:
                r = rebin(xa, (d,))
            except Exception as e:
                ctx.violate('rebin:interp:exception', 'rebin of %d points to %d raised %s: %s' % (n, d, type(e).__name__, str(e)[:120]),
                            {'stream': 'rebin', 'kind': 'interp-boundary', 'shape': [n], 'x': x, 'd': [d], 'sample': False, 'dtype': 'float64'})
                return
            ctx.evaluations += 1
            f = n / d
            rl = r.tolist()
            dev = Fraction(0)
            for i in range(0, d, F):
                # exact position p = i/F is the integer m: the IDL value is x[m] itself
                npts += 1
                if int(math.floor(f * i)) != (i * n) // d:
                    nfloor += 1
                dev = max(dev, abs(Fraction(rl[i]) - Fraction(x[i // F])) / Fraction(sc))
            worst = max(worst, dev)
            if dev > Fraction(TOL):
                c = {'stream': 'rebin', 'kind': 'interp-boundary', 'shape': [n], 'x': x, 'd': [d], 'sample': False, 'dtype': 'float64'}
                ctx.violate('rebin:interp:expand', 'rebin(%d -> %d) deviates from exact clamped interpolation by %.3g of the data scale'
                            % (n, d, float(dev)), c)
    ctx.count('rebin:interp-boundary:integer-positions', npts)
    ctx.count('rebin:interp-boundary:float-floor-differs-from-exact', nfloor)
    ctx.notes.append('non-sample expand: float floor(p) differs from the exact floor at %d of %d integer positions; '
                     'largest deviation of the result from exact interpolation %.3g of the data scale (tolerance %g): rounding, not a violation'
                     % (nfloor, npts, float(worst), TOL))


# ---------------------------------------------------------------- numpy summation model on its own
def _sum_stream(ctx):
    rng = ctx.rng
    xs = [values(rng, n, rng.choice(['wide', 'uniform', 'zeros'])) for n in list(range(0, 40)) + [127, 128, 129, 255, 256, 257, 300, 511, 1000]]
    xs += [values(rng, rng.randrange(1, 700), 'wide') for _ in range(ctx.n(100, 3000))]
    model = _drv(ctx, [{'p': ID, 'op': 'sum', 'x': fb(x)} for x in xs])
    for x, m in zip(xs, model):
        got = core.f2b(float(np.array(x, dtype=np.float64).sum()))
        ctx.evaluations += 1
        ctx.count('sum:' + ('n<8' if len(x) < 8 else 'n<=128' if len(x) <= 128 else 'halving'))
        if m is not _NOANSWER and got != m:
            ctx.disagree('numpy-sum', {'stream': 'sum', 'x': x}, got, m)


# ---------------------------------------------------------------- the check
def run(ctx):
    core.audit(ctx, LEAN_MODULES, THEOREMS)
    _sum_stream(ctx)
    _spread(ctx, _smooth, _smooth_cases(ctx), 500)
    _spread(ctx, _median_plain, _median_plain_cases(ctx), 1000)
    _spread(ctx, _medrun, _medrun_cases(ctx), 400)
    _spread(ctx, _uniq, _uniq_cases(ctx), 4000)
    _rebin_family(ctx)
    _rebin_interp_boundary(ctx)
    _spread(ctx, _rebin, _rebin_cases(ctx), 400)
    _search(ctx)


def _search(ctx):
    """step 5: the correspondence (or the build) is broken and the oracle found nothing yet:
    run the oracles alone on more cases around the disagreeing ones."""
    if ctx.violations:
        return
    broken = [o for o in ctx.obligations if not o['ok']]
    if not broken and not ctx.disagreements:
        return
    streams = {d['stream'].split('-')[0] for d in ctx.disagreements} or {'smooth', 'median', 'medrun1', 'uniq', 'rebin'}
    ctx.notes.append('failing-input search on streams %s' % sorted(streams))
    saved = (list(ctx.disagreements), ctx.tier)
    ctx.tier = 'quick'        # three quick-sized rounds, whatever the tier
    try:
        # oracle-only: more cases of the same generators with fresh randomness; the model answers are ignored
        for _ in range(3):
            if 'smooth' in streams:
                _spread(ctx, _smooth, _smooth_cases(ctx), 500)
            if 'median' in streams:
                _spread(ctx, _median_plain, _median_plain_cases(ctx), 1000)
            if 'medrun1' in streams or 'medrun2' in streams:
                _spread(ctx, _medrun, _medrun_cases(ctx), 400)
            if 'uniq' in streams:
                _spread(ctx, _uniq, _uniq_cases(ctx), 4000)
            if 'rebin' in streams:
                _spread(ctx, _rebin, _rebin_cases(ctx), 400, rat=False)
            if ctx.violations:
                break
    except core.DriverError:
        pass
    finally:
        ctx.disagreements[:] = saved[0]
        ctx.tier = saved[1]


def replay(ctx, case):
    core.audit(ctx, LEAN_MODULES, THEOREMS)
    s = case.get('stream')
    if s == 'smooth':
        _smooth(ctx, [case])
    elif s == 'median':
        _median_plain(ctx, [case])
    elif s in ('medrun1', 'medrun2'):
        _medrun(ctx, [case])
    elif s == 'uniq':
        _uniq(ctx, [case])
    elif s == 'rebin':
        _rebin(ctx, [case])
    else:
        run(ctx)


LEVEL_TEXT = ('Machine-checked Lean 4 theorems over an executable model of smooth, median, uniq and rebin, for all array lengths, '
              'widths, factors and values of any ordered field: boxcar mean on the interior / edges untouched / nearest-edge replication; '
              'upper-middle or two-middle-mean median and running median with restored edges (1-D, 2-D); last index of every run for sorted '
              'data, through an index array, with the constant-array clause; rebin shape, refusals, block mean, clamped linear interpolation, '
              'nearest-neighbour pick, per-axis composition. The model is tied to the repository on every run by bit-exact comparison at '
              'Float (numpy pairwise summation reproduced), an exact Rat run for the index decisions, and independent oracles '
              '(scipy.ndimage filters, numpy.interp, exact-fraction IDL rules).')
LEVEL_NOTE = ('Trusted: Lean kernel, axioms propext/Classical.choice/Quot.sound at most, the hand-written model (validated by the '
              'correspondence sample only), the modelled numpy/scipy kernels. Theorems are over exact ordered fields: float rounding of '
              'the means and of the interpolation weight p - floor(p) is not exhibited (compared to 1e-9 of the data scale against exact '
              'arithmetic). Integer / float32 dtypes: oracle only. N-D rebin: the theorem gives the element formula of one axis step and '
              'the lane rules; the composition over axes is by definition of the model.')

"""C15 - least-squares and factorisation solvers return the optimum they claim (DESIGN §5 C15).

Streams: chi2 (computechi2), chi2v (computechi2 with a one-dimensional amatrix), pcomp, hmf_step (single astep/gstep/astepnn/gstepnn/normbase/reorder/badness
calls on a set state), hmf_solve (HMF(...).solve() in both modes, k-means start recorded through
unittest.mock), pca (pca_solve).  Everything passes through LAPACK/BLAS, so model and oracle are compared
at a tolerance (TOL), integers / masks exactly.
"""
import copy
import math
from fractions import Fraction as Fr
from unittest import mock
import numpy as np
from harness import core

ID = 'C15'
LEAN_MODULES = ['PydlVerif.Props.C15']
P = 'PydlVerif.C15.'
THEOREMS = [P + t for t in (
    'chi2_optimum', 'covar_is_inverse', 'var_diag', 'dof_count',
    'astep_optimum', 'gstep_optimum', 'gstep_eps_stationary_partial',
    'normbase_unit_rms', 'reorder_preserves_model', 'nn_steps_nonneg',
    'pcomp_reconstructs', 'pca_coeff_is_projection', 'usemask_counts',
    # extension round
    'chi2_is_min_value', 'chi2_vec_optimum', 'iterate_is_sweeps', 'sweep_badness_le', 'iterate_badness_antitone',
    'astep_gradient_vanishes', 'gstep_gradient_vanishes', 'nn_zero_stays_zero', 'astepnn_fixed_point_kkt',
    'pcomp_derived_uncorrelated', 'pca_final_state', 'pca_final_coeff_is_projection',
    'gstepnn_fixed_point_kkt', 'findContiguous_block', 'iterateCols_block',
    # extension round 2
    'findContiguous_longest_first', 'findContiguous_none_iff',
    'astepnn_badness_le', 'gstepnn_badness_le', 'sweepNN_badness_le',
    'iterateCols_block_longest', 'pcaSolveVec_spec', 'iterateKg_spec', 'gstep_eps_badness_le', 'gstepnn_eps_badness_le', 'iterateNN_badness_antitone')]
TOL = 1e-7          # model (own Gauss / Jacobi kernels) and oracles against LAPACK results, relative to the array's scale
TOL_ITER = 2e-6     # whole HMF / pca_solve runs (several chained solves)
TOL_F32 = 2e-4      # pca_solve: projections on the eigenspectra that are RETURNED (rounded to float32)
RULE = ('chi2: full-rank n x m systems (m 1-6, n up to 40, condition < 1e3) with random zero weights; chi2v: one-dimensional amatrix '
        '(one template) of length 1-40; pcomp: latent-factor data '
        'matrices in the four standardize/covariance modes; hmf_step: low-rank + noise spectra with masked pixels (ivar = 0), '
        'K 1-4, epsilon in {None, 0, >0}, signed and non-negative states; hmf_solve: both modes, fixed seeds, run twice, with all-zero '
        'columns (in spectra, in invvar, or in their product only) at an edge, at both edges, in the middle, splitting the range into equal halves, several; '
        'pca: low-rank + noise spectra, masked pixels, niter 1-4, nkeep 1-3, maxiter 0-3, objects without signal (constant, all-zero, two of them, '
        'also at an index below nkeep) and objects without any good pixel; contig: find_contiguous alone on bool / int / float arrays of length 0-70 '
        '(random density, equal runs = ties, all true / all false / one hole, longest run last) plus ALL boolean vectors up to length 8 (quick) / 12 (thorough); '
        'pca_vec: one spectrum in 7 input forms (vector or 1 x npix flux; vector / 1-row / 2-row / all-zero newivar); hmf_fewk: spectra with fewer than K distinct rows '
        '(kmeans must return fewer than K centroids), both modes, n_iter 0-3. A case is non-trivial when the real function '
        'returned arrays that were compared with the model and the oracle; distinct = distinct generator payloads.')
TRUSTED = ['hand-written model lean/PydlVerif/Model/Solvers.lean tied to the code by the I/O correspondence of this run (tolerance %g / %g)' % (TOL, TOL_ITER),
           'kernel parameters of the model: sqrt, svd, eigh, solve, argsort, kmeans (contracts are hypotheses of the theorems; '
           'the driver instantiates them with its own Gauss elimination / Jacobi rotation code, the harness samples the contracts on LAPACK\'s outputs)',
           'exact rational arithmetic (fractions.Fraction) and numpy.linalg.lstsq / eigvalsh as independent oracles; brute force over all blocks for find_contiguous']
ASSUMPTIONS = ['float64 inputs; amatrix of computechi2 is N x M (or a vector of length N) with full column rank on the positively weighted rows',
               'HMF: the longest contiguous block of columns that are not all-zero keeps >= 3K+3 columns with >= K+2 good pixels per spectrum and per column, '
               'kmeans returns K centroids, N >= 4K+4 (stream hmf_fewk: fewer centroids - the code raises ValueError or, with n_iter = 0 in default mode, returns the start values; model iterateKg)',
               'pca_solve: two-dimensional input (a single spectrum, also as a vector: stream pca_vec, only the flux is returned), at least nkeep+2 objects with signal, distinct leading eigenvalues (near-degenerate cases are judged by the oracle only); '
               'djs_reject is called without rejection limits (as pca_solve does), so the outer loop for maxiter > 0 never rejects a pixel',
               'pcomp: distinct eigenvalues (eigenvectors are compared up to sign)',
               'aliasing ("caller\'s arrays are not modified") and seed reproducibility are decided by the harness only (bit copies, re-run)']
LEVEL_TEXT = ('Machine-checked Lean 4 theorems over an executable model of computechi2 (matrix and one-template form), pcomp, HMF (steps, whole sweeps, '
              'zero-column removal) and pca_solve (all goodobj branches, outer loop for maxiter >= 0): the returned coefficients solve the normal equations '
              'and therefore minimise the weighted chi-square (for all sizes, data and non-negative weights), the returned chi2 IS the chi-square at the '
              'returned coefficients and the minimum value, covar is the inverse of A^T W A, var its diagonal, dof the count; '
              'every HMF a-/g-update is the per-row / per-column WLS optimum, the partial derivatives of badness (identified through the exact quadratic '
              'expansion along every coordinate) vanish after the step, and a WHOLE sweep astep; gstep; reorder; renormalise never increases badness '
              '(epsilon None/0; rotation and unit-rms normalisation leave a.g unchanged), hence badness is non-increasing along iterate; with '
              'epsilon > 0 a g-step is stationary given the old neighbours AND never increases badness = chi-square + penalty, for every epsilon > 0 (exact decrease identity, '
              'Jacobi splitting with the signless Laplacian); non-negativity of the multiplicative updates, zeros stay zeros, ONE multiplicative update (astepnn for any epsilon, '
              'gstepnn for epsilon None/0 and for epsilon > 0, the whole non-negative sweep for epsilon None/0) does not increase badness for non-negative weights and states '
              '(Lee-Seung majorisation resp. the descent condition 2P - H >= 0, full matrix statement), a fixed point of the '
              'non-negative a-update (g-update, epsilon None/0) satisfies the KKT stationarity on its non-zero entries; the column block HMF.iterate keeps (find_contiguous) is non-empty, in range, free of zero columns and is THE FIRST LONGEST block of good columns of the input (no block of consecutive good columns is longer, an equally long one starts later; ValueError exactly when no column is good; induction over the scan); HMF with fewer k-means centroids than K and pca_solve with a single spectrum given as a vector follow the code branch by branch (refusals included); pcomp reconstruction identities and uncorrelated derived '
              'variables (covariance diag(eigenvalue^2)) from the eigh contract; pca_solve: in the result of the whole loop outmask = (ivar != 0), usemask counts, '
              'and the returned coefficients are the weighted projections on the returned eigenspectra with the weights of the last iteration. '
              'The model is tied to the code on every run by I/O correspondence at tolerance and by independent oracles '
              '(exact rational least squares, lstsq, finite-difference gradients, bit copies, re-runs with the same seed).')
LEVEL_NOTE = ('Partial: LAPACK svd/eigh/solve, libm sqrt, argsort and scipy kmeans are parameters with contracts assumed in the theorems '
              '(sampled numerically here); IEEE rounding is not modelled (theorems are over ordered fields); the monotonicity theorems for the multiplicative updates assume '
              'non-zero denominators (where the code would divide by zero) and, with smoothing, at least two pixels (the code raises IndexError for one pixel, the model does not); '
              'a WHOLE sweep with epsilon > 0 is not monotone in general (the unit-rms renormalisation rescales the penalty) and is not claimed; '
              'seed reproducibility and aliasing are harness-only; documented behaviour outside the property text, modelled as refusals: pca_solve with a vector flux AND a vector '
              'newivar raises IndexError, HMF.solve raises ValueError when kmeans returns fewer than K centroids (n_iter >= 1 or non-negative mode).')


# ---------------------------------------------------------------- helpers
def _bits(a):
    return np.ascontiguousarray(a, dtype=np.float64).view(np.uint64).tolist()


def _unbits(x):
    return np.array(x, dtype=np.uint64).view(np.float64)


def _scale(*arrs):
    return max([1.0] + [float(np.max(np.abs(a))) if np.size(a) else 0.0 for a in arrs])


def _near(a, b, tol):
    a = np.asarray(a, dtype=float)
    b = np.asarray(b, dtype=float)
    if a.shape != b.shape:
        return False
    if not (np.all(np.isfinite(a)) and np.all(np.isfinite(b))):
        return bool(np.array_equal(np.isnan(a), np.isnan(b)) and np.array_equal(a[np.isfinite(a)], b[np.isfinite(b)]))
    return bool(np.max(np.abs(a - b), initial=0.0) <= tol * _scale(a, b))


def _snap(*arrs):
    return [(a.tobytes(), a.shape, a.dtype.str) for a in arrs]


def _lst(a):
    return np.asarray(a).tolist()


def _run_stream(ctx, fn, cases):
    """case functions are generators: they run the real code, yield ONE driver line, receive the model's answer and
    then compare / judge; all lines of a stream go to the Lean driver in one batch"""
    gens, lines = [], []
    for c in cases:
        g = fn(ctx, c)
        try:
            lines.append(next(g))
            gens.append(g)
        except StopIteration:
            pass
        except RuntimeError as e:
            if not str(e).startswith('generator:'):
                raise
            ctx.count('generator-gave-up:' + fn.__name__)   # no input produced: not a case, never a verdict
    outs = core.driver_parallel(lines, workers=8, chunk=100) if lines else []
    for g, r in zip(gens, outs):
        try:
            g.send(r)
        except StopIteration:
            pass


# ---------------------------------------------------------------- computechi2
def _chi2_tol(chi, b, sq, cond=1e3):
    """how far a correctly rounded sum of squared residuals may be from the exact chi-square: relative to chi-square itself, plus
    the residual error the solve leaves - the code solves the NORMAL equations (SVD of M^T M), so eps * cond(M)^2 * |b| per
    point, cond(M) being the condition number of THIS weighted matrix - NOT relative to |b|^2: a chi-square that is wrong by
    its own size at high signal-to-noise is wrong"""
    bn = float(np.sqrt(np.sum((b * sq) ** 2)))
    e = 1e-14 * max(cond, 3.0) ** 2 * bn
    return TOL * max(chi, 0.0) + 2.0 * e * math.sqrt(max(chi, 0.0)) + e * e + 1e-300


def _gen_chi2(g):
    rs = np.random.RandomState(g['nseed'])
    n, m = g['n'], g['m']
    for _ in range(200):
        A = rs.standard_normal((n, m)) * np.exp(rs.uniform(-1, 1, size=m))
        if g['kind'] == 'poly':
            x = np.sort(rs.uniform(-1, 1, n))
            A = np.vander(x, m, increasing=True)
        b = A @ rs.standard_normal(m) * g['signal'] + rs.standard_normal(n)
        sq = np.exp(rs.uniform(-1.5, 1.5, size=n))
        zero = rs.uniform(size=n) < g['pzero']
        if n - zero.sum() < (m + 1 if n > m else m):
            continue
        sq[zero] = 0.0
        if g.get('zerorow') and n > m + 1:
            # a template set that vanishes at a measured point (a model through the origin sampled at 0, a band-limited
            # template): the point still counts - in chi2 and in the degrees of freedom
            k = int(rs.randint(n))
            A[k, :] = 0.0
            sq[k] = max(sq[k], 0.5)
        if np.linalg.cond(A * sq[:, None]) < 1e3:
            return A, b, sq
    raise RuntimeError('generator: no well-conditioned system')


def _exact_wls(A, b, sq):
    """exact rational weighted least squares: coefficients, inverse normal matrix, chi2 (as floats)"""
    n, m = A.shape
    w = [Fr(float(x)) ** 2 for x in sq]
    Af = [[Fr(float(v)) for v in row] for row in A]
    bf = [Fr(float(v)) for v in b]
    aug = [[sum(w[i] * Af[i][k] * Af[i][l] for i in range(n)) for l in range(m)] +
           [Fr(int(k == l)) for l in range(m)] +
           [sum(w[i] * Af[i][k] * bf[i] for i in range(n))] for k in range(m)]
    for c in range(m):
        p = next(r for r in range(c, m) if aug[r][c] != 0)
        aug[c], aug[p] = aug[p], aug[c]
        piv = aug[c][c]
        aug[c] = [v / piv for v in aug[c]]
        for r in range(m):
            if r != c and aug[r][c] != 0:
                f = aug[r][c]
                aug[r] = [v - f * u for v, u in zip(aug[r], aug[c])]
    x = [aug[k][2 * m] for k in range(m)]
    inv = [[float(aug[k][m + l]) for l in range(m)] for k in range(m)]
    chi2 = sum(w[i] * (bf[i] - sum(Af[i][k] * x[k] for k in range(m))) ** 2 for i in range(n))
    return np.array([float(v) for v in x]), np.array(inv), float(chi2)


def _chi2_case(ctx, c):
    from pydl.pydlutils.math import computechi2
    A, b, sq = _gen_chi2(c['gen'])
    n, m = A.shape
    Aimpl = A
    if c['gen'].get('adtype') == 'float32':
        # templates stored in single precision (pca_solve returns its eigenspectra as float32, template files are float32)
        # with double-precision data and weights: the SAME numbers, the same least-squares problem
        Aimpl = A.astype(np.float32)
        A = Aimpl.astype(np.float64)
    before = _snap(Aimpl, b, sq)
    try:
        o = computechi2(b, sq, Aimpl)
        # the attributes are computed lazily: the answer must not depend on the order in which they are read
        order = ['acoeff', 'chi2', 'yfit', 'dof', 'covar', 'var']
        np.random.RandomState(c['gen']['nseed'] % (2 ** 31)).shuffle(order)
        got = {k: getattr(o, k) for k in order}
        impl = {'acoeff': got['acoeff'], 'chi2': float(got['chi2']), 'yfit': got['yfit'], 'dof': int(got['dof']), 'covar': got['covar'], 'var': got['var']}
        ctx.count('chi2:first-read=' + order[0])
    except Exception as e:
        impl = {'err': core.exc_kind(e)}
    ctx.seen(c)
    ctx.count('chi2:%s:m=%d:%s' % (c['gen']['kind'], m, 'err' if 'err' in impl else 'ok'))
    ctx.count('chi2:zero-weights', int((sq == 0).sum()))
    ctx.count('chi2:amatrix-dtype:' + str(Aimpl.dtype))
    full = dict(c, input={'A': _lst(A), 'b': _lst(b), 'sqivar': _lst(sq)})
    if 'err' in impl:
        ctx.violate('chi2:exception:' + impl['err'], 'computechi2 raised %s on a full-rank system' % impl['err'], full)
        return
    if _snap(Aimpl, b, sq) != before:
        ctx.violate('chi2:input-modified', 'computechi2 modified its input arrays', full)
    # --- model
    r = yield {'p': 'C15', 'op': 'chi2', 'n': n, 'm': m, 'b': _bits(b), 'sq': _bits(sq), 'A': _bits(A)}
    if 'driver_error' in r:
        raise core.DriverError(str(r))
    mdl = {'acoeff': _unbits(r['acoeff']), 'chi2': float(_unbits([r['chi2']])[0]), 'yfit': _unbits(r['yfit']), 'dof': r['dof'],
           'covar': _unbits(r['covar']).reshape(m, m), 'var': _unbits(r['var'])}
    chis = max(1.0, float(np.sum((b * sq) ** 2)))
    for k in ('acoeff', 'yfit', 'covar', 'var'):
        if not _near(impl[k], mdl[k], TOL):
            ctx.disagree('chi2:' + k, c, _lst(impl[k]), _lst(mdl[k]))
    cnd = float(np.linalg.cond(A * sq[:, None]))
    if abs(impl['chi2'] - mdl['chi2']) > _chi2_tol(max(mdl['chi2'], impl['chi2']), b, sq, cnd):
        ctx.disagree('chi2:chi2', c, impl['chi2'], mdl['chi2'])
    if impl['dof'] != mdl['dof']:
        ctx.disagree('chi2:dof', c, impl['dof'], mdl['dof'])
    # --- oracle 1: exact rational weighted least squares
    xe, inve, chie = _exact_wls(A, b, sq)
    if not _near(impl['acoeff'], xe, TOL):
        ctx.violate('chi2:acoeff', 'coefficients differ from the exact weighted least-squares solution: %s vs %s' % (_lst(impl['acoeff']), _lst(xe)), full)
    if not _near(impl['covar'], inve, TOL):
        ctx.violate('chi2:covar', 'covar is not the inverse of A^T W A', full)
    if not _near(impl['var'], np.diag(inve), TOL) or not np.array_equal(impl['var'], np.diag(impl['covar'])):
        ctx.violate('chi2:var', 'var is not the diagonal of the covariance', full)
    if abs(impl['chi2'] - chie) > _chi2_tol(chie, b, sq, cnd):
        ctx.violate('chi2:chi2', 'chi2 %r differs from the exact minimum %r (tolerance %.3g, cond %.3g)' % (impl['chi2'], chie, _chi2_tol(chie, b, sq, cnd), cnd), full)
    if not _near(impl['yfit'], A @ xe, TOL):
        ctx.violate('chi2:yfit', 'yfit differs from A x', full)
    if impl['dof'] != int((sq > 0).sum()) - m:
        ctx.violate('chi2:dof', 'dof %d != #(sqivar>0) - M = %d' % (impl['dof'], int((sq > 0).sum()) - m), full)
    # --- oracle 2: lstsq and the normal equations (gradient of chi2)
    xl = np.linalg.lstsq(A * sq[:, None], b * sq, rcond=None)[0]
    if not _near(impl['acoeff'], xl, TOL):
        ctx.violate('chi2:acoeff-lstsq', 'coefficients differ from numpy.linalg.lstsq', full)
    w = sq * sq
    grad = A.T @ (w * (b - A @ impl['acoeff']))
    gs = float(np.max(np.abs(A.T * w) @ (np.abs(b) + np.abs(A) @ np.abs(impl['acoeff']))))
    if np.max(np.abs(grad)) > 1e-9 * max(gs, 1e-300) * max(1.0, np.linalg.cond(A * sq[:, None]) ** 2):
        ctx.violate('chi2:gradient', 'normal equations not satisfied: A^T W (b - A x) = %s' % _lst(grad), full)
    # --- "for every weight vector": the same system with every sqivar multiplied by an exact power of two s (fluxes in cgs units,
    # raw counts): acoeff, yfit and dof are those of the unscaled call, chi2 is s^2 times, covar and var 1/s^2 times it - compared
    # RELATIVE to their own size (seeded change C15-21: a rescaling branch for |sqivar| > 1e8 that forgets covar / var)
    k = c['gen'].get('wscale')
    if k:
        sc = 2.0 ** k
        try:
            o2 = computechi2(b, sq * sc, Aimpl)
            g2 = {kk: np.asarray(getattr(o2, kk), dtype=float) for kk in order}
        except Exception as e:
            ctx.violate('chi2:weight-scale:exception', 'computechi2 raised %r with sqivar scaled by 2^%d' % (e, k), dict(full, wscale=k))
            g2 = None
        ctx.count('chi2:weight-scale:2^%d' % k)
        if g2 is not None:
            def rel(u, v):
                u, v = np.asarray(u, dtype=float), np.asarray(v, dtype=float)
                return u.shape == v.shape and bool(np.all(np.abs(u - v) <= 1e-7 * np.maximum(np.max(np.abs(v), initial=0.0), 1e-300)))
            badk = [kk for kk, want in (('acoeff', impl['acoeff']), ('yfit', impl['yfit']), ('covar', np.asarray(impl['covar']) / sc ** 2),
                                        ('var', np.asarray(impl['var']) / sc ** 2)) if not rel(g2[kk], want)]
            if abs(float(g2['chi2']) - impl['chi2'] * sc ** 2) > 1e-7 * impl['chi2'] * sc ** 2 + _chi2_tol(chie, b, sq, cnd) * sc ** 2:
                badk.append('chi2')
            if int(g2['dof']) != impl['dof']:
                badk.append('dof')
            if badk:
                ctx.violate('chi2:weight-scale:' + '+'.join(badk),
                            'with every sqivar multiplied by 2^%d the results %s are not the exactly rescaled results of the unscaled system '
                            '(covar[0,0] %r, expected %r)' % (k, badk, float(g2['covar'][0, 0]), float(np.asarray(impl['covar'])[0, 0] / sc ** 2)),
                            dict(full, wscale=k))
    # --- svd contract sampled on LAPACK's output (spectral form assumed by covar_is_inverse)
    if not _near(o.uu, o.vv.T, 1e-6) or not (o.ww > 0).all():
        ctx.count('chi2:svd-contract-miss')
        ctx.notes.append('svd contract (uu = vv^T, ww > 0) not met on case %s' % c['gen'])


def _gen_chi2_scaled(g):
    """full-rank systems whose columns differ in scale by orders of magnitude (a continuum in raw counts next to a
    unit-height line, a polynomial in raw pixel number): cond(A sqrt(W)) between 1e3 and 3e5"""
    rs = np.random.RandomState(g['nseed'])
    n, m = g['n'], g['m']
    for _ in range(400):
        if g['kind'] == 'pixpoly':
            x = np.arange(n, dtype='d') * rs.choice([1.0, 3.0, 10.0])
            A = np.vander(x, m, increasing=True)
        else:
            A = rs.standard_normal((n, m)) * 10.0 ** rs.uniform(-g['decades'], g['decades'], size=m)
        b = A @ (rs.standard_normal(m) / np.maximum(np.abs(A).max(0), 1e-300)) * g['signal'] * 10.0 + rs.standard_normal(n)
        sq = np.exp(rs.uniform(-1.0, 1.0, size=n))
        zero = rs.uniform(size=n) < g['pzero']
        if n - zero.sum() < m + 2:
            continue
        sq[zero] = 0.0
        cond = np.linalg.cond(A * sq[:, None])
        if 1e3 <= cond <= 3e5:
            return A, b, sq, float(cond)
    return None


def _chi2_scaled_case(ctx, c):
    """oracle-only stream (the exact rational solution is the reference; tolerance grows with cond^2 because the code
    inverts the normal matrix)"""
    from pydl.pydlutils.math import computechi2
    got = _gen_chi2_scaled(c['gen'])
    if got is None:
        ctx.count('chi2-scaled:generator-gave-up')
        return
    A, b, sq, cond = got
    n, m = A.shape
    ctx.seen(c)
    ctx.count('chi2-scaled:%s:cond~1e%d' % (c['gen']['kind'], int(np.log10(cond))))
    full = dict(c, input={'A': _lst(A), 'b': _lst(b), 'sqivar': _lst(sq)}, cond=cond)
    try:
        o = computechi2(b, sq, A)
        yfit, chi2 = np.array(o.yfit), float(o.chi2)
    except Exception as e:
        ctx.violate('chi2:exception:' + core.exc_kind(e), 'computechi2 raised on a full-rank system (cond %.3g)' % cond, full)
        return
    xe, inve, chie = _exact_wls(A, b, sq)
    tol = max(1e-9, 1e-12 * cond * cond)
    ye = A @ xe
    good = sq > 0
    scale = max(1.0, float(np.max(np.abs(b))))
    if np.max(np.abs((yfit - ye)[good])) > tol * scale * 10:
        ctx.violate('chi2:yfit', 'fitted values differ from the exact weighted least-squares fit by %.3g (cond %.3g, tolerance %.3g)'
                    % (float(np.max(np.abs((yfit - ye)[good]))), cond, tol * scale * 10), full)
    chis = max(1.0, float(np.sum((b * sq) ** 2)))
    if chi2 - chie > tol * chis * 10:
        ctx.violate('chi2:chi2', 'chi2 %r is above the exact minimum %r (cond %.3g)' % (chi2, chie, cond), full)
    if False:
        yield None


def _chi2(ctx, cases=None):
    if cases is None:
        scaled = []
        for i in range(ctx.n(150, 3000)):
            m = ctx.rng.choice([2, 2, 3, 3, 4])
            kind = ctx.rng.choice(['scaled', 'scaled', 'pixpoly'])
            scaled.append({'stream': 'chi2-scaled', 'gen': {'nseed': ctx.rng.getrandbits(32), 'n': ctx.rng.randrange(m + 4, 41),
                                                            'm': m if kind == 'scaled' else min(m, 3), 'kind': kind,
                                                            'decades': ctx.rng.choice([1.5, 2.0, 2.5]),
                                                            'pzero': ctx.rng.choice([0.0, 0.1, 0.3]),
                                                            'signal': ctx.rng.choice([1.0, 10.0])}})
        _run_stream(ctx, _chi2_scaled_case, scaled)
    elif cases and cases[0].get('stream') == 'chi2-scaled':
        _run_stream(ctx, _chi2_scaled_case, cases)
        return
    if cases is None:
        cases = []
        for i in range(ctx.n(120, 4000)):
            m = ctx.rng.choice([1, 2, 2, 3, 3, 4, 5, 6])
            n = ctx.rng.randrange(m + 2, 41)
            cases.append({'stream': 'chi2', 'gen': {'nseed': ctx.rng.getrandbits(32), 'n': n, 'm': m,
                                                   'kind': ctx.rng.choice(['random', 'random', 'poly']) if m <= 4 else 'random',
                                                   'pzero': ctx.rng.choice([0.0, 0.1, 0.3, 0.5]),
                                                   'signal': ctx.rng.choice([0.0, 1.0, 10.0, 1e3, 1e6, 1e8])}})
            if ctx.rng.random() < 0.2:
                cases[-1]['gen']['adtype'] = 'float32'
            if ctx.rng.random() < 0.15:
                cases[-1]['gen']['zerorow'] = True
            if i % 4 == 0:
                cases[-1]['gen']['wscale'] = (-40, 30, 40, 60, -20)[(i // 4) % 5]
        # square full-rank systems (as many data as templates, every weight positive: dof 0, chi2 0, the solution of A x = b)
        for i in range(ctx.n(20, 400)):
            m = ctx.rng.choice([1, 2, 3, 4, 5])
            cases.append({'stream': 'chi2', 'gen': {'nseed': ctx.rng.getrandbits(32), 'n': m, 'm': m, 'kind': 'random', 'pzero': 0.0,
                                                   'signal': ctx.rng.choice([1.0, 10.0])}})
    _run_stream(ctx, _chi2_case, cases)


def _chi2v_case(ctx, c):
    """computechi2 with a ONE-dimensional amatrix (one template): nstar = 1"""
    from pydl.pydlutils.math import computechi2
    g = c['gen']
    rs = np.random.RandomState(g['nseed'])
    n = g['n']
    a = rs.standard_normal(n) * g['ascale'] + g['offset']
    b = a * rs.standard_normal() * g['signal'] + rs.standard_normal(n)
    sq = np.exp(rs.uniform(-1.5, 1.5, size=n))
    zero = rs.uniform(size=n) < g['pzero']
    zero[:2] = False
    sq[zero] = 0.0
    if float(np.sum((a * sq) ** 2)) < 1e-3:
        ctx.count('chi2v:generator-gave-up')
        return
    ctx.seen(c)
    full = dict(c, input={'amatrix': _lst(a), 'b': _lst(b), 'sqivar': _lst(sq)})
    before = _snap(a, b, sq)
    try:
        o = computechi2(b, sq, a)
        order = ['acoeff', 'chi2', 'yfit', 'dof', 'covar', 'var']
        np.random.RandomState(g['nseed'] % (2 ** 31)).shuffle(order)
        got = {k: getattr(o, k) for k in order}
        impl = {'acoeff': np.asarray(got['acoeff'], dtype=float), 'chi2': float(got['chi2']), 'yfit': np.asarray(got['yfit'], dtype=float),
                'dof': int(got['dof']), 'covar': np.asarray(got['covar'], dtype=float), 'var': np.asarray(got['var'], dtype=float)}
    except Exception as e:
        ctx.count('chi2v:err')
        ctx.violate('chi2v:exception:' + core.exc_kind(e), 'computechi2 raised %r for a one-dimensional amatrix of length %d' % (e, n), full)
        return
    ctx.count('chi2v:ok')
    if _snap(a, b, sq) != before:
        ctx.violate('chi2:input-modified', 'computechi2 modified its input arrays', full)
    r = yield {'p': 'C15', 'op': 'chi2v', 'n': n, 'b': _bits(b), 'sq': _bits(sq), 'a': _bits(a)}
    if 'driver_error' in r:
        raise core.DriverError(str(r))
    chis = max(1.0, float(np.sum((b * sq) ** 2)))
    shapes = {'acoeff': (1,), 'yfit': (n,), 'covar': (1, 1), 'var': (1,)}
    for k, shp in shapes.items():
        if impl[k].shape != shp:
            ctx.violate('chi2v:shape:' + k, '%s has shape %s for a one-dimensional amatrix of length %d (expected %s)' % (k, impl[k].shape, n, shp), full)
            return
        if not _near(impl[k], _unbits(r[k]).reshape(shp), TOL):
            ctx.disagree('chi2v:' + k, c, _lst(impl[k]), _lst(_unbits(r[k])))
    if abs(impl['chi2'] - float(_unbits([r['chi2']])[0])) > TOL * chis:
        ctx.disagree('chi2v:chi2', c, impl['chi2'], float(_unbits([r['chi2']])[0]))
    if impl['dof'] != r['dof']:
        ctx.disagree('chi2v:dof', c, impl['dof'], r['dof'])
    # oracle: exact rational one-parameter weighted least squares
    xe, inve, chie = _exact_wls(a.reshape(n, 1), b, sq)
    if not _near(impl['acoeff'], xe, TOL):
        ctx.violate('chi2v:acoeff', 'coefficient %s differs from sum(w a b)/sum(w a a) = %s' % (_lst(impl['acoeff']), _lst(xe)), full)
    if not _near(impl['covar'], inve, TOL) or not np.array_equal(impl['var'], np.diag(impl['covar'])):
        ctx.violate('chi2v:covar', 'covar / var is not 1 / sum(w a a)', full)
    if abs(impl['chi2'] - chie) > TOL * chis:
        ctx.violate('chi2v:chi2', 'chi2 %r differs from the exact minimum %r' % (impl['chi2'], chie), full)
    if not _near(impl['yfit'], a * xe[0], TOL):
        ctx.violate('chi2v:yfit', 'yfit differs from a * x', full)
    if impl['dof'] != int((sq > 0).sum()) - 1:
        ctx.violate('chi2v:dof', 'dof %d != #(sqivar>0) - 1' % impl['dof'], full)


def _chi2v(ctx, cases=None):
    if cases is None:
        cases = []
        for i in range(ctx.n(30, 1000)):
            cases.append({'stream': 'chi2v', 'gen': {'nseed': ctx.rng.getrandbits(32), 'n': ctx.rng.choice([1, 2, 3, 5, 8, 13, 21, 40]) if i % 4 else ctx.rng.randrange(1, 41),
                                                    'ascale': ctx.rng.choice([0.3, 1.0, 10.0]), 'offset': ctx.rng.choice([0.0, 2.0]),
                                                    'pzero': ctx.rng.choice([0.0, 0.2, 0.5]), 'signal': ctx.rng.choice([0.0, 1.0, 10.0])}})
    _run_stream(ctx, _chi2v_case, cases)


# ---------------------------------------------------------------- pcomp
def _gen_pcomp(g):
    rs = np.random.RandomState(g['nseed'])
    no, nv = g['no'], g['nv']
    for att in range(400):
        nf = max(1, nv // 2)
        load = rs.standard_normal((nf, nv)) * np.arange(1, nf + 1)[::-1, None]
        noise = g['noise'] * (1 + att // 50)
        x = rs.standard_normal((no, nf)) @ load + noise * rs.standard_normal((no, nv)) * np.linspace(0.5, 1.5, nv)
        x = x * np.exp(rs.uniform(-1, 1, size=nv)) + rs.uniform(-5, 5, size=nv)
        z = (x - x.mean(0)) / x.std(0) if g['standardize'] else x
        C = np.cov(z, rowvar=0) if g['covariance'] else np.corrcoef(z, rowvar=0)
        ev = np.sort(np.linalg.eigvalsh(np.atleast_2d(C)))
        gaps = np.diff(ev) / ev[-1]
        if ev[0] > 1e-6 * ev[-1] and (gaps.size == 0 or gaps.min() > 1e-4):
            return x
    raise RuntimeError('generator: no data matrix with separated eigenvalues')


def _align(ref, other, axis):
    """signs s_k (per component along `axis`) that bring `other` onto `ref`"""
    d = np.sum(ref * other, axis=axis)
    return np.where(d < 0, -1.0, 1.0)


def _pcomp_case(ctx, c):
    from pydl.pcomp import pcomp
    g = c['gen']
    x = _gen_pcomp(g)
    no, nv = x.shape
    before = _snap(x)
    try:
        # documented signature pcomp(x, standardize=False, covariance=False): keyword and positional calls are the same call
        conv = g['nseed'] % 3
        if conv == 0:
            o = pcomp(x, standardize=g['standardize'], covariance=g['covariance'])
        elif conv == 1:
            o = pcomp(x, g['standardize'], g['covariance'])
        else:
            o = pcomp(x, g['standardize'], covariance=g['covariance'])
        ctx.count('pcomp:call-convention:%s' % ['keywords', 'positional', 'mixed'][conv])
        impl = {'coefficients': np.array(o.coefficients), 'derived': np.array(o.derived), 'variance': np.array(o.variance),
                'eigenvalues': np.array(o.eigenvalues)}
    except Exception as e:
        impl = {'err': core.exc_kind(e)}
    ctx.seen(c)
    mode = 'std=%d:cov=%d' % (g['standardize'], g['covariance'])
    ctx.count('pcomp:%s:%s' % (mode, 'err' if 'err' in impl else 'ok'))
    full = dict(c, input={'x': _lst(x)})
    if 'err' in impl:
        ctx.violate('pcomp:exception:' + impl['err'], 'pcomp raised %s' % impl['err'], full)
        return
    if _snap(x) != before:
        ctx.violate('pcomp:input-modified', 'pcomp modified its input array', full)
    r = yield {'p': 'C15', 'op': 'pcomp', 'no': no, 'nv': nv, 'x': _bits(x), 'standardize': g['standardize'],
                      'covariance': g['covariance']}
    if 'driver_error' in r:
        raise core.DriverError(str(r))
    mc = _unbits(r['coefficients']).reshape(nv, nv)
    md = _unbits(r['derived']).reshape(no, nv)
    sg = _align(impl['coefficients'], mc, 0)
    for k, a, b in (('coefficients', impl['coefficients'], mc * sg), ('derived', impl['derived'], md * sg),
                    ('variance', impl['variance'], _unbits(r['variance'])), ('eigenvalues', impl['eigenvalues'], _unbits(r['eigenvalues']))):
        if not _near(a, b, TOL_ITER):
            ctx.disagree('pcomp:' + k, c, _lst(a), _lst(b))
    # --- oracle (numpy only): the matrix that is decomposed, from the statement
    data = (x - x.mean(0)) / x.std(0) if g['standardize'] else x
    C = np.atleast_2d(np.cov(data, rowvar=0) if g['covariance'] else np.corrcoef(data, rowvar=0))
    ev, cf = impl['eigenvalues'], impl['coefficients']
    if np.any(np.diff(ev) > 0):
        ctx.violate('pcomp:order', 'eigenvalues are not in descending order: %s' % _lst(ev), full)
    if not _near(ev, np.sort(np.linalg.eigvalsh(C))[::-1], TOL):
        ctx.violate('pcomp:eigenvalues', 'eigenvalues differ from eigvalsh of the %s matrix' % ('covariance' if g['covariance'] else 'correlation'), full)
    if not _near(cf @ cf.T, C, TOL):
        ctx.violate('pcomp:reconstruct:' + mode, 'coefficients . coefficients^T does not reproduce the matrix', full)
    if abs(float(np.sum(impl['variance'])) - 1.0) > TOL:
        ctx.violate('pcomp:variance-sum', 'variance fractions sum to %r' % float(np.sum(impl['variance'])), full)
    if not _near(impl['variance'], ev / np.trace(C), TOL):
        ctx.violate('pcomp:variance', 'variance fractions are not eigenvalue / trace', full)
    if g['covariance']:
        # derived variables are uncorrelated: their covariance is diag(eigenvalue^2) (components are scaled by sqrt(eigenvalue))
        ctx.count('pcomp:uncorrelated-checks')
        if not _near(np.atleast_2d(np.cov(impl['derived'], rowvar=0)), np.diag(ev ** 2), TOL):
            ctx.violate('pcomp:derived-correlated:' + mode, 'covariance of the derived variables is not diag(eigenvalues^2)', full)
    if not _near(impl['derived'], data @ cf, TOL):
        ctx.violate('pcomp:derived:' + mode, 'derived variables are not (%sdata) . coefficients: max deviation %.3g'
                    % ('standardized ' if g['standardize'] else '', float(np.max(np.abs(impl['derived'] - data @ cf)))), full)


def _pcomp(ctx, cases=None):
    if cases is None:
        cases = []
        for i in range(ctx.n(120, 4000)):
            nv = ctx.rng.choice([2, 3, 4, 4, 5, 6])
            cases.append({'stream': 'pcomp', 'gen': {'nseed': ctx.rng.getrandbits(32), 'nv': nv, 'no': ctx.rng.randrange(nv + 3, 41),
                                                    'noise': ctx.rng.choice([0.3, 1.0]), 'standardize': i % 2 == 1, 'covariance': (i // 2) % 2 == 1}})
    _run_stream(ctx, _pcomp_case, cases)


# ---------------------------------------------------------------- HMF
def _gen_spectra(g):
    """low-rank + noise spectral matrix with masked pixels"""
    rs = np.random.RandomState(g['nseed'])
    N, M, K = g['N'], g['M'], g['K']
    nn = g['nonneg']
    for att in range(600):
        xs = np.linspace(0, 1, M)
        pmask = g['pmask'] if att < 200 else 0.0
        climit = 1e5 if att < 400 else 1e7
        gt = np.array([1.0 + 0.8 * np.sin((k + 1) * 3.0 * xs + rs.uniform(0, 6)) + 0.3 * rs.standard_normal(M) for k in range(K)])
        at = rs.uniform(0.3, 2.0, size=(N, K)) * (1 if nn else rs.choice([-1, 1], size=(N, K)))
        if nn:
            gt = np.abs(gt) + 0.05
        s = at @ gt + g['noise'] * rs.standard_normal((N, M))
        if nn:
            s = np.abs(s) + 0.01
        w = rs.uniform(0.5, 4.0, size=(N, M)) / g['noise'] ** 2 * 0.01
        mask = rs.uniform(size=(N, M)) < pmask
        w[mask] = 0.0
        good = w > 0
        if good.sum(0).min() < K + 2 or good.sum(1).min() < K + 2:
            continue
        if (np.abs(s).sum(0) == 0).any() or ((s * w).sum(0) == 0).any():
            continue
        # a state (a, g) near the truth, perturbed
        a = at * (1 + 0.3 * rs.standard_normal((N, K)))
        gg = gt * (1 + 0.3 * rs.standard_normal((K, M)))
        if nn:
            a, gg = np.abs(a) + 0.01, np.abs(gg) + 0.01
        ok = True
        for i in range(N):
            if np.linalg.cond((gg * w[i]) @ gg.T) > climit:
                ok = False
        for j in range(M):
            if np.linalg.cond((a.T * w[:, j]) @ a) > climit:
                ok = False
        if ok:
            # spectra in physical units: fluxes F times larger carry inverse variances F^2 times smaller (F a power of two:
            # every operation of the algorithm scales exactly, the optimum is the same problem)
            F = float(g.get('fscale', 1.0))
            return s * F, w / (F * F), a * F, gg
    raise RuntimeError('generator: no well-conditioned HMF state')


def _bad(s, w, a, g, eps):
    """badness from the statement: sum w (s - a g)^2 + eps sum (g[:, j+1] - g[:, j])^2"""
    r = s - a @ g
    v = float(np.sum(w * r * r))
    if eps is not None:
        v += eps * float(np.sum((g[:, 1:] - g[:, :-1]) ** 2))
    return v


def _fd_grad(f, x, h):
    """central differences of a quadratic function: exact up to rounding"""
    gr = np.zeros_like(x)
    it = np.nditer(x, flags=['multi_index'])
    for _ in it:
        ix = it.multi_index
        xp = x.copy()
        xm = x.copy()
        xp[ix] += h
        xm[ix] -= h
        gr[ix] = (f(xp) - f(xm)) / (2 * h)
    return gr


def _mk_hmf(s, w, K, eps, nonneg=False, **kw):
    from pydl.pydlspec2d.spec1d import HMF
    return HMF(s, w, K=K, epsilon=eps, nonnegative=nonneg, **kw)


def _hmf_step_case(ctx, c):
    g_ = c['gen']
    s, w, a, g = _gen_spectra(g_)
    N, M = s.shape
    K = g_['K']
    eps = g_['eps']
    nn = g_['nonneg']
    ctx.seen(c)
    ctx.count('hmf_step:K=%d:eps=%s:%s' % (K, 'None' if eps is None else ('0' if eps == 0 else '>0'), 'nn' if nn else 'signed'))
    full = dict(c, input={'spectra': _lst(s), 'invvar': _lst(w), 'a': _lst(a), 'g': _lst(g)})
    before = _snap(s, w, a, g)
    h = _mk_hmf(s, w, K, eps, nn)
    h.a, h.g = a, g
    impl = {}
    try:
        impl['astep'] = h.astep()
        impl['gstep'] = h.gstep()
        impl['astepnn'] = h.astepnn()
        impl['gstepnn'] = h.gstepnn()
        impl['normbase'] = h.normbase()
        impl['reorder_a'], impl['reorder_g'] = h.reorder()
        impl['badness'] = np.array([h.badness()])
    except Exception as e:
        ctx.violate('hmf_step:exception:' + core.exc_kind(e), 'HMF step raised %r' % e, full)
        return
    if _snap(s, w, a, g) != before:
        ctx.violate('hmf_step:input-modified', 'an HMF step method modified spectra / invvar / a / g', full)
    line = {'p': 'C15', 'op': 'hmf_step', 'N': N, 'M': M, 'K': K, 's': _bits(s), 'w': _bits(w), 'a': _bits(a), 'g': _bits(g),
            'eps': None if eps is None else core.f2b(eps)}
    r = yield line
    if 'driver_error' in r:
        raise core.DriverError(str(r))
    shapes = {'astep': (N, K), 'gstep': (K, M), 'astepnn': (N, K), 'gstepnn': (K, M), 'normbase': (K,), 'reorder_a': (N, K),
              'reorder_g': (K, M), 'badness': (1,)}
    mdl = {k: _unbits(r[k]).reshape(shapes[k]) for k in shapes}
    sg = _align(impl['reorder_g'], mdl['reorder_g'], 1)
    mdl['reorder_g'] = mdl['reorder_g'] * sg[:, None]
    mdl['reorder_a'] = mdl['reorder_a'] * sg[None, :]
    for k in shapes:
        if not _near(impl[k], mdl[k], TOL if k != 'badness' else 1e-9):
            ctx.disagree('hmf_step:' + k, c, _lst(impl[k]), _lst(mdl[k]))
    # ---------------- oracle
    b0 = _bad(s, w, a, g, eps)
    if abs(float(impl['badness'][0]) - b0) > 1e-9 * max(1.0, b0):
        ctx.violate('hmf:badness', 'badness() %r differs from sum w (s - a g)^2 + penalty = %r' % (float(impl['badness'][0]), b0), full)
    # a-step: every row is the WLS optimum given g
    an = impl['astep']
    for i in range(N):
        sw = np.sqrt(w[i])
        xi = np.linalg.lstsq(g.T * sw[:, None], s[i] * sw, rcond=None)[0]
        if not _near(an[i], xi, TOL):
            ctx.violate('hmf:astep-not-optimum', 'row %d of astep() differs from the weighted least-squares optimum given g' % i, full)
            break
    ba = _bad(s, w, an, g, eps)
    if ba > b0 * (1 + 1e-10) + 1e-12:
        ctx.violate('hmf:astep-increases', 'badness increased in astep: %r -> %r' % (b0, ba), full)
    gr = _fd_grad(lambda x: _bad(s, w, x, g, eps), an, 1e-2 * _scale(an))
    gref = np.abs(_fd_grad(lambda x: _bad(s, w, x, g, eps), a, 1e-2 * _scale(a))).max()
    ctx.count('hmf:fd-gradient-checks', 2)
    if np.abs(gr).max() > 1e-6 * max(gref, 1e-30):
        ctx.violate('hmf:astep-gradient', 'gradient of badness wrt a after astep is %.3g (before: %.3g)' % (np.abs(gr).max(), gref), full)
    # g-step from the same state (a, g)
    gn = impl['gstep']
    on = eps is not None and eps > 0
    for j in range(M):
        Aj = (a.T * w[:, j]) @ a
        Fj = a.T @ (s[:, j] * w[:, j])
        if on:
            Aj = Aj + (2 * eps if 0 < j < M - 1 else eps) * np.eye(K)
            Fj = Fj + eps * ((g[:, j - 1] if j > 0 else 0) + (g[:, j + 1] if j < M - 1 else 0))
        xj = np.linalg.solve(Aj, Fj)
        if not _near(gn[:, j], xj, TOL):
            ctx.violate('hmf:gstep-not-optimum', 'column %d of gstep() is not the (regularised) per-pixel optimum given a%s'
                        % (j, ' and the old neighbours' if on else ''), full)
            break
    bg = _bad(s, w, a, gn, eps)
    if bg > b0 * (1 + 1e-10) + 1e-12:
        sig = 'hmf:gstep-increases' + (':eps>0' if on else '')
        ctx.violate(sig, 'badness increased in gstep (eps=%r): %r -> %r' % (eps, b0, bg), full)
    if not on:
        gr = _fd_grad(lambda x: _bad(s, w, a, x, eps), gn, 1e-2 * _scale(gn))
        gref = np.abs(_fd_grad(lambda x: _bad(s, w, a, x, eps), g, 1e-2 * _scale(g))).max()
        if np.abs(gr).max() > 1e-6 * max(gref, 1e-30):
            ctx.violate('hmf:gstep-gradient', 'gradient of badness wrt g after gstep is %.3g (before: %.3g)' % (np.abs(gr).max(), gref), full)
    else:
        ctx.count('hmf:gstep-eps>0:badness-' + ('decreased' if bg <= b0 else 'increased'))
        # theorem gstep_eps_badness_le as an oracle on the real step: the decrease is EXACTLY
        # sum_j sum_i w_ij (sum_k a_ik d_kj)^2 + eps * sum_k sum_j (d_kj + d_k,j+1)^2 with d = gstep - g
        if M >= 2:
            d = gn - g
            dec = float(np.sum(w * (a @ d) ** 2)) + eps * float(np.sum((d[:, :-1] + d[:, 1:]) ** 2))
            ctx.count('hmf:gstep-eps>0:decrease-identity-checks')
            if abs((b0 - bg) - dec) > 1e-7 * max(1.0, b0, dec):
                ctx.violate('hmf:gstep-eps>0:decrease-identity', 'badness(g) - badness(gstep) = %r, the identity of the smoothed per-pixel optimum gives %r (eps=%r)'
                            % (b0 - bg, dec, eps), full)
    # one whole sweep of iterate in the default mode without smoothing (astep; gstep; reorder; renormalise):
    # badness does not increase, the rotation and the normalisation do not change it
    if not nn and not on:
        h2 = _mk_hmf(s, w, K, eps, nn)
        h2.a, h2.g = a.copy(), g.copy()
        h2.a = h2.astep()
        h2.g = h2.gstep()
        b_ag = _bad(s, w, h2.a, h2.g, eps)
        h2.a, h2.g = h2.reorder()
        nb2 = h2.normbase()
        a2, g2 = h2.a * nb2[None, :], h2.g / nb2[:, None]
        bs = _bad(s, w, a2, g2, eps)
        ctx.count('hmf:whole-sweep-checks')
        if bs > b0 * (1 + 1e-10) + 1e-12:
            ctx.violate('hmf:sweep-increases', 'badness increased over one sweep astep; gstep; reorder; renormalise: %r -> %r' % (b0, bs), full)
        if abs(bs - b_ag) > 1e-8 * max(1.0, b_ag):
            ctx.violate('hmf:sweep-rotation-changes-badness', 'reorder + renormalise changed badness: %r -> %r' % (b_ag, bs), full)
    # normalisation, rotation
    nb = impl['normbase']
    g1 = g / nb[:, None]
    if not _near(np.sqrt((g1 ** 2).mean(1)), np.ones(K), 1e-12):
        ctx.violate('hmf:normbase', 'g / normbase() does not have unit rms', full)
    if not _near(impl['reorder_a'] @ impl['reorder_g'], a @ g, TOL):
        ctx.violate('hmf:reorder', 'reorder() changed the model a.g', full)
    # non-negative updates stay non-negative
    if nn:
        for k in ('astepnn', 'gstepnn'):
            if not (np.all(impl[k] >= 0) and np.all(np.isfinite(impl[k]))):
                ctx.violate('hmf:' + k + '-negative', '%s produced a negative / non-finite entry from non-negative inputs' % k, full)
        bnn = _bad(s, w, impl['astepnn'], g, eps)
        ctx.count('hmf:astepnn:badness-' + ('decreased' if bnn <= b0 * (1 + 1e-12) else 'increased'))
        # judged since extension 2 (theorems astepnn_badness_le / gstepnn_badness_le / sweepNN_badness_le cover the code's formulas):
        # inside the hypotheses - weights >= 0, state (a, g) >= 0, denominators non-zero - one multiplicative update does not
        # increase badness; the a-update for every epsilon (the penalty does not depend on a), the g-update for epsilon None/0
        den_a = ((a @ g) * w) @ g.T
        den_g = a.T @ ((a @ g) * w)
        inside = bool(np.all(w >= 0) and np.all(a >= 0) and np.all(g >= 0) and np.all(den_a > 0) and np.all(den_g > 0))
        ctx.count('hmf:nn-monotone:' + ('judged' if inside else 'outside-hypotheses'))
        if inside:
            if bnn > b0 * (1 + 1e-10) + 1e-12:
                ctx.violate('hmf:astepnn-increases', 'badness increased in astepnn from a non-negative state: %r -> %r' % (b0, bnn), full)
            bgn = _bad(s, w, a, impl['gstepnn'], eps)
            if not on:
                ctx.count('hmf:gstepnn:badness-' + ('decreased' if bgn <= b0 * (1 + 1e-12) else 'increased'))
                if bgn > b0 * (1 + 1e-10) + 1e-12:
                    ctx.violate('hmf:gstepnn-increases', 'badness increased in gstepnn (eps=%r) from a non-negative state: %r -> %r' % (eps, b0, bgn), full)
                # whole non-negative sweep astepnn; gstepnn; renormalise
                h3 = _mk_hmf(s.copy(), w.copy(), K, eps, nn)
                h3.a, h3.g = a.copy(), g.copy()
                h3.a = h3.astepnn()
                h3.g = h3.gstepnn()
                nb3 = h3.normbase()
                bs3 = _bad(s, w, h3.a * nb3[None, :], h3.g / nb3[:, None], eps)
                ctx.count('hmf:whole-nn-sweep-checks')
                if bs3 > b0 * (1 + 1e-10) + 1e-12:
                    ctx.violate('hmf:nn-sweep-increases', 'badness increased over one sweep astepnn; gstepnn; renormalise: %r -> %r' % (b0, bs3), full)
            else:
                # epsilon > 0: theorem gstepnn_eps_badness_le (M >= 2) - judged as well
                ctx.count('hmf:gstepnn-eps>0:badness-' + ('decreased' if bgn <= b0 else 'increased'))
                if M >= 2 and bgn > b0 * (1 + 1e-10) + 1e-12:
                    ctx.violate('hmf:gstepnn-increases:eps>0', 'badness increased in gstepnn (eps=%r) from a non-negative state: %r -> %r' % (eps, b0, bgn), full)


def _hmf_step(ctx, cases=None):
    if cases is None:
        cases = []
        for i in range(ctx.n(100, 3000)):
            K = ctx.rng.choice([1, 2, 3, 4])
            nn = i % 3 == 2
            cases.append({'stream': 'hmf_step', 'gen': {
                'nseed': ctx.rng.getrandbits(32), 'K': K, 'N': ctx.rng.randrange(3 * K + 2, 24), 'M': ctx.rng.randrange(3 * K + 3, 28),
                'noise': ctx.rng.choice([0.02, 0.1]), 'pmask': ctx.rng.choice([0.0, 0.1, 0.2]), 'nonneg': nn,
                'eps': ctx.rng.choice([None, None, 0.0, 0.5, 5.0, 50.0])}})
            if cases[-1]['gen']['eps'] in (None, 0.0) and ctx.rng.random() < 0.4:
                cases[-1]['gen']['fscale'] = 2.0 ** ctx.rng.choice([-20, 10, 20, 30])
    _run_stream(ctx, _hmf_step_case, cases)


def _solve_once(s, w, K, eps, nn, n_iter, seed, disturb=0):
    """HMF(...).solve() with the k-means start recorded; arrays are passed as they are"""
    import scipy.cluster.vq as vq
    rec = {}
    orig = vq.kmeans

    def spy(*a, **k):
        out = orig(*a, **k)
        rec['g0'] = np.array(out[0], dtype=float, copy=True)
        return out
    h = _mk_hmf(s, w, K, eps, nn, n_iter=n_iter, seed=seed)
    if disturb:
        # other code draws from the global generator between construction and solve(): "a fixed seed gives identical results"
        np.random.random(disturb)
    with mock.patch.object(vq, 'kmeans', spy):
        out = h.solve()
    return h, out, rec.get('g0')


def _longest_block(good):
    """statement of find_contiguous: first longest run of consecutive True (start, length); None when there is none"""
    best = None
    j = 0
    n = len(good)
    while j < n:
        if good[j]:
            k = j
            while k < n and good[k]:
                k += 1
            if best is None or k - j > best[1]:
                best = (j, k - j)
            j = k
        else:
            j += 1
    return best


def _inject_zero_columns(s, w, g_):
    """all-zero columns as HMF.iterate has to remove them: in spectra, in invvar, or a column whose spectra*invvar vanishes
    (spectra non-zero only where invvar is zero); at an edge, in the middle, several, or splitting the range in equal halves"""
    kind = g_.get('zcols', 'none')
    if kind == 'none':
        return s, w, []
    rs = np.random.RandomState(g_['nseed'] ^ 0x5bd1e995)
    N, M = s.shape
    if kind == 'edge':
        cols = list(range(rs.randint(1, 3))) if rs.uniform() < 0.5 else list(range(M - rs.randint(1, 3), M))
    elif kind == 'both-edges':
        cols = [0, M - 1]
    elif kind == 'mid':
        cols = [int(rs.randint(2, M - 2))]
    elif kind == 'halves':
        cols = [M // 2] if M % 2 == 1 else [M // 2 - 1, M // 2]        # two runs of equal length: the first one is kept
    else:   # 'multi'
        cols = sorted(set(int(x) for x in rs.randint(0, M, size=3)))
    s, w = s.copy(), w.copy()
    for j in cols:
        how = rs.randint(0, 3)
        if how == 0:
            s[:, j] = 0.0
        elif how == 1:
            w[:, j] = 0.0
        else:
            keep = rs.uniform(size=N) < 0.5
            keep[0], keep[1] = True, False
            w[keep, j] = 0.0
            s[~keep, j] = 0.0
    return s, w, cols


def _hmf_solve_case(ctx, c):
    g_ = c['gen']
    s, w, _, _ = _gen_spectra(g_)
    s, w, zc = _inject_zero_columns(s, w, g_)
    Nfull, Mfull = s.shape
    K, eps, nn, n_iter, seed = g_['K'], g_['eps'], g_['nonneg'], g_['n_iter'], g_['seed']
    sfull, wfull = s, w
    zerocol = (s.sum(0) == 0) | (w.sum(0) == 0) | ((s * w).sum(0) == 0)
    blk = _longest_block(~zerocol)
    goodpix = (wfull > 0)[:, blk[0]:blk[0] + blk[1]] if blk is not None else None
    if blk is None or blk[1] < 3 * K + 3 or goodpix.sum(0).min() < K + 2 or goodpix.sum(1).min() < K + 2:
        # the block that is left must meet the same conditions as an input without zero columns (enough good pixels per
        # spectrum and per column for non-singular a-/g-step systems)
        ctx.count('hmf_solve:generator-gave-up')
        return
    # the block the statement is about
    s, w = np.ascontiguousarray(sfull[:, blk[0]:blk[0] + blk[1]]), np.ascontiguousarray(wfull[:, blk[0]:blk[0] + blk[1]])
    N, M = s.shape
    ctx.seen(c)
    mode = 'nn' if nn else 'default'
    ctx.count('hmf_solve:zero-columns=%s' % g_.get('zcols', 'none'))
    full = dict(c, input={'spectra': _lst(sfull), 'invvar': _lst(wfull)})
    s1, w1 = sfull.copy(), wfull.copy()
    before = _snap(s1, w1)
    try:
        h, out, g0 = _solve_once(s1, w1, K, eps, nn, n_iter, seed)
    except Exception as e:
        ctx.count('hmf_solve:%s:err' % mode)
        ctx.violate('hmf_solve:exception:' + core.exc_kind(e) + (':zero-columns' if zc else ''),
                    'HMF.solve raised %r (zero columns %s of %d; longest block of good columns starts at %d, length %d)' % (e, zc, Mfull, blk[0], blk[1]), full)
        if zc:
            # the column selection alone is still compared with the model
            r = yield {'p': 'C15', 'op': 'hmf_zerocols', 'N': Nfull, 'M': Mfull, 's': _bits(sfull), 'w': _bits(wfull), 'nonneg': nn}
            if (r.get('col0'), r.get('ncol'), r.get('nzero')) != (blk[0], blk[1], int(zerocol.sum())):
                ctx.disagree('hmf_solve:columns', c, [blk[0], blk[1], int(zerocol.sum())], [r.get('col0'), r.get('ncol'), r.get('nzero')])
        return
    if g0 is None or g0.shape[0] != K:
        # scipy's kmeans drops empty clusters: outside the contract "K centroids"
        ctx.count('hmf_solve:%s:kmeans-returned-fewer-centroids' % mode)
        return
    if np.asarray(out['flux']).shape != (K, M) or np.asarray(out['acoeff']).shape != (N, K) or g0.shape != (K, M):
        ctx.violate('hmf_solve:shape', 'solve returned flux %s / acoeff %s; the longest block of good columns has %d columns (zero columns %s)'
                    % (np.asarray(out['flux']).shape, np.asarray(out['acoeff']).shape, M, zc), full)
        return
    ctx.count('hmf_solve:%s:ok' % mode)
    a, g = np.array(out['acoeff']), np.array(out['flux'])
    # caller's arrays untouched (default mode; in non-negative mode with non-negative data nothing may change either)
    if _snap(s1, w1) != before:
        ctx.violate('hmf_solve:caller-arrays-modified:' + mode, 'HMF.solve modified the spectra / invvar arrays of the caller', full)
    # same seed -> identical results
    h2, out2, g02 = _solve_once(sfull.copy(), wfull.copy(), K, eps, nn, n_iter, seed, disturb=1 + g_['nseed'] % 5)
    if not (np.array_equal(out2['acoeff'], out['acoeff']) and np.array_equal(out2['flux'], out['flux'])):
        ctx.violate('hmf_solve:seed-not-reproducible', 'two runs with seed=%d differ (max |d flux| = %.3g)'
                    % (seed, float(np.max(np.abs(np.array(out2['flux']) - g)))), full)
    # model from the recorded k-means start
    r = yield {'p': 'C15', 'op': 'hmf_cols', 'N': Nfull, 'M': Mfull, 'K': K, 'n_iter': n_iter, 's': _bits(sfull), 'w': _bits(wfull),
                      'g0': _bits(g0), 'nonneg': nn, 'eps': None if eps is None else core.f2b(eps)}
    if 'driver_error' in r:
        raise core.DriverError(str(r))
    if 'err' in r:
        ctx.disagree('hmf_solve:model-refuses', c, 'ok', r['err'])
        return
    if (r['col0'], r['ncol'], r['nzero']) != (blk[0], blk[1], int(zerocol.sum())) or g.shape != (K, r['ncol']):
        ctx.disagree('hmf_solve:columns', c, [list(g.shape), blk[0], blk[1], int(zerocol.sum())], [r['col0'], r['ncol'], r['nzero']])
        return
    ma, mg = _unbits(r['a']).reshape(N, K), _unbits(r['g']).reshape(K, M)
    if not nn:
        sg = _align(g, mg, 1)
        ma, mg = ma * sg[None, :], mg * sg[:, None]
    if not (_near(a, ma, TOL_ITER) and _near(g, mg, TOL_ITER)):
        ctx.disagree('hmf_solve:' + mode, c, {'a': _lst(a)[:2], 'g': _lst(g)[:1]}, {'a': _lst(ma)[:2], 'g': _lst(mg)[:1]})
    # oracle on the result
    if not _near(np.sqrt((g ** 2).mean(1)), np.ones(K), 1e-10):
        ctx.violate('hmf_solve:not-unit-rms', 'returned components do not have unit rms: %s' % _lst(np.sqrt((g ** 2).mean(1))), full)
    if nn and not (np.all(a >= 0) and np.all(g >= 0)):
        ctx.violate('hmf_solve:nn-negative', 'non-negative mode returned a negative entry', full)
    # six further half-steps from the returned state: badness never increases (default mode)
    if not nn:
        hh = _mk_hmf(s, w, K, eps, nn)
        hh.a, hh.g = a.copy(), g.copy()
        b = _bad(s, w, hh.a, hh.g, eps)
        for t in range(6):
            if t % 2 == 0:
                hh.a = hh.astep()
            else:
                hh.g = hh.gstep()
            b2 = _bad(s, w, hh.a, hh.g, eps)
            if abs(hh.badness() - b2) > 1e-9 * max(1.0, b2):
                ctx.violate('hmf:badness', 'badness() %r differs from its definition %r' % (hh.badness(), b2), full)
            if b2 > b * (1 + 1e-9) + 1e-12:
                ctx.violate('hmf_solve:half-step-increases' + (':eps>0' if eps else ''),
                            'badness increased in half-step %d after solve (eps=%r): %r -> %r' % (t, eps, b, b2), full)
            b = b2


def _hmf_solve(ctx, cases=None):
    if cases is None:
        cases = []
        for i in range(ctx.n(40, 1000)):
            K = ctx.rng.choice([1, 2, 3, 4])
            nn = i % 2 == 1
            zcols = ctx.rng.choice(['none', 'none', 'edge', 'both-edges', 'mid', 'halves', 'multi'])
            wide = zcols in ('mid', 'halves', 'multi')
            cases.append({'stream': 'hmf_solve', 'gen': {
                'nseed': ctx.rng.getrandbits(32), 'K': K, 'N': ctx.rng.randrange(4 * K + 4, 28),
                'M': ctx.rng.randrange(6 * K + 10, 44) if wide else ctx.rng.randrange(3 * K + 5, 26),
                'noise': ctx.rng.choice([0.02, 0.1]), 'pmask': ctx.rng.choice([0.0, 0.1, 0.2]), 'nonneg': nn,
                'eps': ctx.rng.choice([None, None, 0.0, 1.0, 50.0]), 'n_iter': ctx.rng.choice([1, 2, 3, 5]),
                'zcols': zcols,
                'seed': ctx.rng.choice([0, 0, 1, ctx.rng.randrange(0, 10000), ctx.rng.randrange(0, 10000)])}})
            if cases[-1]['gen']['eps'] in (None, 0.0) and ctx.rng.random() < 0.3:
                cases[-1]['gen']['fscale'] = 2.0 ** ctx.rng.choice([10, 20, 30])
    _run_stream(ctx, _hmf_solve_case, cases)


# ---------------------------------------------------------------- pca_solve
def _gen_pca(g):
    rs = np.random.RandomState(g['nseed'])
    nobj, npix, nk = g['nobj'], g['npix'], g['nkeep']
    xs = np.linspace(0, 1, npix)
    for att in range(600):
        pm = g['pmask'] if att < 300 else 0.0
        comp = np.array([np.sin((k + 1) * 2.5 * xs + rs.uniform(0, 6)) + 0.5 * rs.standard_normal(npix) for k in range(nk)])
        amp = rs.standard_normal((nobj, nk)) * (3.0 ** -np.arange(nk))
        flux = 2.0 * (amp @ comp) + g['noise'] * rs.standard_normal((nobj, npix)) + rs.uniform(-1, 1, size=(nobj, 1))
        ivar = rs.uniform(0.5, 2.0, size=(nobj, npix)) / g['noise'] ** 2
        ivar[rs.uniform(size=(nobj, npix)) < pm] = 0.0
        if g['deadpix'] and npix > 8:
            ivar[:, rs.randint(0, npix)] = 0.0
        if (ivar != 0).sum(1).min() < nk + 3:
            continue
        ev = np.sort(np.linalg.eigvalsh(np.corrcoef(flux)))[::-1]
        gaps = -np.diff(ev[:nk + 1]) / ev[0]
        if gaps.min() > 0.02:
            # objects WITHOUT signal (goodobj False): a constant spectrum (bad in the first pass only: the refill makes it
            # vary) or an all-zero spectrum (stays bad); an object without any good pixel (the code rejects it: ValueError)
            bad = g.get('badobj', 'none')
            if bad != 'none':
                idx = g['badidx'] % nobj
                if bad == 'const':
                    flux[idx, :] = float(rs.choice([1.0, -2.5, 0.75]))
                elif bad == 'zero':
                    flux[idx, :] = 0.0
                elif bad == 'two':
                    flux[idx, :] = 0.0
                    flux[(idx + 2) % nobj, :] = 1.5
                elif bad == 'nogood':
                    ivar[idx, :] = 0.0
            return flux, ivar
    raise RuntimeError('generator: no spectra with separated leading eigenvalues')


def _pca_case(ctx, c):
    from pydl.pydlspec2d.spec1d import pca_solve
    g = c['gen']
    flux, ivar = _gen_pca(g)
    nobj, npix = flux.shape
    nk, niter = g['nkeep'], g['niter']
    maxiter = g.get('maxiter', 0)
    bad = g.get('badobj', 'none')
    ctx.seen(c)
    full = dict(c, input={'newflux': _lst(flux), 'newivar': _lst(ivar)})
    before = _snap(flux, ivar)
    line = {'p': 'C15', 'op': 'pca_max', 'nobj': nobj, 'npix': npix, 'niter': niter, 'nkeep': nk, 'maxiter': maxiter,
            'flux': _bits(flux), 'ivar': _bits(ivar)}
    try:
        out = pca_solve(flux, ivar, maxiter=maxiter, niter=niter, nkeep=nk)
    except Exception as e:
        kind = core.exc_kind(e)
        ctx.count('pca:err:%s:badobj=%s' % (kind, bad))
        if bad == 'nogood' and kind == 'ValueError':
            # an object without a single good pixel is rejected by the code; the model must reject it too
            r = yield line
            if r.get('err') != 'ValueError':
                ctx.disagree('pca:rejects-object-without-good-pixel', c, 'ValueError', r.get('err', 'ok'))
            return
        ctx.violate('pca:exception:' + kind + (':badobj=' + bad if bad != 'none' else ''),
                    'pca_solve raised %r (objects without signal: %s, maxiter %d)' % (e, bad, maxiter), full)
        return
    ctx.count('pca:nkeep=%d:niter=%d' % (nk, niter))
    ctx.count('pca:maxiter=%d' % maxiter)
    ctx.count('pca:badobj=%s' % bad)
    if bad == 'nogood':
        ctx.violate('pca:accepts-object-without-good-pixel', 'pca_solve returned a result for an object whose inverse variance is zero everywhere', full)
        return
    if _snap(flux, ivar) != before:
        ctx.violate('pca:input-modified', 'pca_solve modified newflux / newivar', full)
    r = yield line
    if 'driver_error' in r:
        raise core.DriverError(str(r))
    eflux = np.array(out['flux'], dtype=float)          # nkeep x npix, float32 values
    if 'err' in r or 'single' in r:
        ctx.disagree('pca:model-refuses', c, 'ok', r.get('err', 'single'))
    else:
        ctx.count('pca:model:outer-passes=%d' % r['passes'])
        ctx.count('pca:model:last-pass-objects-without-signal=%d' % (nobj - r['ngood']))
        mev = _unbits(r['eigenval'])
        # eigenvectors of (nearly) coincident eigenvalues are not determined: such a case is compared through the oracle only
        lead = mev[:nk + 1] if mev.size > nk else mev
        degenerate = lead.size > 1 and float(np.min(-np.diff(lead))) < 1e-3 * float(abs(lead[0]))
        mp = _unbits(r['pres']).reshape(npix, nobj)[:, :nk].T
        mac = _unbits(r['acoeff']).reshape(nobj, nk)
        sg = _align(eflux, mp, 1)
        mp, mac = mp * sg[:, None], mac * sg[None, :]
        if list(np.asarray(out['usemask']).tolist()) != r['usemask']:
            ctx.disagree('pca:usemask', c, _lst(out['usemask']), r['usemask'])
        if np.asarray(out['outmask']).tolist() != r['outmask']:
            ctx.disagree('pca:outmask', c, 'impl', 'model')
        if degenerate:
            ctx.count('pca:near-degenerate-eigenvalues:oracle-only')
        else:
            if not _near(eflux, mp.astype('f').astype(float), 1e-5):
                ctx.disagree('pca:flux', c, _lst(eflux[0][:6]), _lst(mp[0][:6]))
            if not _near(out['acoeff'], mac, 1e-5):
                ctx.disagree('pca:acoeff', c, _lst(out['acoeff'][:3]), _lst(mac[:3]))
        if not _near(out['eigenval'], mev[:nk], 1e-5):
            ctx.disagree('pca:eigenval', c, _lst(out['eigenval']), _lst(mev[:nk]))
    # ---------------- oracle
    if not np.array_equal(np.asarray(out['usemask']), (ivar != 0).sum(0)):
        ctx.violate('pca:usemask', 'usemask is not the number of good spectra per pixel', full)
    if np.any(np.diff(np.asarray(out['eigenval'])) > 0):
        ctx.violate('pca:eigenval-order', 'eigenvalues increase: %s' % _lst(out['eigenval']), full)
    ac = np.asarray(out['acoeff'])
    if ac.shape != (nobj, nk) or eflux.shape != (nk, npix):
        ctx.violate('pca:shape', 'unexpected shapes %s %s' % (ac.shape, eflux.shape), full)
        return
    if not (np.all(np.isfinite(ac)) and np.all(np.isfinite(eflux))):
        ctx.violate('pca:non-finite', 'acoeff / eigenspectra contain non-finite values (objects without signal: %s)' % bad, full)
        return
    # the weights of the LAST outer iteration: newivar * outmask (with no rejection limits outmask = (newivar != 0))
    wlast = ivar * np.asarray(out['outmask'])
    if not np.array_equal(np.asarray(out['outmask']), ivar != 0):
        ctx.violate('pca:outmask', 'outmask differs from (newivar != 0) although no rejection limit is set (maxiter %d)' % maxiter, full)
    for i in range(nobj):
        sw = np.sqrt(wlast[i])
        proj = np.linalg.lstsq(eflux.T * sw[:, None], flux[i] * sw, rcond=None)[0]
        if not _near(ac[i], proj, TOL_F32):
            ctx.violate('pca:acoeff-not-projection', 'acoeff[%d] = %s is not the inverse-variance weighted projection %s on the returned eigenspectra'
                        % (i, _lst(ac[i]), _lst(proj)), full)
            break


def _pca(ctx, cases=None):
    if cases is None:
        cases = []
        for i in range(ctx.n(50, 1500)):
            nk = ctx.rng.choice([1, 2, 2, 3])
            cases.append({'stream': 'pca', 'gen': {
                'nseed': ctx.rng.getrandbits(32), 'nkeep': nk, 'nobj': ctx.rng.randrange(nk + 4, 12), 'npix': ctx.rng.randrange(20, 50),
                'noise': ctx.rng.choice([0.02, 0.05]), 'pmask': ctx.rng.choice([0.0, 0.05, 0.15]), 'deadpix': ctx.rng.random() < 0.3,
                'niter': ctx.rng.choice([1, 2, 3, 4]), 'maxiter': ctx.rng.choice([0, 0, 1, 2, 3]),
                'badobj': ctx.rng.choice(['none', 'none', 'none', 'const', 'const', 'zero', 'two', 'nogood']),
                'badidx': ctx.rng.randrange(0, 12)}})
    _run_stream(ctx, _pca_case, cases)


def _pca_many(ctx, cases=None):
    """oracle only: samples of several hundred spectra (the per-pixel count of good spectra exceeds every 8-bit counter;
    seeded change C15-19).  Too large for the model's dense eigen-solver; usemask / outmask / shapes are judged directly."""
    from pydl.pydlspec2d.spec1d import pca_solve
    if cases is None:
        cases = [{'stream': 'pca_many', 'nobj': n, 'npix': 14, 'nseed': ctx.rng.getrandbits(32)} for n in ctx.n([300, 517], [256, 300, 517, 1030])]
    for c in cases:
        rs = np.random.RandomState(c['nseed'])
        nobj, npix = c['nobj'], c['npix']
        xs = np.linspace(0, 1, npix)
        flux = np.outer(rs.standard_normal(nobj), np.sin(3 * xs)) + np.outer(0.3 * rs.standard_normal(nobj), np.cos(5 * xs)) \
            + 0.02 * rs.standard_normal((nobj, npix)) + rs.uniform(-1, 1, size=(nobj, 1))
        ivar = rs.uniform(0.5, 2.0, size=(nobj, npix))
        ivar[rs.uniform(size=(nobj, npix)) < 0.03] = 0.0
        ivar[: nobj - 200, 3] = 0.0          # one pixel good in exactly 200 spectra, the others in nearly all
        ctx.seen(c)
        try:
            with core.time_limit(120):
                out = pca_solve(flux, ivar, maxiter=0, niter=1, nkeep=2)
        except Exception as e:
            ctx.violate('pca:exception:many:' + core.exc_kind(e), 'pca_solve raised %r on %d spectra' % (e, nobj), c)
            continue
        ctx.count('pca_many:nobj=%d' % nobj)
        want = (ivar != 0).sum(0)
        if not np.array_equal(np.asarray(out['usemask']).astype(np.int64), want):
            ctx.violate('pca:usemask', 'usemask %s is not the number of good spectra per pixel %s (%d spectra)' % (
                _lst(out['usemask']), _lst(want), nobj), c)
        if not np.array_equal(np.asarray(out['outmask']), ivar != 0):
            ctx.violate('pca:outmask', 'outmask differs from (newivar != 0) without rejection (%d spectra)' % nobj, c)
        if np.asarray(out['acoeff']).shape != (nobj, 2) or np.asarray(out['flux']).shape != (2, npix):
            ctx.violate('pca:shape', 'unexpected shapes for %d spectra' % nobj, c)


# ---------------------------------------------------------------- find_contiguous alone
def _contig_case(ctx, c):
    """find_contiguous(x) on its own: model (scan + first maximum), brute-force oracle over ALL blocks (the statement of
    findContiguous_longest_first: no block of consecutive true entries is longer, among equally long ones the first)"""
    from pydl.pydlutils.math import find_contiguous
    good = [bool(b) for b in c['good']]
    n = len(good)
    dt = c['dtype']
    if dt == 'bool':
        x = np.array(good, dtype=bool)
    elif dt == 'int':
        x = np.array([(c['nseed'] >> (k % 20)) % 5 + 1 if b else 0 for k, b in enumerate(good)], dtype=np.int64)
    else:
        x = np.array([-0.5 - k if b else 0.0 for k, b in enumerate(good)], dtype=np.float64)
    ctx.seen(c)
    runs = []
    k = 0
    while k < n:
        if good[k]:
            e = k
            while e < n and good[e]:
                e += 1
            runs.append((k, e - k))
            k = e
        else:
            k += 1
    lens = [r[1] for r in runs]
    ctx.count('contig:runs=%s:ties=%s:%s' % (min(len(runs), 4), min(lens.count(max(lens)), 3) if lens else 0, dt))
    before = x.tobytes()
    try:
        impl = [int(v) for v in find_contiguous(x)]
    except Exception as e:
        impl = 'err:' + core.exc_kind(e)
    if x.tobytes() != before:
        ctx.violate('contig:input-modified', 'find_contiguous modified its argument', c)
    r = yield {'p': 'C15', 'op': 'contig', 'good': good}
    if 'driver_error' in r:
        raise core.DriverError(str(r))
    mdl = 'err:' + r['err'] if 'err' in r else list(range(r['col0'], r['col0'] + r['ncol']))
    if impl != mdl:
        ctx.disagree('contig', c, impl, mdl)
    if 'runs' in r and [tuple(t) for t in r['runs']] != runs:
        ctx.disagree('contig:runs', c, runs, r['runs'])
    # oracle: brute force over every block [st, st+l)
    best = None
    for l in range(n, 0, -1):
        for st in range(0, n - l + 1):
            if all(good[st:st + l]):
                best = (st, l)
                break
        if best:
            break
    if best is None:
        if impl != 'err:ValueError':
            ctx.violate('contig:no-true-entry', 'find_contiguous returned %r for an argument without a true entry (ValueError expected)' % (impl,), c)
    elif impl != list(range(best[0], best[0] + best[1])):
        ctx.violate('contig:not-first-longest', 'find_contiguous returned %r, the first longest block of true entries is %r' % (
            impl, list(range(best[0], best[0] + best[1]))), c)


def _contig(ctx, cases=None):
    if cases is None:
        cases = []
        for i in range(ctx.n(60, 3000)):
            n = ctx.rng.choice([0, 1, 2, 3, 5, 8, 12, 20, 33])
            kind = i % 4
            if kind == 0:
                good = [ctx.rng.random() < ctx.rng.choice([0.3, 0.6, 0.9]) for _ in range(n)]
            elif kind == 1:       # equal runs (ties) separated by single false entries
                L = ctx.rng.choice([1, 2, 3])
                good = [(k % (L + 1)) != L for k in range(n)]
                if n and ctx.rng.random() < 0.5:
                    good[ctx.rng.randrange(n)] = False
            elif kind == 2:       # all true / all false / one hole
                good = [ctx.rng.choice([True, True, False])] * n
                if n and ctx.rng.random() < 0.6:
                    good[ctx.rng.randrange(n)] = not good[0]
            else:                 # longest run at the end, after several shorter ones
                good = [ctx.rng.random() < 0.5 for _ in range(n)] + [False] + [True] * ctx.rng.randrange(0, n + 2)
            cases.append({'stream': 'contig', 'good': [bool(b) for b in good], 'dtype': ctx.rng.choice(['bool', 'int', 'float']),
                          'nseed': ctx.rng.getrandbits(20)})
        # bounded-exhaustive: every boolean vector up to length 8 (quick) / 12 (thorough)
        top = ctx.n(8, 12)
        for n in range(0, top + 1):
            for bits in range(2 ** n):
                cases.append({'stream': 'contig', 'good': [bool((bits >> k) & 1) for k in range(n)], 'dtype': 'bool', 'nseed': 0})
    _run_stream(ctx, _contig_case, cases)


# ---------------------------------------------------------------- single spectrum given as a vector (extension 2)
def _pca_vec_case(ctx, c):
    """pca_solve with ONE spectrum: one-dimensional newflux (model pcaSolveVec) or a 1 x npix matrix (model pcaSolveMax, nobj = 1).
    The code returns only {'flux': newflux as float32}; a one-dimensional newivar is refused (IndexError: nzi[1]), a first
    row of newivar without non-zero entry too (ValueError)."""
    from pydl.pydlspec2d.spec1d import pca_solve
    rs = np.random.RandomState(c['nseed'])
    npix, form = c['npix'], c['form']
    flux = rs.standard_normal(npix) * 10.0 ** rs.randint(-3, 6)
    iv = rs.uniform(0.5, 2.0, size=npix)
    iv[rs.uniform(size=npix) < 0.3] = 0.0
    if not iv.any():
        iv[rs.randint(npix)] = 1.0
    if form == 'vec/ivar-vec':
        f_in, i_in = flux, iv
    elif form == 'vec/ivar-1row':
        f_in, i_in = flux, iv.reshape(1, npix)
    elif form == 'vec/ivar-2rows':
        f_in, i_in = flux, np.vstack([iv, rs.uniform(0.5, 2.0, size=npix)])
    elif form == 'vec/ivar-row0-zero':
        f_in, i_in = flux, np.vstack([np.zeros(npix), rs.uniform(0.5, 2.0, size=npix)])
    elif form == 'vec/ivar-1row-zero':
        f_in, i_in = flux, np.zeros((1, npix))
    elif form == 'row/ivar-1row':
        f_in, i_in = flux.reshape(1, npix), iv.reshape(1, npix)
    else:   # 'row/ivar-1row-zero'
        f_in, i_in = flux.reshape(1, npix), np.zeros((1, npix))
    ctx.seen(c)
    full = dict(c, input={'newflux': _lst(f_in), 'newivar': _lst(i_in)})
    before = _snap(f_in, i_in)
    try:
        out = pca_solve(f_in, i_in, maxiter=c['maxiter'], niter=c['niter'], nkeep=c['nkeep'])
        impl = 'ok'
    except Exception as e:
        out, impl = None, 'err:' + core.exc_kind(e)
    ctx.count('pca_vec:%s:%s' % (form, impl))
    if _snap(f_in, i_in) != before:
        ctx.violate('pca:input-modified', 'pca_solve modified newflux / newivar (single spectrum)', full)
    i2 = np.atleast_2d(i_in)
    if form.startswith('vec/'):
        r = yield {'p': 'C15', 'op': 'pca_vec', 'npix': npix, 'ivar_dim': int(np.ndim(i_in)), 'flux': _bits(flux), 'ivar': [_bits(row) for row in i2]}
    else:
        r = yield {'p': 'C15', 'op': 'pca_max', 'nobj': 1, 'npix': npix, 'niter': c['niter'], 'nkeep': c['nkeep'], 'maxiter': c['maxiter'],
                   'flux': [_bits(flux)], 'ivar': [_bits(row) for row in i2]}
    if 'driver_error' in r:
        raise core.DriverError(str(r))
    mdl = 'err:' + r['err'] if 'err' in r else ('ok' if 'single' in r else 'full')
    if impl != mdl:
        ctx.disagree('pca_vec:outcome', c, impl, mdl)
        return
    if impl != 'ok':
        return
    got = np.asarray(out.get('flux'))
    if not np.array_equal(got.ravel(), _unbits(r['single']).astype('f')):
        ctx.disagree('pca_vec:flux', c, _lst(got), _lst(_unbits(r['single']).astype('f')))
    # oracle: "all we can do is return it" - the dictionary holds the flux alone, as float32, in the shape it was given
    if sorted(out.keys()) != ['flux'] or got.dtype != np.float32 or got.shape != np.shape(f_in) or not np.array_equal(got, np.asarray(f_in).astype('f')):
        ctx.violate('pca_vec:not-the-input-spectrum', 'pca_solve with one spectrum returned %r instead of the spectrum itself as float32' % (
            {k: np.shape(v) for k, v in out.items()},), full)


def _pca_vec(ctx, cases=None):
    if cases is None:
        forms = ['vec/ivar-vec', 'vec/ivar-1row', 'vec/ivar-2rows', 'vec/ivar-row0-zero', 'vec/ivar-1row-zero', 'row/ivar-1row', 'row/ivar-1row-zero']
        cases = []
        for i in range(ctx.n(28, 700)):
            cases.append({'stream': 'pca_vec', 'form': forms[i % len(forms)], 'npix': ctx.rng.choice([1, 2, 3, 7, 20, 64]), 'nseed': ctx.rng.getrandbits(32),
                          'niter': ctx.rng.choice([0, 1, 3]), 'nkeep': ctx.rng.choice([1, 3]), 'maxiter': ctx.rng.choice([0, 2])})
    _run_stream(ctx, _pca_vec_case, cases)


# ---------------------------------------------------------------- HMF when k-means returns fewer than K centroids (extension 2)
def _hmf_fewk_case(ctx, c):
    """spectra with fewer than K distinct rows: scipy's kmeans drops the empty clusters and returns Kg < K centroids.  The code then
    works with a (N x K) and g (Kg x M): ValueError in the first astepnn (non-negative mode) or in the normalisation after the
    first sweep (default mode); with n_iter = 0 in the default mode the start values are returned.  Model: iterateColsKg."""
    import warnings
    import scipy.cluster.vq as vq
    g_ = c['gen']
    rs = np.random.RandomState(g_['nseed'])
    N, M, K, nn, n_iter, eps = g_['N'], g_['M'], g_['K'], g_['nonneg'], g_['n_iter'], g_['eps']
    xs = np.linspace(0, 1, M)
    pat = np.array([1.0 + 0.8 * np.sin((k + 1) * 3.0 * xs + rs.uniform(0, 6)) + 0.3 * rs.standard_normal(M) for k in range(g_['distinct'])])
    if nn:
        pat = np.abs(pat) + 0.05
    which = rs.randint(0, g_['distinct'], size=N)
    which[:g_['distinct']] = np.arange(g_['distinct'])
    s = np.ascontiguousarray(pat[which])
    w = rs.uniform(0.5, 4.0, size=(N, M))
    if ((s.sum(0) == 0) | ((s * w).sum(0) == 0)).any():
        ctx.count('hmf_fewk:generator-gave-up')
        return
    ctx.seen(c)
    full = dict(c, input={'spectra': _lst(s), 'invvar': _lst(w)})
    s1, w1 = s.copy(), w.copy()
    before = _snap(s1, w1)
    rec = {}
    orig = vq.kmeans

    def spy(*a, **k):
        out = orig(*a, **k)
        rec['g0'] = np.array(out[0], dtype=float, copy=True)
        return out
    h = _mk_hmf(s1, w1, K, eps, nn, n_iter=n_iter, seed=g_['seed'])
    with warnings.catch_warnings():
        warnings.simplefilter('ignore')
        try:
            with mock.patch.object(vq, 'kmeans', spy):
                out = h.solve()
            impl = 'ok'
        except Exception as e:
            out, impl = None, 'err:' + core.exc_kind(e)
    g0 = rec.get('g0')
    if g0 is None or g0.ndim != 2 or g0.shape[0] >= K:
        ctx.count('hmf_fewk:kmeans-returned-K-centroids')
        return
    Kg = g0.shape[0]
    ctx.count('hmf_fewk:%s:K=%d:Kg=%d:n_iter=%s:%s' % ('nn' if nn else 'default', K, Kg, '0' if n_iter == 0 else '>0', impl))
    if not nn and _snap(s1, w1) != before:
        ctx.violate('hmf_solve:caller-arrays-modified:default', 'HMF.solve modified the spectra / invvar arrays of the caller (fewer centroids than K)', full)
    r = yield {'p': 'C15', 'op': 'hmf_cols_kg', 'N': N, 'M': M, 'K': K, 'Kg': Kg, 'n_iter': n_iter, 's': _bits(s), 'w': _bits(w),
               'g0': _bits(g0), 'nonneg': nn, 'eps': None if eps is None else core.f2b(eps)}
    if 'driver_error' in r:
        raise core.DriverError(str(r))
    mdl = 'err:' + r['err'] if 'err' in r else 'ok'
    if impl != mdl:
        ctx.disagree('hmf_fewk:outcome', c, impl, mdl)
        return
    if impl != 'ok':
        return
    a, g = np.asarray(out['acoeff'], dtype=float), np.asarray(out['flux'], dtype=float)
    if a.shape != (N, K) or g.shape != (Kg, M) or (r['col0'], r['ncol']) != (0, M):
        ctx.disagree('hmf_fewk:shape', c, [list(a.shape), list(g.shape)], [[N, K], [Kg, M], r['col0'], r['ncol']])
        return
    ma, mg = _unbits(r['a']).reshape(N, K), _unbits(r['g']).reshape(Kg, M)
    if not (_near(a, ma, TOL) and _near(g, mg, TOL)):
        ctx.disagree('hmf_fewk:values', c, {'a': _lst(a)[:2], 'g': _lst(g)[:1]}, {'a': _lst(ma)[:2], 'g': _lst(mg)[:1]})
    # oracle for the state that is returned without any update: unit-rms centroids, flat coefficients rms(spectrum) / K
    if not _near(np.sqrt((g ** 2).mean(1)), np.ones(Kg), 1e-10):
        ctx.violate('hmf_solve:not-unit-rms', 'returned components do not have unit rms (fewer centroids than K)', full)
    if not _near(a, np.repeat(np.sqrt((s ** 2).mean(1))[:, None] / K, K, axis=1), 1e-12):
        ctx.violate('hmf_fewk:start-coefficients', 'coefficients returned without any update are not rms(spectrum)/K', full)


def _hmf_fewk(ctx, cases=None):
    if cases is None:
        cases = []
        for i in range(ctx.n(24, 400)):
            K = ctx.rng.choice([2, 3, 4])
            cases.append({'stream': 'hmf_fewk', 'gen': {
                'nseed': ctx.rng.getrandbits(32), 'K': K, 'distinct': ctx.rng.randrange(1, K), 'N': ctx.rng.randrange(4 * K + 4, 24),
                'M': ctx.rng.randrange(3 * K + 5, 22), 'nonneg': i % 3 == 2, 'n_iter': ctx.rng.choice([0, 0, 1, 3]),
                'eps': ctx.rng.choice([None, 0.0, 2.0]), 'seed': ctx.rng.choice([0, 1, ctx.rng.randrange(0, 10000)])}})
    _run_stream(ctx, _hmf_fewk_case, cases)


# ---------------------------------------------------------------- the check
STREAMS = {'contig': _contig, 'pca_vec': _pca_vec, 'hmf_fewk': _hmf_fewk, 'pca_many': _pca_many, 'chi2': _chi2, 'chi2v': _chi2v, 'pcomp': _pcomp, 'hmf_step': _hmf_step, 'hmf_solve': _hmf_solve, 'pca': _pca}


def _quiet():
    try:
        from astropy import log
        log.setLevel('ERROR')
    except Exception:
        pass


def run(ctx):
    _quiet()
    ok = core.audit(ctx, LEAN_MODULES, THEOREMS)
    for name, f in STREAMS.items():
        f(ctx)
    if not ok or ctx.disagreements:
        _directed_search(ctx)


def _directed_search(ctx):
    """proof or correspondence broken: more oracle-driven cases of the streams that disagree (all of them when the build is broken)"""
    streams = {d['stream'].split(':')[0] for d in ctx.disagreements} or set(STREAMS)
    ctx.notes.append('directed search on streams %s' % sorted(streams))
    for name in sorted(streams):
        if name in STREAMS:
            for _ in range(2):
                try:
                    STREAMS[name](ctx)
                except core.DriverError:
                    pass


def replay(ctx, case):
    _quiet()
    core.audit(ctx, LEAN_MODULES, THEOREMS)
    c = {k: v for k, v in case.items() if k != 'input'}
    s = c.get('stream')
    if s in STREAMS:
        STREAMS[s](ctx, [c])
    else:
        run(ctx)
